------------------------------ MODULE UafWalk ------------------------------
(***************************************************************************)
(* X06: the use-after-free / double-free checker (checkers/cwe_416:        *)
(* mod.rs, state.rs, context.rs) as an OBJECT-STATE MACHINE over the        *)
(* interprocedural graph of Cfg.tla.                                        *)
(*                                                                         *)
(* STATEMENT.  For every program of the input class below (one function f,  *)
(* optionally one callee g; heap objects are created by calls of an         *)
(* allocation symbol, flow only through registers and stack slots at        *)
(* constant offsets and are released by calls of a configured deallocation  *)
(* symbol) and every configuration (deallocation symbols, path flag):       *)
(*                                                                         *)
(*      Must(P, cfg)  \subseteq  reported  \subseteq  May(P, cfg)           *)
(*                                                                         *)
(* where reported is the set of (name, TID) of the warnings of              *)
(* cwe_416::check_cwe and                                                   *)
(*   May  = the sites u (load / store / call) at which an object the        *)
(*          accessed pointer may point to (the pointer inference's target   *)
(*          set at u) is DANGLING -- freed before, by this function or by   *)
(*          the callee that received it, and not yet flagged -- on SOME     *)
(*          control-flow path to u (CWE416 at accesses and call parameters, *)
(*          CWE415 at a call of a deallocation symbol);                     *)
(*   Must = the sites of May at which the object is dangling on some path   *)
(*          and ALREADY FLAGGED ON NO path (and whose "freed" state does    *)
(*          not depend on a callee that also has a "flagged" outcome).      *)
(* For programs without a join of a flagged and an unflagged path           *)
(* Must = May and the statement is "reported = May": in particular nothing  *)
(* is reported for a program in which nothing is used or freed after a      *)
(* free.  The gap between Must and May is exactly the checker's             *)
(* de-duplication ("a warning for this object was already generated"),      *)
(* whose effect at a join depends on the order in which the fixpoint        *)
(* algorithm visits the paths (the node values accumulate the JOIN of all   *)
(* intermediate results and `flagged` absorbs `dangling`); the statement    *)
(* deliberately does not fix that order.                                    *)
(*                                                                         *)
(* RULE SET (read from the code and its module documentation, validated     *)
(* against the real checker on 52 877 generated programs before this        *)
(* module was written: DESIGN.md 11.5, X06).                                *)
(*                                                                         *)
(* 1. Object identification = the pointer inference restricted to the       *)
(*    class, a MAY points-to analysis (Vals below, mode "pi"):              *)
(*    per graph node the set P of (location, id) pairs, location = 8-byte   *)
(*    register or 8-byte stack slot (offset from the frame base), id =      *)
(*    Obj(call TID) for the object an allocation call creates (and for the  *)
(*    object a callee hands back in the return register), Par(r) for the    *)
(*    value parameter register r has at function entry.  Copies and         *)
(*    pointer +- constant keep the targets; a constant, an unknown value    *)
(*    or a value loaded through a pointer has none; calls clear every       *)
(*    register that is not callee-saved; stack slots survive calls; values  *)
(*    merge by UNION at joins (a register that is unknown on one side keeps *)
(*    the targets of the other: DomainMap::MergeTopStrategy, MemRegion).    *)
(*    An object id is UNIQUE until its allocation site is passed again      *)
(*    while the object still exists (objects are dropped only after an      *)
(*    internal call, when nothing refers to them any more).                 *)
(*    Return from the callee: callee-saved registers and slots of the       *)
(*    caller survive; a return register gets the caller's values of the     *)
(*    parameters it holds and, if it points to an object allocated in the   *)
(*    callee, the object Obj(call TID).                                     *)
(* 2. Which registers are parameters (entry value Par(r)) and which of      *)
(*    them the function DEREFERENCES is decided by the function-signature   *)
(*    analysis: the same value analysis started with every parameter        *)
(*    register of the convention (mode "sig"), recording read / dereference *)
(*    flags: a register is read by an assignment, an address or a stored    *)
(*    value (not by a plain spill to the stack), it is dereferenced as the  *)
(*    base of an address; an extern symbol flags its parameters as its      *)
(*    stub says; the flags of the callee's parameters are added to what the *)
(*    caller passes.                                                        *)
(* 3. The object-state machine (Uaf below).  Per node and id the SET of     *)
(*    states the object can have on some path: N not freed, D dangling,     *)
(*    F dangling and already flagged.                                       *)
(*      access (load / store) through a pointer, parameter of an extern     *)
(*        call that is not a deallocation symbol, parameter the callee       *)
(*        dereferences at an internal call:                                  *)
(*        every target in D -> warning CWE416 at the site, D becomes F      *)
(*        (the flagging at an internal call is kept only on the return      *)
(*        edge);                                                            *)
(*      call of a deallocation symbol with return site: every target of     *)
(*        its first parameter that is not a non-unique object becomes D;    *)
(*        a target that was D -> warning CWE415 at the call (F becomes D    *)
(*        again without a warning);                                         *)
(*      return from the callee: an object a parameter points to becomes D   *)
(*        if that parameter is D at the callee's return (not if it is F:    *)
(*        "flagged in the callee" is not handed up), unless the object is   *)
(*        not unique or is the object named by this very call; otherwise it *)
(*        keeps its state; no CWE415 here;                                  *)
(*      calls without return site have no stub / return edge: nothing       *)
(*        happens there; nodes the pointer inference does not reach have no *)
(*        targets.                                                          *)
(*                                                                         *)
(* INPUT CLASS (InClassSyntax + the `bad` set of the analyses; an event     *)
(* outside is accepted vacuously and counted).  Deliberate approximations   *)
(* of the checker that the module documentation lists stay OUTSIDE:         *)
(*   - nested pointers / arrays / recursive structures: a pointer is never  *)
(*     stored through a pointer; a value loaded through a pointer is        *)
(*     "untracked": it must not be freed and nothing is accessed through it *)
(*     (it may be an untracked parameter object);                           *)
(*   - no access through a constant (a NULL dereference ends the path in    *)
(*     the pointer inference);                                              *)
(*   - path-insensitivity is harmless because every conditional branch      *)
(*     tests a flag the same block sets to an unknown value;                *)
(*   - the stack pointer is only adjusted by constants, equal on all paths  *)
(*     to a node; a callee returns with the stack pointer the architecture  *)
(*     expects; slots are 8-byte, aligned, below the frame base;            *)
(*   - no indirect calls / jumps; extern symbols are libc names with a      *)
(*     function-signature stub and register parameters; one convention;     *)
(*   - only f calls g, g calls no function ("two-function programs");       *)
(*   - no deallocation hits an object whose id is not unique (an allocation *)
(*     site passed again while its object exists: "we cannot distinguish    *)
(*     different objects represented by the same ID", such ids are not      *)
(*     marked) or the object that the releasing call itself names ("freed   *)
(*     in the same call where it is created").                              *)
(* NOT excluded: the target set of a pointer is the pointer inference's     *)
(* union over all paths, so the documented path-insensitivity (pointer and  *)
(* free correlated on different paths) is part of the rule, not of the      *)
(* class boundary.                                                          *)
(* Definitions only; spec/mc/MC_UafWalk.tla checks hand-derived             *)
(* expectations, spec/trace/T_X06.tla binds recorded runs.                  *)
(***************************************************************************)
EXTENDS WalkBase

(***************************************************************************)
(* Vocabulary                                                              *)
(***************************************************************************)
Reg(n) == [r |-> n, o |-> 0]                 \* locations: a register ...
Slot(o) == [r |-> "", o |-> o]               \* ... or the stack slot at frame offset o
Obj(t) == [k |-> "obj", n |-> t]             \* ids: the object created at call t ...
Par(r) == [k |-> "par", n |-> r]             \* ... or the entry value of parameter register r
\* a value: its possible targets, "may be a constant", "may be an untracked (loaded) value"
TopVal == [ids |-> {}, c |-> FALSE, u |-> FALSE]
ConstVal == [ids |-> {}, c |-> TRUE, u |-> FALSE]
UnkVal == [ids |-> {}, c |-> FALSE, u |-> TRUE]
PtrVal(i) == [ids |-> {i}, c |-> FALSE, u |-> FALSE]
ParsOf(v) == {i.n : i \in {x \in v.ids : x.k = "par"}}

\* extern symbols of the class: allocation symbols of the pointer inference, and per name the access
\* pattern of the function-signature stub ("r" read, "d" dereferenced) per parameter position
AllocNames == {"malloc", "calloc", "strdup"}
StubPat(name) ==
  CASE name = "malloc" -> <<"r">>          [] name = "calloc" -> <<"r", "r">>  [] name = "strdup" -> <<"d">>
    [] name = "free" -> <<"d">>            [] name = "fclose" -> <<"d">>       [] name = "puts" -> <<"d">>
    [] name = "strlen" -> <<"d">>          [] name = "memcmp" -> <<"d", "d", "r">>
    [] name = "putchar" -> <<"r">>         [] name = "getpid" -> <<>>          [] name = "exit" -> <<"r">>
StubNames == {"malloc", "calloc", "strdup", "free", "fclose", "puts", "strlen", "memcmp", "putchar", "getpid", "exit"}
Kinds(p) == IF p = "d" THEN {"r", "d"} ELSE {"r"}

\* signed value of an 8-byte little-endian constant of small magnitude
SmallConst(c) ==
  IF Len(c) # 8 THEN [ok |-> FALSE, v |-> 0]
  ELSE IF \A i \in 3..8 : c[i] = 0 THEN [ok |-> TRUE, v |-> c[1] + 256 * c[2]]
  ELSE IF \A i \in 3..8 : c[i] = 255 THEN [ok |-> TRUE, v |-> c[1] + 256 * c[2] - 65536]
  ELSE [ok |-> FALSE, v |-> 0]

(***************************************************************************)
(* Context: everything computed once per event                             *)
(***************************************************************************)
FlowKinds == {"Block", "Jump", "ExternCallStub", "ReturnCombine"}
Context(PJ, dealloc) ==
  LET P == PJ.program
      E == DOMAIN Graph(P).edges
      N == {n \in {e.src : e \in E} \cup {e.dst : e \in E} : n.k \in {"BlkStart", "BlkEnd"}}
      cc == StdCconv(PJ)
  IN  [PJ |-> PJ, P |-> P, E |-> E, N |-> N,
       inn |-> Table([n \in N |-> {e \in E : e.dst = n /\ e.k \in FlowKinds}]),
       \* the block nodes whose state an in-edge of n reads (a return edge reads the call site and the callee's returning block)
       deps |-> Table([n \in N |-> UNION {IF e.k = "ReturnCombine"
                                            THEN {Node("BlkEnd", e.src.blk, e.src.sub, NoTid, NoTid), Node("BlkEnd", e.src.blk2, e.src.sub2, NoTid, NoTid)}
                                            ELSE {e.src} : e \in {x \in E : x.dst = n /\ x.k \in FlowKinds}}]),
       jmp |-> JmpTable(P), ext |-> ExternTable(P),
       sp |-> PJ.sp.n, x86 |-> PJ.arch \in {"x86", "x86_32", "x86_64"},
       saved |-> SavedRegs(cc) \ {PJ.sp.n}, params |-> VarNames(cc.params), rets |-> cc.rets,
       dealloc |-> dealloc]
EndNode(blk, sub) == Node("BlkEnd", blk, sub, NoTid, NoTid)
ArgReg(a) == a.e.v.n

(***************************************************************************)
(* 1./2. The value analysis (pointer inference / function signatures)      *)
(***************************************************************************)
\* sp = the stack pointer's offset from the frame base; spok = FALSE: it differs between the paths to this node (then sp = 0)
Bot == [live |-> FALSE, sp |-> 0, spok |-> TRUE, P |-> {}, C |-> {}, U |-> {}, O1 |-> {}, O2 |-> {}, G |-> {}, bad |-> {}]
JoinAll(S) ==
  LET L == {s \in S : s.live} IN
  IF L = {} THEN Bot
  ELSE LET s0 == CHOOSE s \in L : TRUE
           ok == \A s \in L : s.spok /\ s.sp = s0.sp
       IN
       [live |-> TRUE, sp |-> IF ok THEN s0.sp ELSE 0, spok |-> ok,
        P |-> UNION {s.P : s \in L}, C |-> UNION {s.C : s \in L}, U |-> UNION {s.U : s \in L},
        O1 |-> UNION {s.O1 : s \in L}, O2 |-> UNION {s.O2 : s \in L}, G |-> UNION {s.G : s \in L},
        bad |-> UNION {s.bad : s \in L} \cup (IF ok THEN {} ELSE {"stack pointer differs at a join"})]
ValOf(st, loc) == [ids |-> {q[2] : q \in {x \in st.P : x[1] = loc}}, c |-> loc \in st.C, u |-> loc \in st.U]
SetLoc(st, loc, v) ==
  [st EXCEPT !.P = {q \in @ : q[1] # loc} \cup {<<loc, i>> : i \in v.ids},
             !.C = IF v.c THEN @ \cup {loc} ELSE @ \ {loc},
             !.U = IF v.u THEN @ \cup {loc} ELSE @ \ {loc}]
AddBad(st, b) == [st EXCEPT !.bad = @ \cup b]
AddFlags(st, g) == [st EXCEPT !.G = @ \cup g]
IsReg8(v) == v.s = 8 /\ ~v.t
IsSpVar(C, e) == e.k = "var" /\ e.v.n = C.sp
IsSpOffset(C, e) == e.k = "bin" /\ e.op \in {"IntAdd", "IntSub"} /\ IsSpVar(C, e.l) /\ e.r.k = "const" /\ SmallConst(e.r.c).ok
SpDelta(e) == IF e.op = "IntAdd" THEN SmallConst(e.r.c).v ELSE 0 - SmallConst(e.r.c).v

\* value of an expression: [v, bad]
Eval(C, st, e) ==
  IF e.k = "var" THEN
    IF e.v.n = C.sp THEN [v |-> TopVal, bad |-> {"stack pointer used as a value"}]
    ELSE IF IsReg8(e.v) THEN [v |-> ValOf(st, Reg(e.v.n)), bad |-> {}]
    ELSE [v |-> UnkVal, bad |-> {}]
  ELSE IF e.k = "const" THEN [v |-> ConstVal, bad |-> {}]
  ELSE IF e.k = "unknown" THEN [v |-> TopVal, bad |-> {}]
  ELSE IF e.k = "bin" /\ e.op \in {"IntAdd", "IntSub"} /\ e.r.k = "const" /\ e.l.k = "var" /\ e.l.v.n # C.sp /\ IsReg8(e.l.v)
    THEN [v |-> ValOf(st, Reg(e.l.v.n)), bad |-> {}]
  ELSE [v |-> UnkVal,
        bad |-> (IF C.sp \in InputVars(e) THEN {"stack pointer in an unmodelled expression"} ELSE {})
                \cup (IF \E x \in InputVars(e) : ValOf(st, Reg(x)).ids # {} THEN {"pointer in an unmodelled expression"} ELSE {})]
\* address of a load / store: [k |-> "stack", off] or [k |-> "val", v]
Addr(C, st, e) ==
  IF IsSpVar(C, e) THEN [k |-> "stack", off |-> st.sp, v |-> TopVal, bad |-> {}]
  ELSE IF IsSpOffset(C, e) THEN [k |-> "stack", off |-> st.sp + SpDelta(e), v |-> TopVal, bad |-> {}]
  ELSE IF C.sp \in InputVars(e) THEN [k |-> "val", off |-> 0, v |-> TopVal, bad |-> {"stack address that is not RSP + constant"}]
  ELSE LET r == Eval(C, st, e) IN [k |-> "val", off |-> 0, v |-> r.v, bad |-> r.bad]

\* function-signature flags
RECURSIVE PointerInputs(_)
PointerInputs(e) ==
  IF e.k = "var" THEN {e.v.n}
  ELSE IF e.k = "bin" /\ e.op \in {"IntAdd", "IntAnd", "IntXOr", "IntOr"} THEN PointerInputs(e.l) \cup PointerInputs(e.r)
  ELSE IF e.k = "bin" /\ e.op = "IntSub" THEN PointerInputs(e.l)
  ELSE {}
FlagsOfVal(v, kinds) == {<<p, k>> : p \in ParsOf(v), k \in kinds}
FlagsOfRegs(C, st, names, kinds) == UNION {FlagsOfVal(ValOf(st, Reg(x)), kinds) : x \in names \ {C.sp}}
AddrFlags(C, sig, st, a) ==
  IF sig THEN FlagsOfRegs(C, st, PointerInputs(a), {"r", "d"}) \cup FlagsOfRegs(C, st, InputVars(a), {"r"}) ELSE {}
BadSlot(off, size) == IF off >= 0 \/ off % 8 # 0 \/ size # 8 THEN {"stack slot outside the class"} ELSE {}
BadDeref(v) == IF v.ids = {} /\ (v.c \/ v.u) THEN {"access through a constant or untracked value"} ELSE {}

NoAddr == [has |-> FALSE, v |-> TopVal]
\* transfer of one Def: [st, a] where a is the address value of a load / store
StepDef(C, sig, st, d) ==
  IF d.k = "assign" THEN
    IF d.v.n = C.sp THEN
      IF IsSpOffset(C, d.e) THEN [st |-> [st EXCEPT !.sp = IF st.spok THEN @ + SpDelta(d.e) ELSE 0], a |-> NoAddr]
      ELSE [st |-> AddBad(st, {"stack pointer assigned something else than RSP + constant"}), a |-> NoAddr]
    ELSE LET r == Eval(C, st, d.e)
             s1 == AddBad(AddFlags(st, IF sig THEN FlagsOfRegs(C, st, InputVars(d.e), {"r"}) ELSE {}), r.bad)
         IN  [st |-> IF IsReg8(d.v) THEN SetLoc(s1, Reg(d.v.n), r.v) ELSE s1, a |-> NoAddr]
  ELSE IF d.k = "load" THEN
    LET a == Addr(C, st, d.a)
        s0 == AddBad(AddFlags(st, AddrFlags(C, sig, st, d.a)), a.bad)
    IN  IF a.k = "stack" THEN
          LET v == ValOf(st, Slot(a.off))
              s1 == AddBad(AddFlags(s0, IF sig THEN FlagsOfVal(v, {"r"}) ELSE {}), BadSlot(a.off, d.v.s))
          IN  [st |-> IF IsReg8(d.v) THEN SetLoc(s1, Reg(d.v.n), v) ELSE s1, a |-> [has |-> TRUE, v |-> TopVal]]
        ELSE
          LET s1 == AddBad(AddFlags(s0, IF sig THEN FlagsOfVal(a.v, {"r", "d"}) ELSE {}), BadDeref(a.v))
          IN  [st |-> IF IsReg8(d.v) THEN SetLoc(s1, Reg(d.v.n), UnkVal) ELSE s1, a |-> [has |-> TRUE, v |-> a.v]]
  ELSE \* store
    LET a == Addr(C, st, d.a)
        s0 == AddBad(AddFlags(st, AddrFlags(C, sig, st, d.a)), a.bad)
        r == Eval(C, st, d.e)
    IN  IF a.k = "stack" THEN
          \* a plain spill is not a read of the spilled register
          LET g == IF sig /\ d.e.k # "var" THEN FlagsOfRegs(C, st, InputVars(d.e), {"r"}) ELSE {}
              s1 == AddBad(AddFlags(s0, g), r.bad \cup BadSlot(a.off, IF d.e.k = "var" THEN d.e.v.s ELSE 8))
          IN  [st |-> SetLoc(s1, Slot(a.off), r.v), a |-> [has |-> TRUE, v |-> TopVal]]
        ELSE
          LET g == IF sig THEN FlagsOfVal(a.v, {"r", "d"}) \cup FlagsOfRegs(C, st, InputVars(d.e), {"r"}) ELSE {}
              s1 == AddBad(AddFlags(s0, g), r.bad \cup BadDeref(a.v)
                           \cup (IF r.v.ids # {} THEN {"pointer stored through a pointer"} ELSE {}))
          IN  [st |-> s1, a |-> [has |-> TRUE, v |-> a.v]]

\* all Defs of a block; acc collects <<def TID, address value>> of the loads and stores
RECURSIVE RunDefs(_, _, _, _, _, _)
RunDefs(C, sig, st, defs, i, acc) ==
  IF i > Len(defs) THEN [st |-> st, addrs |-> acc]
  ELSE LET r == StepDef(C, sig, st, defs[i])
       IN  RunDefs(C, sig, r.st, defs, i + 1, IF r.a.has THEN acc \cup {<<defs[i].tid, r.a.v>>} ELSE acc)

\* every call clears the registers that are not callee-saved; on x86 the return address is popped
AfterCall(C, st) ==
  LET keep(loc) == loc.r = "" \/ loc.r \in C.saved IN
  [st EXCEPT !.P = {q \in @ : keep(q[1])}, !.C = {l \in @ : keep(l)}, !.U = {l \in @ : keep(l)},
             !.sp = IF C.x86 /\ st.spok THEN @ + 8 ELSE @]
ExtCall(C, sig, st, j) ==
  LET x == C.ext[j.t]
      pat == StubPat(x.name)
      g == IF sig THEN UNION {FlagsOfVal(ValOf(st, Reg(ArgReg(x.params[k]))), Kinds(pat[k])) : k \in DOMAIN x.params \cap DOMAIN pat} ELSE {}
      s1 == AfterCall(C, AddFlags(st, g))
  IN  IF x.name \in AllocNames
      THEN SetLoc([s1 EXCEPT !.O1 = @ \cup {j.tid}, !.O2 = IF j.tid \in st.O1 THEN @ \cup {j.tid} ELSE @],
                  Reg(C.rets[1].n), PtrVal(Obj(j.tid)))
      ELSE s1
\* objects nothing refers to any more are dropped (after an internal call only)
DropUnreferenced(st) ==
  LET ref == {q[2].n : q \in {x \in st.P : x[2].k = "obj"}} IN
  [st EXCEPT !.O1 = @ \cap ref, !.O2 = @ \cap ref]
\* pointer inference: return from the callee state sg (end of one returning block) to the caller state st at the call j
RetPi(C, st, sg, j) ==
  LET base == AfterCall(C, st)
      heap(v) == {i \in v.ids : i.k = "obj" /\ i.n \in sg.O1}
      vals(ps) == {ValOf(st, Reg(p)) : p \in ps}
      retval(ret) ==
        LET v == ValOf(sg, Reg(ret))
            sub == vals(ParsOf(v))
        IN  [ids |-> (IF heap(v) # {} THEN {Obj(j.tid)} ELSE {}) \cup UNION {w.ids : w \in sub},
             c |-> v.c \/ \E w \in sub : w.c, u |-> v.u \/ \E w \in sub : w.u]
      r1 == C.rets[1].n
      others == {C.rets[k].n : k \in DOMAIN C.rets} \ {r1}
      newobj == heap(ValOf(sg, Reg(r1))) # {}
      RECURSIVE SetAll(_, _)
      SetAll(s, rs) == IF rs = {} THEN s ELSE LET r == CHOOSE x \in rs : TRUE IN SetAll(SetLoc(s, Reg(r), retval(r)), rs \ {r})
      s1 == SetAll(base, others \cup {r1})
      s2 == IF newobj THEN [s1 EXCEPT !.O1 = @ \cup {j.tid}, !.O2 = IF j.tid \in st.O1 THEN @ \cup {j.tid} ELSE @] ELSE s1
      b == (IF ~sg.spok \/ sg.sp # (IF C.x86 THEN 8 ELSE 0) THEN {"callee returns with an unexpected stack pointer"} ELSE {})
           \cup (IF \E r \in others : heap(ValOf(sg, Reg(r))) # {} THEN {"callee returns a heap pointer in a second return register"} ELSE {})
  IN  AddBad(DropUnreferenced(s2), b)
\* function signatures: return from the callee
RetSig(C, st, sg, j) ==
  LET g == UNION {FlagsOfVal(ValOf(st, Reg(f[1])), {f[2]}) : f \in sg.G}
      s0 == AddFlags(st, g)
      retval(ret) == [ids |-> {Obj(j.tid)} \cup UNION {ValOf(s0, Reg(p)).ids : p \in ParsOf(ValOf(sg, Reg(ret)))}, c |-> FALSE, u |-> FALSE]
      RECURSIVE SetAll(_, _)
      SetAll(s, rs) == IF rs = {} THEN s ELSE LET r == CHOOSE x \in rs : TRUE IN SetAll(SetLoc(s, Reg(r), retval(r)), rs \ {r})
  IN  SetAll(AfterCall(C, s0), {C.rets[k].n : k \in DOMAIN C.rets})

\* value an edge carries, given the current assignment F of states to the block nodes.  The class markers (`bad`) of
\* a state say what THIS node's in-edges found; they are not handed on (some of them are not monotone in the values -
\* "access through a value without targets" disappears when a target arrives - and would circulate in a loop for ever)
NoBad(st) == [st EXCEPT !.bad = {}]
EdgeVal(C, sig, F, e) ==
  IF e.k = "Block" THEN (IF F[e.src].live THEN RunDefs(C, sig, NoBad(F[e.src]), BlkOfNode(C.P, e.src).defs, 1, {}).st ELSE Bot)
  ELSE IF e.k = "Jump" THEN NoBad(F[e.src])
  ELSE IF e.k = "ExternCallStub" THEN (IF F[e.src].live THEN ExtCall(C, sig, NoBad(F[e.src]), C.jmp[e.jmp]) ELSE Bot)
  ELSE \* ReturnCombine: e.src is the CallReturn node (call block, returning block of the callee)
    LET cs == NoBad(F[EndNode(e.src.blk, e.src.sub)])
        rs == NoBad(F[EndNode(e.src.blk2, e.src.sub2)])
    IN  IF cs.live /\ rs.live THEN (IF sig THEN RetSig(C, cs, rs, C.jmp[e.jmp]) ELSE RetPi(C, cs, rs, C.jmp[e.jmp])) ELSE Bot
\* least fixpoint by rounds: only the nodes that read a node changed in the last round are recomputed
RECURSIVE Lfp(_, _, _, _, _)
Lfp(C, sig, init, F, dirty) ==
  LET todo == {n \in C.N : C.deps[n] \cap dirty # {}}
      \* (TLC keeps a function constructor lazy and would re-evaluate the whole chain of rounds at every lookup: force it)
      G == Table([n \in C.N |-> IF n \in todo THEN JoinAll({init[n]} \cup {EdgeVal(C, sig, F, e) : e \in C.inn[n]}) ELSE F[n]])
      changed == {n \in todo : G[n] # F[n]}
  IN  IF changed = {} THEN F ELSE Lfp(C, sig, init, G, changed)
\* entry states: the parameter registers entry[sub] hold their entry values
EntryState(ps) == [Bot EXCEPT !.live = TRUE, !.P = {<<Reg(p), Par(p)>> : p \in ps}]
Vals(C, sig, entry) ==
  LET ent == EntryNodes(C.P)
      init == Table([n \in C.N |-> IF \E t \in DOMAIN ent : ent[t] = n THEN EntryState(entry[n.sub]) ELSE Bot])
  IN  Lfp(C, sig, init, init, {n \in C.N : init[n].live})

ParamsOf(flags) == {f[1] : f \in flags}
DerefOf(flags) == {f[1] : f \in {x \in flags : x[2] = "d"}}

(***************************************************************************)
(* 3. The object-state machine                                             *)
(***************************************************************************)
NDF == {"N", "D", "F"}
Used(m) == (m \cap {"N", "F"}) \cup (IF "D" \in m THEN {"F"} ELSE {})
\* ids of the program: allocation / internal call sites and parameter registers
IdsOf(C) ==
  {Obj(C.jmp[t].tid) : t \in {x \in DOMAIN C.jmp : C.jmp[x].k = "call"}} \cup {Par(p) : p \in C.params}
UBot(I) == [live |-> FALSE, may |-> [i \in I |-> {}], must |-> [i \in I |-> {}], bad |-> {}]
UEntry(I) == [live |-> TRUE, may |-> [i \in I |-> {"N"}], must |-> [i \in I |-> {"N"}], bad |-> {}]
UJoin(I, S) ==
  LET L == {s \in S : s.live} IN
  IF L = {} THEN UBot(I)
  ELSE [live |-> TRUE, may |-> [i \in I |-> UNION {s.may[i] : s \in L}], must |-> [i \in I |-> UNION {s.must[i] : s \in L}],
        bad |-> UNION {s.bad : s \in L}]
\* one check of the target set T: [mm, may, must] (is a warning possible / certain)
Check(mm, T) ==
  [mm |-> [mm EXCEPT !.may = [i \in DOMAIN @ |-> IF i \in T THEN Used(@[i]) ELSE @[i]],
                     !.must = [i \in DOMAIN @ |-> IF i \in T THEN Used(@[i]) ELSE @[i]]],
   may |-> \E i \in T : "D" \in mm.may[i],
   must |-> \E i \in T : "D" \in mm.must[i] /\ "F" \notin mm.may[i]]
Markable(ps, i) == ~(i.k = "obj" /\ i.n \in ps.O2)
\* call of a deallocation symbol with the target set T (already restricted to markable ids)
Free(mm, T) ==
  [mm |-> [mm EXCEPT !.may = [i \in DOMAIN @ |-> IF i \in T THEN {"D"} ELSE @[i]],
                     !.must = [i \in DOMAIN @ |-> IF i \in T THEN {"D"} ELSE @[i]]],
   may |-> \E i \in T : "D" \in mm.may[i],
   must |-> \E i \in T : "D" \in mm.must[i] /\ "F" \notin mm.may[i]]

\* the accesses of a block: fold over its Defs with the address targets AT[def TID] of the pointer inference
RECURSIVE UDefs(_, _, _, _, _)
UDefs(AT, mm, defs, i, acc) ==
  IF i > Len(defs) THEN [mm |-> mm, w |-> acc]
  ELSE IF defs[i].tid \notin DOMAIN AT THEN UDefs(AT, mm, defs, i + 1, acc)
  ELSE LET r == Check(mm, AT[defs[i].tid])
       IN  UDefs(AT, r.mm, defs, i + 1,
                 [may |-> acc.may \cup (IF r.may THEN {<<"CWE416", defs[i].tid>>} ELSE {}),
                  must |-> acc.must \cup (IF r.must THEN {<<"CWE416", defs[i].tid>>} ELSE {})])
NoWarn == [may |-> {}, must |-> {}]

\* extern call at the end of a block (ps = the pointer inference's state there): [mm, may, must] + name of the warning
UExt(C, ps, mm, j) ==
  LET x == C.ext[j.t] IN
  IF ~ps.live THEN [mm |-> mm, may |-> FALSE, must |-> FALSE, name |-> "CWE416"]
  ELSE IF x.name \in C.dealloc THEN
    IF Len(x.params) = 0 THEN [mm |-> mm, may |-> FALSE, must |-> FALSE, name |-> "CWE415"]
    ELSE LET v == ValOf(ps, Reg(ArgReg(x.params[1])))
             r == Free(mm, {i \in v.ids : Markable(ps, i)})
             b == (IF v.u THEN {"untracked value passed to a deallocation symbol"} ELSE {})
                  \cup (IF \E i \in v.ids : ~Markable(ps, i) THEN {"non-unique object freed"} ELSE {})
         IN  [mm |-> [r.mm EXCEPT !.bad = @ \cup b], may |-> r.may, must |-> r.must, name |-> "CWE415"]
  ELSE LET r == Check(mm, UNION {ValOf(ps, Reg(ArgReg(x.params[k]))).ids : k \in DOMAIN x.params})
       IN  [mm |-> r.mm, may |-> r.may, must |-> r.must, name |-> "CWE416"]
\* internal call: the parameters the callee dereferences are checked
UCallCheck(ps, mm, deref) ==
  IF ~ps.live THEN [mm |-> mm, may |-> FALSE, must |-> FALSE]
  ELSE Check(mm, UNION {ValOf(ps, Reg(p)).ids : p \in deref})
\* return edge: mm = caller state after the parameter check, gm = state of the callee at its returning block
URet(C, ps, mm, gm, gparams, callTid) ==
  LET tgt(p) == ValOf(ps, Reg(p)).ids
      objs == {o \in UNION {tgt(p) : p \in gparams} : o # Obj(callTid) /\ Markable(ps, o)}
      pp(o) == {p \in gparams : o \in tgt(p)}
      canDmay(o) == \E p \in pp(o) : "D" \in gm.may[Par(p)]
      canDmust(o) == \E p \in pp(o) : "D" \in gm.may[Par(p)] /\ "F" \notin gm.may[Par(p)]
      canKeep(o) == \A p \in pp(o) : gm.may[Par(p)] \cap {"N", "F"} # {}
      all == UNION {tgt(p) : p \in gparams}
      b == (IF \E o \in all : canDmay(o) /\ ~Markable(ps, o) THEN {"non-unique object freed"} ELSE {})
           \cup (IF canDmay(Obj(callTid)) /\ Obj(callTid) \in all THEN {"object freed by the call that names it"} ELSE {})
  IN  [mm EXCEPT
         !.may = [i \in DOMAIN @ |-> IF i \in objs THEN (IF canDmay(i) THEN {"D"} ELSE {}) \cup (IF canKeep(i) THEN @[i] ELSE {}) ELSE @[i]],
         !.must = [i \in DOMAIN @ |-> IF i \in objs THEN (IF canDmust(i) THEN {"D"} ELSE {}) \cup (IF canKeep(i) \/ ~canDmust(i) THEN @[i] ELSE {}) ELSE @[i]],
         !.bad = @ \cup b]

\* PI = [F |-> states of the pointer inference, AT |-> def TID -> address targets, gparams, gderef : sub TID -> registers]
\* G1 = the object states of a first pass without return edges (the callee's states are final there), or << >>
UEdgeVal(C, I, PI, G1, F, e) ==
  IF e.k = "Block" THEN (IF F[e.src].live THEN UDefs(PI.AT, F[e.src], BlkOfNode(C.P, e.src).defs, 1, NoWarn).mm ELSE UBot(I))
  ELSE IF e.k = "Jump" THEN F[e.src]
  ELSE IF e.k = "ExternCallStub" THEN (IF F[e.src].live THEN UExt(C, PI.F[e.src], F[e.src], C.jmp[e.jmp]).mm ELSE UBot(I))
  ELSE \* ReturnCombine
    LET cn == EndNode(e.src.blk, e.src.sub)
        gn == EndNode(e.src.blk2, e.src.sub2)
        g == e.src.sub2
        \* the renaming map of the call exists if some returning block of the callee is alive in the pointer inference
        mapExists == \E n \in C.N : n.k = "BlkEnd" /\ n.sub = g /\ BlockReturns(BlkOfNode(C.P, n)) /\ PI.F[n].live
    IN  IF G1 = << >> \/ ~F[cn].live \/ ~G1[gn].live \/ ~PI.F[cn].live \/ ~mapExists THEN UBot(I)
        ELSE URet(C, PI.F[cn], UCallCheck(PI.F[cn], F[cn], PI.gderef[g]).mm, G1[gn], PI.gparams[g], C.jmp[e.jmp].tid)
RECURSIVE ULfp(_, _, _, _, _, _, _)
ULfp(C, I, PI, G1, init, F, dirty) ==
  LET todo == {n \in C.N : C.deps[n] \cap dirty # {}}
      G == Table([n \in C.N |-> IF n \in todo THEN UJoin(I, {init[n]} \cup {UEdgeVal(C, I, PI, G1, F, e) : e \in C.inn[n]}) ELSE F[n]])
      changed == {n \in todo : G[n] # F[n]}
  IN  IF changed = {} THEN F ELSE ULfp(C, I, PI, G1, init, G, changed)

\* the warnings of the final states
UWarnings(C, PI, F) ==
  LET starts == {n \in C.N : n.k = "BlkStart" /\ F[n].live}
      ends == {n \in C.N : n.k = "BlkEnd" /\ F[n].live}
      defw == {UDefs(PI.AT, F[n], BlkOfNode(C.P, n).defs, 1, NoWarn).w : n \in starts}
      \* calls: extern calls with a stub edge, internal calls with a Call edge
      stubs == {e \in C.E : e.k = "ExternCallStub" /\ e.src \in ends /\ C.jmp[e.jmp].k = "call"}
      extw == {LET r == UExt(C, PI.F[e.src], F[e.src], C.jmp[e.jmp]) IN
               [may |-> IF r.may THEN {<<r.name, C.jmp[e.jmp].tid>>} ELSE {}, must |-> IF r.must THEN {<<r.name, C.jmp[e.jmp].tid>>} ELSE {}] : e \in stubs}
      calls == {e \in C.E : e.k = "CallCombine" /\ e.src \in ends}
      callw == {LET r == UCallCheck(PI.F[e.src], F[e.src], PI.gderef[e.dst.sub2]) IN
                [may |-> IF r.may THEN {<<"CWE416", C.jmp[e.jmp].tid>>} ELSE {}, must |-> IF r.must THEN {<<"CWE416", C.jmp[e.jmp].tid>>} ELSE {}] : e \in calls}
      all == defw \cup extw \cup callw
  IN  [may |-> UNION {w.may : w \in all}, must |-> UNION {w.must : w \in all}]

(***************************************************************************)
(* The verdict of one event                                                *)
(***************************************************************************)
Analyse(PJ, dealloc) ==
  LET C == Context(PJ, dealloc)
      subs == SubTids(C.P)
      SF == Vals(C, TRUE, [t \in subs |-> C.params])
      flags == Table([t \in subs |-> UNION {SF[n].G : n \in {x \in C.N : x.sub = t}}])
      gparams == Table([t \in subs |-> ParamsOf(flags[t])])
      gderef == Table([t \in subs |-> DerefOf(flags[t])])
      PF == Vals(C, FALSE, gparams)
      AT0 == UNION {RunDefs(C, FALSE, PF[n], BlkOfNode(C.P, n).defs, 1, {}).addrs : n \in {x \in C.N : x.k = "BlkStart" /\ PF[x].live}}
      AT == Table([t \in {a[1] : a \in AT0} |-> UNION {a[2].ids : a \in {x \in AT0 : x[1] = t}}])
      PI == [F |-> PF, AT |-> AT, gparams |-> gparams, gderef |-> gderef]
      I == IdsOf(C)
      ent == EntryNodes(C.P)
      init == Table([n \in C.N |-> IF \E t \in DOMAIN ent : ent[t] = n THEN UEntry(I) ELSE UBot(I)])
      live0 == {n \in C.N : init[n].live}
      U1 == ULfp(C, I, PI, << >>, init, init, live0)
      U2 == ULfp(C, I, PI, U1, init, init, live0)
      W == UWarnings(C, PI, U2)
  IN  [may |-> W.may, must |-> W.must,
       bad |-> UNION {SF[n].bad : n \in C.N} \cup UNION {PF[n].bad : n \in C.N} \cup UNION {U2[n].bad : n \in C.N},
       sig |-> flags, pi |-> PF, at |-> AT, uaf |-> U2]

(***************************************************************************)
(* The syntactic part of the input class                                   *)
(***************************************************************************)
InClassSyntax(PJ) ==
  LET P == PJ.program IN
  /\ WellFormed(P)
  /\ Len(P.subs) \in {1, 2}
  /\ \A s \in DOMAIN P.subs : HasBlocks(P, s) /\ P.subs[s].cconv = ""
  /\ Len(PJ.cconvs) = 1 /\ PJ.cconvs[1].name = "__stdcall" /\ Len(PJ.cconvs[1].rets) >= 1
  /\ PJ.sp.s = 8
  \* extern symbols: known names, register parameters, allocation symbols return in the first return register
  /\ \A i, j \in DOMAIN P.externs : P.externs[i].name = P.externs[j].name => i = j
  /\ \A i \in DOMAIN P.externs :
       LET x == P.externs[i] IN
       /\ x.name \in StubNames /\ x.cconv = ""
       /\ \A k \in DOMAIN x.params : x.params[k].k = "reg" /\ x.params[k].e.k = "var" /\ x.params[k].e.v.s = 8
       /\ x.name \in AllocNames => Len(x.rets) = 1 /\ x.rets[1].k = "reg" /\ x.rets[1].e.k = "var" /\ x.rets[1].e.v.n = PJ.cconvs[1].rets[1].n
  \* jumps: no indirect control flow; only the first function calls, and it calls the second one
  /\ \A c \in JmpRefs(P) :
       LET j == JmpAt(P, c) IN
       /\ j.k \in {"branch", "cbranch", "call", "return"}
       /\ j.k = "call" /\ j.t \in SubTids(P) => c[1] = 1 /\ Len(P.subs) = 2 /\ j.t = P.subs[2].tid
       /\ j.k = "call" /\ j.t \in ExternTids(P) /\ ExternTable(P)[j.t].noret => j.ret = NoTid
  \* a conditional branch tests a flag that the last Def of its block sets to an unknown value
  /\ \A r \in BlkRefs(P) :
       LET b == BlkAt(P, r) IN
       \A k \in DOMAIN b.jmps : b.jmps[k].k = "cbranch" =>
         /\ b.jmps[k].c.k = "var" /\ b.jmps[k].c.v.s = 1 /\ Len(b.defs) > 0
         /\ LET d == b.defs[Len(b.defs)] IN d.k = "assign" /\ d.v = b.jmps[k].c.v /\ d.e.k = "unknown"
=============================================================================
