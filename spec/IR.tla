------------------------------- MODULE IR -------------------------------
(***************************************************************************)
(* Small-step reference semantics of cwe_checker's intermediate            *)
(* representation (Def = Assign | Load | Store, Jmp = Branch | CBranch |   *)
(* BranchInd | Call | CallInd | CallOther | Return) over the bit-vector    *)
(* semantics of BV.tla.                                                    *)
(*                                                                         *)
(* The module contains definitions only (no variables, no constants): it   *)
(* is the concrete machine that the monitor machines run                   *)
(*   EquivMonitor  (C10: optimised vs. unoptimised function),              *)
(*   LiftMonitor   (C11: P-Code block vs. lifted IR block),                *)
(*   PiMonitor     (C13: concrete run vs. recorded abstract states),       *)
(*   CheckersConstArg (C18: concrete parameter value of a call block).     *)
(*                                                                         *)
(* TERMS are the JSON values produced by harness/src/irenc.rs              *)
(* (DESIGN.md appendix A), i.e. TLA+ records / sequences:                  *)
(*   var   [n |-> "RAX", s |-> 8, t |-> FALSE]                             *)
(*   expr  [k |-> "var", v |-> var] | [k |-> "const", c |-> bv]            *)
(*         [k |-> "bin", op, l, r] | [k |-> "un", op, a]                   *)
(*         [k |-> "cast", op, s, a] | [k |-> "sub", low, s, a]             *)
(*         [k |-> "unknown", s]                                            *)
(*   def   [tid, k |-> "assign", v, e] | [tid, k |-> "load", v, a]         *)
(*         [tid, k |-> "store", a, e]                                      *)
(*   jmp   [tid, addr, k |-> "branch", t] | [.. k |-> "cbranch", t, c]     *)
(*         [.. "branchind", e] | [.. "call", t, ret] ("" = no return site) *)
(*         [.. "callind", e, ret] | [.. "callother", ret] | [.. "return",e]*)
(*   blk   [tid, addr, defs, jmps, ind]  (+ optional abv: the block's      *)
(*         address as a bit vector, used to resolve indirect jumps)        *)
(*                                                                         *)
(* VALUES are bit vectors of BV.tla (little-endian byte sequences) or the  *)
(* token Poison.  Poison is the value of a variable that was never         *)
(* assigned (temporaries before their definition, everything but the       *)
(* physical registers after a call), of Unknown / floating point           *)
(* expressions and of ill-sized operations.  It propagates through every   *)
(* operation, so a program transformation that makes an observable value   *)
(* depend on an unassigned temporary is visible in the observations.       *)
(*                                                                         *)
(* MACHINE STATE  st = [regs, mem, obs, n, pc]                             *)
(*   regs  function  variable name -> bit vector; DOMAIN = assigned vars   *)
(*   mem   function  address (bit vector) -> byte; DOMAIN = written bytes. *)
(*         A byte that was never written reads as InitMem(addr, env.seed): *)
(*         the initial memory is an arbitrary but fixed function of the    *)
(*         address, materialised lazily.                                   *)
(*   obs   sequence of observation records emitted so far (a monitor may   *)
(*         consume a prefix); n = total number of observations emitted.    *)
(*   pc    [k |-> "blk", t |-> block tid]  or  [k |-> "end", t |-> reason] *)
(*                                                                         *)
(* ENVIRONMENT  env = [seed, le, sp, physregs]                             *)
(*   seed      natural < 65521, parameter of InitMem and of call havoc     *)
(*   le        TRUE for little-endian memory                               *)
(*   sp        var record of the stack pointer register                    *)
(*   physregs  sequence of var records: the physical registers             *)
(*             (Project::register_set); every other variable is a          *)
(*             temporary.                                                  *)
(*                                                                         *)
(* CONVENTIONS (the input class of C10/C13, see DESIGN.md section 7):      *)
(*  - A call (direct, indirect, CallOther) emits an observation carrying   *)
(*    the target, all physical registers and the written memory, then      *)
(*    HAVOCS every physical register except the stack pointer and a few    *)
(*    bytes next to the stack pointer with values that are a fixed         *)
(*    function of (seed, number of observations so far), un-assigns every  *)
(*    temporary and continues at the return site: nothing may be assumed   *)
(*    about a callee.  1-byte physical registers are flags and hold 0 or 1 *)
(*    after the havoc (P-Code booleans).                                   *)
(*  - Division by zero does not trap (the analyzer's IR has no traps, and  *)
(*    a dead division may be removed): x/0 = all ones, x%0 = x.            *)
(*  - IntSBorrow etc. are the CORRECT P-Code operations of BV.tla, never   *)
(*    the implementation's constant folding.                               *)
(***************************************************************************)
EXTENDS BV
LOCAL INSTANCE TLC

\* TLC evaluates function constructors lazily and re-evaluates them on every application; a chain of
\* bit-vector operations would cost time exponential in its length.  Norm forces a value (a bit
\* vector) into an explicit sequence.  It is the identity.
Norm(v) == TLCEval(v)

Poison == <<>>                       \* a bit vector is never empty
IsPoison(v) == v = Poison

\* function update / removal with a growing / shrinking domain
Upd(f, x, v) == Norm([y \in (DOMAIN f) \cup {x} |-> IF y = x THEN v ELSE f[y]])
Del(f, x) == Norm([y \in (DOMAIN f) \ {x} |-> f[y]])
EmptyFcn == [x \in {} |-> 0]
NoRegs == <<>>
NoMem == EmptyFcn

(***************************************************************************)
(* Deterministic background: initial memory and call havoc                 *)
(***************************************************************************)
Mix(h, x) == (h * 31 + x + 17) % 65521              \* h < 65521, x < 2^16: no overflow
MixSeq(h0, s) ==
  LET RECURSIVE go(_, _)
      go(h, i) == IF i > Len(s) THEN h ELSE go(Mix(h, s[i]), i + 1)
  IN go(h0, 1)
Fin(h) == ((h % 256) + 7 * (h \div 256)) % 256
\* the byte at address addr (a bit vector) of the initial memory
InitMem(addr, seed) == Fin(MixSeq(Mix(seed % 65521, 251), addr))
\* the byte b of item r (register index / memory slot) written by the n-th event
HavocByte(seed, n, r, b) == Fin(Mix(Mix(Mix(Mix(seed % 65521, 113), n % 65521), r), b))

(***************************************************************************)
(* Fast arithmetic.  BV.tla is the reference; its ripple-carry operators   *)
(* recompute the carry chain for every byte (quadratic, cubic for BvMul)   *)
(* and its division nests 8*w lazy function values (TLC evaluates function *)
(* constructors lazily: exponential for w = 8).  The machine executes      *)
(* millions of operations, so IR.tla uses linear-time transcriptions that  *)
(* build explicit sequences.  mc/MC_IR checks every one of them against    *)
(* BV.tla / BVInt.tla (all 1-byte operand pairs and 2- and 3-byte vectors).*)
(***************************************************************************)
\* <<s[1], .., s[w], carry>> of a + b + cin
FAddCC(a, b, cin) ==
  LET RECURSIVE go(_, _, _)
      go(i, c, acc) ==
        IF i > Len(a) THEN Append(acc, c)
        ELSE go(i + 1, (a[i] + b[i] + c) \div 256, Append(acc, (a[i] + b[i] + c) % 256))
  IN go(1, cin, <<>>)
FNot(a) == Norm(BvNot(a))
FAdd(a, b) == SubSeq(FAddCC(a, b, 0), 1, Len(a))
FSub(a, b) == SubSeq(FAddCC(a, FNot(b), 1), 1, Len(a))
FNeg(a) == SubSeq(FAddCC(BvZero(Len(a)), FNot(a), 1), 1, Len(a))
FCarry(a, b) == FAddCC(a, b, 0)[Len(a) + 1]
FULt(a, b) == FAddCC(a, FNot(b), 1)[Len(a) + 1] = 0
FULe(a, b) == ~FULt(b, a)
FFlip(a) == [a EXCEPT ![Len(a)] = (@ + 128) % 256]
FSLt(a, b) == FULt(FFlip(a), FFlip(b))
FSLe(a, b) == ~FSLt(b, a)
FSCarry(a, b) == IF BvSign(a) = BvSign(b) /\ BvSign(FAdd(a, b)) # BvSign(a) THEN 1 ELSE 0
FSBorrow(a, b) == IF BvSign(a) # BvSign(b) /\ BvSign(FSub(a, b)) # BvSign(a) THEN 1 ELSE 0
\* schoolbook multiplication with a running carry, truncated to the operand width (w <= 16)
FMul(a, b) ==
  LET w == Len(a)
      RECURSIVE col(_, _)
      col(k, i) == IF i > k THEN 0 ELSE a[i] * b[k - i + 1] + col(k, i + 1)
      RECURSIVE go(_, _, _)
      go(k, c, acc) ==
        IF k > w THEN acc
        ELSE LET t == col(k, 1) + c IN go(k + 1, t \div 256, Append(acc, t % 256))
  IN go(1, 0, <<>>)
\* restoring long division on bits (BV!BvUDivRem with every intermediate remainder explicit); b # 0
FUDivRem(a, b) ==
  LET w == Len(a)
      bx == b \o <<0>>
      Shl1In(r, bit) == Norm([i \in 1..w+1 |-> ((2 * r[i]) % 256) + (IF i = 1 THEN bit ELSE r[i-1] \div 128)])
      RECURSIVE go(_, _, _)
      go(j, q, r) ==
        IF j < 0 THEN [q |-> q, r |-> SubSeq(r, 1, w)]
        ELSE LET r1 == Shl1In(r, BvBit(a, j))
             IN IF FULe(bx, r1)
                THEN go(j - 1, [q EXCEPT ![(j \div 8) + 1] = @ + Pow2(j % 8)], FSub(r1, bx))
                ELSE go(j - 1, q, r1)
  IN go(8 * w - 1, BvZero(w), BvZero(w + 1))
FAbs(a) == IF BvSign(a) = 1 THEN FNeg(a) ELSE a
FDiv(op, a, b) ==
  CASE op = "IntDiv" -> FUDivRem(a, b).q
    [] op = "IntRem" -> FUDivRem(a, b).r
    [] op = "IntSDiv" -> LET q == FUDivRem(FAbs(a), FAbs(b)).q IN IF BvSign(a) # BvSign(b) THEN FNeg(q) ELSE q
    [] op = "IntSRem" -> LET r == FUDivRem(FAbs(a), FAbs(b)).r IN IF BvSign(a) = 1 THEN FNeg(r) ELSE r
FastOps == {"IntAdd", "IntSub", "IntCarry", "IntSCarry", "IntSBorrow", "IntMult",
            "IntLess", "IntLessEqual", "IntSLess", "IntSLessEqual"}
FBinOp(op, a, b) ==
  CASE op = "IntAdd" -> FAdd(a, b)
    [] op = "IntSub" -> FSub(a, b)
    [] op = "IntCarry" -> <<FCarry(a, b)>>
    [] op = "IntSCarry" -> <<FSCarry(a, b)>>
    [] op = "IntSBorrow" -> <<FSBorrow(a, b)>>
    [] op = "IntMult" -> FMul(a, b)
    [] op = "IntLess" -> BvBool(FULt(a, b))
    [] op = "IntLessEqual" -> BvBool(FULe(a, b))
    [] op = "IntSLess" -> BvBool(FSLt(a, b))
    [] op = "IntSLessEqual" -> BvBool(FSLe(a, b))

(***************************************************************************)
(* Memory                                                                  *)
(***************************************************************************)
AddrPlus(a, i) == IF i >= 0 THEN FAdd(a, BvFromNat(i, Len(a))) ELSE FSub(a, BvFromNat(-i, Len(a)))
\* the addresses a, a+1, .., a+n-1 (only the low byte changes unless it wraps)
AddrSeq(a, n) ==
  IF n = 0 THEN <<>>
  ELSE IF a[1] + n <= 256 THEN [i \in 1..n |-> [a EXCEPT ![1] = @ + i - 1]]
  ELSE [i \in 1..n |-> AddrPlus(a, i - 1)]
MemByte(mem, a, seed) == IF a \in DOMAIN mem THEN mem[a] ELSE InitMem(a, seed)
\* memory order <-> value order (value = least significant byte first)
ByteOrder(v, env) == IF env.le THEN v ELSE [i \in 1..Len(v) |-> v[Len(v) + 1 - i]]
\* the size bytes at address a, as a bit vector
LoadBytes(mem, a, size, env) ==
  LET at == AddrSeq(a, size)
  IN Norm(ByteOrder([i \in 1..size |-> MemByte(mem, at[i], env.seed)], env))
\* mem with the bytes (memory order) bs written at the addresses at
WriteBytes(mem, at, bs) ==
  LET new == {at[i] : i \in 1..Len(at)}
  IN Norm([x \in (DOMAIN mem) \cup new |->
             IF x \in new THEN bs[CHOOSE i \in 1..Len(at) : at[i] = x] ELSE mem[x]])
StoreBytes(mem, a, v, env) == WriteBytes(mem, Norm(AddrSeq(a, Len(v))), Norm(ByteOrder(v, env)))

(***************************************************************************)
(* Expressions                                                             *)
(***************************************************************************)
ReadVar(v, regs) ==
  IF v.n \in DOMAIN regs /\ Len(regs[v.n]) = v.s THEN regs[v.n] ELSE Poison

EqualWidthOps == {"IntEqual", "IntNotEqual", "IntLess", "IntSLess", "IntLessEqual", "IntSLessEqual",
                  "IntAdd", "IntSub", "IntCarry", "IntSCarry", "IntSBorrow", "IntXOr", "IntAnd", "IntOr",
                  "IntMult", "IntDiv", "IntRem", "IntSDiv", "IntSRem"}
BoolOps == {"BoolXOr", "BoolAnd", "BoolOr"}
ShiftOps == {"IntLeft", "IntRight", "IntSRight"}

\* total integer semantics of a binary operation on two (non-poison) bit vectors
IrBinOp(op, a, b) ==
  IF op \in FloatBinOps THEN Poison
  ELSE IF op \in EqualWidthOps /\ Len(a) # Len(b) THEN Poison
  ELSE IF op \in BoolOps /\ (Len(a) # 1 \/ Len(b) # 1) THEN Poison
  ELSE IF op \in DivOps /\ BvIsZero(b)
         THEN (IF op \in {"IntDiv", "IntSDiv"} THEN BvOnes(Len(a)) ELSE a)
  ELSE IF op \in DivOps THEN FDiv(op, a, b)     \* any width (BvBinOp declines mul/div wider than 8 bytes)
  ELSE IF op \in FastOps THEN FBinOp(op, a, b)
  ELSE IF op \in EqualWidthOps \cup BoolOps \cup ShiftOps \cup {"Piece"} THEN BvBinOp(op, a, b)
  ELSE Poison
IrUnOp(op, a) ==
  IF op = "Int2Comp" THEN FNeg(a)
  ELSE IF op = "IntNegate" THEN BvNot(a)
  ELSE IF op = "BoolNegate" /\ Len(a) = 1 THEN BvBoolNegate(a)
  ELSE Poison
IrCast(op, a, size) ==
  IF op \in {"IntZExt", "IntSExt"} THEN (IF size >= Len(a) THEN BvCast(op, a, size) ELSE Poison)
  ELSE IF op \in {"PopCount", "LzCount"} THEN BvCast(op, a, size)
  ELSE Poison
IrSubpiece(a, low, size) == IF low + size <= Len(a) /\ size >= 1 THEN BvSubpiece(a, low, size) ELSE Poison

RECURSIVE EvalExpr(_, _)
EvalExpr(e, regs) ==
  CASE e.k = "var" -> ReadVar(e.v, regs)
    [] e.k = "const" -> e.c
    [] e.k = "bin" -> LET a == EvalExpr(e.l, regs)
                          b == EvalExpr(e.r, regs)
                      IN IF IsPoison(a) \/ IsPoison(b) THEN Poison ELSE Norm(IrBinOp(e.op, a, b))
    [] e.k = "un" -> LET a == EvalExpr(e.a, regs) IN IF IsPoison(a) THEN Poison ELSE Norm(IrUnOp(e.op, a))
    [] e.k = "cast" -> LET a == EvalExpr(e.a, regs) IN IF IsPoison(a) THEN Poison ELSE Norm(IrCast(e.op, a, e.s))
    [] e.k = "sub" -> LET a == EvalExpr(e.a, regs) IN IF IsPoison(a) THEN Poison ELSE Norm(IrSubpiece(a, e.low, e.s))
    [] OTHER -> Poison                                   \* "unknown"

(***************************************************************************)
(* Observations.  All observation records have the same fields so that any *)
(* two of them can be compared:                                            *)
(*   k     "read" | "write" | "call" | "callind" | "callother" | "indjmp"  *)
(*         | "return" | "deadend" | "stuck"                                *)
(*   a     address (read/write) or target value (callind/indjmp/return)    *)
(*   s, v  size and value of a memory access                               *)
(*   t     target TID of a direct call                                     *)
(*   regs  values of env.physregs, in that order (call/return/deadend)     *)
(*   mem   the written memory (call/return/deadend)                        *)
(***************************************************************************)
Obs(k, a, s, v, t, regs, mem) == [k |-> k, a |-> a, s |-> s, v |-> v, t |-> t, regs |-> regs, mem |-> mem]
PhysRegs(st, env) == Norm([i \in 1..Len(env.physregs) |-> ReadVar(env.physregs[i], st.regs)])
Emit(st, o) == [st EXCEPT !.obs = Append(@, o), !.n = @ + 1]
ObsState(k, a, t, st, env) == Obs(k, a, 0, Poison, t, PhysRegs(st, env), st.mem)

(***************************************************************************)
(* Defs                                                                    *)
(***************************************************************************)
Assign(regs, var, val) ==
  IF IsPoison(val) \/ Len(val) # var.s THEN Del(regs, var.n) ELSE Upd(regs, var.n, val)

StepDef(d, st, env) ==
  CASE d.k = "assign" -> [st EXCEPT !.regs = Assign(@, d.v, EvalExpr(d.e, st.regs))]
    [] d.k = "load" ->
         LET a == EvalExpr(d.a, st.regs)
             v == IF IsPoison(a) THEN Poison ELSE LoadBytes(st.mem, a, d.v.s, env)
         IN [Emit(st, Obs("read", a, d.v.s, v, "", NoRegs, NoMem)) EXCEPT !.regs = Assign(@, d.v, v)]
    [] d.k = "store" ->
         LET a == EvalExpr(d.a, st.regs)
             v == EvalExpr(d.e, st.regs)
             s1 == Emit(st, Obs("write", a, Len(v), v, "", NoRegs, NoMem))
         IN IF IsPoison(a) \/ IsPoison(v) THEN s1 ELSE [s1 EXCEPT !.mem = StoreBytes(@, a, v, env)]

RunDefs(defs, st, env) ==
  LET RECURSIVE go(_, _)
      go(s, i) == IF i > Len(defs) THEN s ELSE go(StepDef(defs[i], s, env), i + 1)
  IN go(st, 1)

(***************************************************************************)
(* Jumps                                                                   *)
(***************************************************************************)
Goto(st, t) == [st EXCEPT !.pc = [k |-> "blk", t |-> t]]
Halt(st, why) == [st EXCEPT !.pc = [k |-> "end", t |-> why]]
Running(st) == st.pc.k = "blk"
DeadEnd(st, env) == Halt(Emit(st, ObsState("deadend", Poison, "", st, env)), "deadend")

\* state after a call returned: physical registers except SP and the bytes SP-8 .. SP+7 are havocked,
\* temporaries are unassigned
HavocWindow == 8
Havoc(st, env) ==
  LET n == st.n
      P == env.physregs
      spv == ReadVar(env.sp, st.regs)
      idx(x) == CHOOSE i \in 1..Len(P) : P[i].n = x
      names == {P[i].n : i \in 1..Len(P)} \ (IF IsPoison(spv) THEN {env.sp.n} ELSE {})
      regs == [x \in names |->
                 IF x = env.sp.n THEN spv
                 ELSE IF P[idx(x)].s = 1 THEN <<HavocByte(env.seed, n, idx(x), 1) % 2>>
                 ELSE Norm([b \in 1..P[idx(x)].s |-> HavocByte(env.seed, n, idx(x), b)])]
      at == IF IsPoison(spv) THEN <<>> ELSE Norm(AddrSeq(AddrPlus(spv, 0 - HavocWindow), 2 * HavocWindow))
      mem == WriteBytes(st.mem, at, [k \in 1..Len(at) |-> HavocByte(env.seed, n, 1000 + k, 0)])
  IN [st EXCEPT !.regs = Norm(regs), !.mem = Norm(mem)]

AfterCall(st, ret, env) == IF ret = "" THEN Halt(st, "call-noreturn") ELSE Goto(Havoc(st, env), ret)

BlockIndex(blocks, tid) ==
  LET c == {i \in 1..Len(blocks) : blocks[i].tid = tid}
  IN IF c = {} THEN 0 ELSE CHOOSE i \in c : \A i2 \in c : i <= i2

\* An indirect jump whose runtime target is the address of one of the block's KNOWN indirect targets
\* continues there; any other target leaves the known code ("" = none).
IndTarget(blk, v, blocks) ==
  LET c == {i \in 1..Len(blocks) : /\ "abv" \in DOMAIN blocks[i]
                                  /\ blocks[i].abv = v
                                  /\ \E q \in 1..Len(blk.ind) : blk.ind[q] = blocks[i].tid}
  IN IF c = {} THEN "" ELSE blocks[CHOOSE i \in c : \A i2 \in c : i <= i2].tid

\* one jump that is not a conditional branch
ExecJmp(j, blk, st, env, blocks) ==
  CASE j.k = "branch" -> Goto(st, j.t)
    [] j.k = "branchind" ->
         LET v == EvalExpr(j.e, st.regs)
             s1 == Emit(st, Obs("indjmp", v, 0, Poison, "", NoRegs, NoMem))
             t == IF IsPoison(v) THEN "" ELSE IndTarget(blk, v, blocks)
         IN IF t = "" THEN Halt(s1, "indjmp") ELSE Goto(s1, t)
    [] j.k = "call" -> AfterCall(Emit(st, ObsState("call", Poison, j.t, st, env)), j.ret, env)
    [] j.k = "callind" -> AfterCall(Emit(st, ObsState("callind", EvalExpr(j.e, st.regs), "", st, env)), j.ret, env)
    [] j.k = "callother" -> AfterCall(Emit(st, ObsState("callother", Poison, "", st, env)), j.ret, env)
    [] j.k = "return" -> Halt(Emit(st, ObsState("return", EvalExpr(j.e, st.regs), "", st, env)), "return")

\* the jumps of a block in order: a conditional branch is taken iff its condition is non-zero,
\* otherwise the next jump is executed; a block without (remaining) jumps is a dead end
StepJmp(blk, st, env, blocks) ==
  LET js == blk.jmps
      RECURSIVE go(_)
      go(i) ==
        IF i > Len(js) THEN DeadEnd(st, env)
        ELSE IF js[i].k = "cbranch"
          THEN LET c == EvalExpr(js[i].c, st.regs)
               IN IF IsPoison(c) \/ Len(c) # 1
                    THEN Halt(Emit(st, Obs("stuck", c, 0, Poison, js[i].tid, NoRegs, NoMem)), "stuck")
                  ELSE IF c # <<0>> THEN Goto(st, js[i].t)
                  ELSE go(i + 1)
          ELSE ExecJmp(js[i], blk, st, env, blocks)
  IN go(1)

\* all defs, then the jumps of one block
RunBlock(blk, st, env, blocks) == StepJmp(blk, RunDefs(blk.defs, st, env), env, blocks)

\* one block step of a function given by its sequence of blocks; a target outside the function
\* (e.g. the artificial sink block) is a dead end
StepBlock(blocks, st, env) ==
  LET i == BlockIndex(blocks, st.pc.t)
  IN IF i = 0 THEN DeadEnd(st, env) ELSE RunBlock(blocks[i], st, env, blocks)

(***************************************************************************)
(* Initial state: init is a sequence of [n |-> register name, v |-> bv];   *)
(* everything else is unassigned, no byte of memory is written.            *)
(***************************************************************************)
Start(entry, init, env) ==
  [regs |-> [x \in {init[i].n : i \in 1..Len(init)} |-> init[CHOOSE i \in 1..Len(init) : init[i].n = x].v],
   mem |-> EmptyFcn, obs |-> <<>>, n |-> 0, pc |-> [k |-> "blk", t |-> entry]]
=============================================================================
