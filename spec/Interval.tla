----------------------------- MODULE Interval -----------------------------
(***************************************************************************)
(* Concretisation (gamma) of the strided-interval domain `IntervalDomain`  *)
(* and the SOUNDNESS RELATIONS the value analysis has to satisfy:          *)
(*   C02  transfer functions  SoundBin / SoundUn / SoundCast / SoundSubpiece*)
(*   C03  merge               Upper / Idem / Absorb                        *)
(*   C04  refinement          Refine / RefineBatch / Intersect             *)
(* These are nondeterministic specifications: ANY well-formed result that  *)
(* over-approximates is accepted; precision, widening strategy and stride  *)
(* handling are implementation choices.                                    *)
(*                                                                         *)
(* An abstract interval value is a record with (at least) the fields       *)
(*    w  : width in bytes                                                  *)
(*    s  : start, e : end  - bit vectors of w bytes (BV.tla: little endian *)
(*         byte sequences), both inclusive, compared as SIGNED integers    *)
(*    st : stride, an unsigned 64 bit number as a bit vector of 8 bytes    *)
(* Widening hints (fields lo, hi, d on the wire) do NOT contribute to      *)
(* gamma and are ignored here.                                             *)
(*    gamma(x) = { v : s <=s v <=s e  /\  (v - s) mod st = 0 }             *)
(*               (st = 0: { s })                                           *)
(* Membership is always a PREDICATE  InGamma(v, x)  (v a bit vector of any *)
(* width, usable at 8 bytes by the monitor machines); sets of members are  *)
(* only built to QUANTIFY over the inputs of an operation:                 *)
(*   - width <= 2 bytes: complete enumeration on integers (GammaEnumI),    *)
(*   - wider: a member sample computed here from the interval (Members):   *)
(*     the two members at each end, the two around the sign boundary and   *)
(*     six pseudo random ones - the harness never sends members.           *)
(* 1-byte x 1-byte binary operations are evaluated with the integer        *)
(* transcription BVInt.tla, everything else with BV.tla (mc/MC_BV proves   *)
(* them equal on all 1-byte operands; mc/MC_Interval proves the integer    *)
(* and the bit-vector gamma equal on 1-byte intervals).                    *)
(***************************************************************************)
EXTENDS BV, BVInt, Integers, Sequences, FiniteSets

(***************************************************************************)
(* Small helpers on bit vectors                                            *)
(***************************************************************************)
\* TLC evaluates function constructors lazily and re-evaluates them on every application; nested
\* bit-vector expressions therefore blow up.  BvForce turns a vector into an explicit tuple (no change
\* of value).  It is applied to every intermediate vector that is used more than once.
BvForce(a) == SubSeq(a, 1, Len(a))
IvMinBv(w) == [i \in 1..w |-> IF i = w THEN 128 ELSE 0]      \* most negative value
IvMaxBv(w) == [i \in 1..w |-> IF i = w THEN 127 ELSE 255]    \* most positive value
IvOne8 == <<1, 0, 0, 0, 0, 0, 0, 0>>
IvBig == 4194304                                             \* 2^22
\* unsigned value < 2^22 (so that 256 * value stays far below 2^31)
BvIsSmall(a) == /\ \A i \in 4..Len(a) : a[i] = 0
                /\ (Len(a) >= 3 => a[3] < 64)
\* signed value of a vector of at most 3 bytes
BvToInt(a) == IF BvSign(a) = 1 THEN BvToNat(a) - 256 ^ Len(a) ELSE BvToNat(a)
\* a mod m for an integer 0 < m < 2^22 (Horner, most significant byte first)
BvModSmall(a, m) ==
  LET RECURSIVE go(_, _)
      go(i, r) == IF i < 1 THEN r ELSE go(i - 1, (r * 256 + a[i]) % m)
  IN go(Len(a), 0)
\* quotient of a by an integer 0 < m < 2^22 (schoolbook long division on bytes)
BvDivSmall(a, m) ==
  LET rem[i \in 1..(Len(a) + 1)] == IF i > Len(a) THEN 0 ELSE (rem[i + 1] * 256 + a[i]) % m
  IN BvForce([i \in 1..Len(a) |-> (rem[i + 1] * 256 + a[i]) \div m])
\* number of trailing zero bits of a # 0
ByteTz(b) == CHOOSE n \in 0..7 : b % (2 ^ (n + 1)) # 0 /\ b % (2 ^ n) = 0
BvTz(a) == LET j == CHOOSE k \in 1..Len(a) : a[k] # 0 /\ \A i \in 1..(k - 1) : a[i] = 0
           IN 8 * (j - 1) + ByteTz(a[j])
\* TRUE iff the low n bits of d are zero
BvLowZero(d, n) == /\ \A i \in 1..(n \div 8) : d[i] = 0
                   /\ (n % 8 # 0 => d[(n \div 8) + 1] % (2 ^ (n % 8)) = 0)
\* Does the unsigned 64 bit number st # 0 divide the unsigned number d (any width)?
\* st = m * 2^t with m < 2^22 is decided on bytes; only other strides need the bitwise division.
BvDivides(st, d) ==
  IF st = IvOne8 THEN TRUE
  ELSE IF BvIsSmall(st) THEN BvModSmall(d, BvToNat(st)) = 0
  ELSE LET t == BvTz(st)
           m == BvForce(BvShrN(st, t))
       IN IF BvIsSmall(m)
          THEN BvLowZero(d, t) /\ BvModSmall(BvShrN(d, t), BvToNat(m)) = 0
          ELSE LET W == IF Len(d) > 8 THEN Len(d) ELSE 8
                   dx == BvZExt(d, W)
                   sx == BvZExt(st, W)
               IN IF BvULt(dx, sx) THEN BvIsZero(d) ELSE BvIsZero(BvURem(dx, sx))
\* unsigned division a / b (same width, b # 0), on bytes whenever b = m * 2^t with m < 2^22
BvUDivFast(a, b) ==
  IF BvIsSmall(b) THEN BvDivSmall(a, BvToNat(b))
  ELSE LET t == BvTz(b)
           m == BvForce(BvShrN(b, t))
       IN IF BvIsSmall(m) THEN BvDivSmall(BvForce(BvShrN(a, t)), BvToNat(m))
          ELSE IF BvULt(a, b) THEN BvZero(Len(a))
          ELSE BvForce(BvUDiv(a, b))

(***************************************************************************)
(* gamma                                                                   *)
(***************************************************************************)
InGamma(v, x) ==
  /\ Len(v) = x.w
  /\ BvSLe(x.s, v)
  /\ BvSLe(v, x.e)
  /\ IF BvIsZero(x.st) THEN v = x.s ELSE BvDivides(x.st, BvForce(BvSub(v, x.s)))

\* "bounds, stride and width stay well-formed": start <= end, the end lies on the stride,
\* stride 0 exactly for singletons, all components of the stated width
WellFormed(x) ==
  /\ x.w >= 1
  /\ BvIsBv(x.s, x.w) /\ BvIsBv(x.e, x.w) /\ BvIsBv(x.st, 8)
  /\ BvSLe(x.s, x.e)
  /\ (BvIsZero(x.st) <=> x.s = x.e)
  /\ (~BvIsZero(x.st) => BvDivides(x.st, BvForce(BvSub(x.e, x.s))))

IvTop(w) == [w |-> w, s |-> IvMinBv(w), e |-> IvMaxBv(w), st |-> IvOne8]
IvConst(v) == [w |-> Len(v), s |-> v, e |-> v, st |-> BvZero(8)]
\* gamma(x) is the whole type.  (For a well-formed x this is the only representation;
\* MC_Interval checks  IvIsAll(x) <=> \A v : InGamma(v, x)  on 1-byte intervals.)
IvIsAll(x) == x.s = IvMinBv(x.w) /\ x.e = IvMaxBv(x.w) /\ x.st = IvOne8

(***************************************************************************)
(* Integer view of intervals of at most 2 bytes (fast complete enumeration)*)
(***************************************************************************)
\* a stride >= 2^22 is represented by 2^22: it exceeds every distance between 2-byte values
IvI(x) == [w |-> x.w, s |-> BvToInt(x.s), e |-> BvToInt(x.e),
           st |-> IF BvIsSmall(x.st) THEN BvToNat(x.st) ELSE IvBig]
InGammaI(v, xi) ==
  /\ xi.s <= v /\ v <= xi.e
  /\ IF xi.st = 0 THEN v = xi.s ELSE (v - xi.s) % xi.st = 0
IvCountI(xi) == IF xi.st = 0 \/ xi.e < xi.s THEN 0 ELSE (xi.e - xi.s) \div xi.st     \* number of members - 1
GammaEnumI(xi) == {xi.s + k * xi.st : k \in 0..IvCountI(xi)}
\* signed view of an unsigned integer of w bytes (w <= 3)
SignedOf(c, w) == IF c >= (256 ^ w) \div 2 THEN c - 256 ^ w ELSE c

(***************************************************************************)
(* Member sample for wide intervals.  `seed` is any natural number < 2^20  *)
(* (the trace specifications pass the event index).                        *)
(***************************************************************************)
IvLcg(z) == (z * 75 + 74) % 65537
IvMix(z) == IvLcg(IvLcg(IvLcg(z % 65537)))
IvRandBv(seed, i, W) == BvForce([j \in 1..W |-> IvMix(seed * 7 + 977 * i + 131 * j) % 256])
IvW(x) == IF x.w > 8 THEN x.w ELSE 8
\* number of members - 1, as a bit vector of IvW(x) bytes
IvCount(x) ==
  IF BvIsZero(x.st) THEN BvZero(IvW(x))
  ELSE BvUDivFast(BvForce(BvZExt(BvSub(x.e, x.s), IvW(x))), BvForce(BvZExt(x.st, IvW(x))))
\* the k-th member (k a bit vector of IvW(x) bytes, k <= IvCount(x))
IvMember(x, k) == BvForce(BvAdd(x.s, BvResizeU(BvForce(BvMul(k, BvForce(BvZExt(x.st, IvW(x))))), x.w)))
IvSampleIdx(x, seed) ==
  LET W == IvW(x)
      n == IvCount(x)
      K(i) == BvForce(BvFromNat(i, W))
  IN IF BvIsSmall(n) /\ BvToNat(n) <= 40 THEN {K(i) : i \in 0..BvToNat(n)}
     ELSE LET sh == BvLzCountN(n) + 1                         \* r >> sh < 2^(bitlen(n)-1) <= n
              R == {BvForce(BvShrN(IvRandBv(seed, i, W), sh)) : i \in 1..3}
              \* first member >= 0 when the interval straddles the sign boundary: ceil(-s / st)
              k0 == IF BvSign(x.s) = 1 /\ BvSign(x.e) = 0
                    THEN {BvForce(BvAdd(BvUDivFast(BvForce(BvSub(BvNeg(BvSExt(x.s, W)), K(1))), BvForce(BvZExt(x.st, W))), K(1)))}
                    ELSE {}
          IN {K(0), K(1), BvForce(BvSub(n, K(1))), n}
             \cup R \cup {BvForce(BvSub(n, r)) : r \in R}
             \cup k0 \cup {BvForce(BvSub(k, K(1))) : k \in k0}
Members(x, seed) == {IvMember(x, k) : k \in IvSampleIdx(x, seed)}

\* The members of x among the N+1 nearest at or above and the N+1 nearest at or below the value v
\* (v a bit vector of x.w bytes): the members that decide a comparison with v / an intersection end.
IvMembersNear(x, v, N) ==
  IF BvIsZero(x.st) THEN {x.s}
  ELSE LET W == IvW(x)
           n == IvCount(x)
           K(i) == BvForce(BvFromNat(i, W))
           \* index of the last member <= v (0 if v lies below the start, the last index if above the end)
           kv == IF BvSLt(v, x.s) THEN K(0) ELSE BvUDivFast(BvForce(BvZExt(BvSub(v, x.s), W)), BvForce(BvZExt(x.st, W)))
           kd == IF BvULe(kv, n) THEN kv ELSE n
           ks == {BvForce(BvAdd(kd, K(j))) : j \in 0..(N + 1)} \cup {BvForce(BvSub(kd, K(j))) : j \in {i \in 0..N : BvULe(K(i), kd)}}
       IN {IvMember(x, k) : k \in {kk \in ks : BvULe(kk, n)}}

\* The concrete inputs an operation is quantified over: ALL members when the interval is at most
\* 2 bytes wide and has at most limit+1 members, else the member sample.
Conc(x, seed, limit) ==
  IF x.w <= 2 /\ IvCountI(IvI(x)) <= limit
  THEN {BvForce(BvFromInt(a, x.w)) : a \in GammaEnumI(IvI(x))}
  ELSE Members(x, seed)
\* membership with the integer fast path; ri = IvI(r) is passed in so that it is computed once
InG(c, r, ri) == IF r.w <= 2 THEN Len(c) = r.w /\ InGammaI(BvToInt(c), ri) ELSE InGamma(c, r)
EnumLimit == 70000          \* unary operations: every member of every interval of <= 2 bytes
PairLimit == 300            \* binary operations with an operand wider than 1 byte

(***************************************************************************)
(* C02: transfer functions.  r is the interval the implementation returned.*)
(* An operation the analyzer does not evaluate (BvUnknown / IUnknown:      *)
(* floats, division by zero) constrains nothing but width and shape.       *)
(***************************************************************************)
\* both operands 1 byte: complete enumeration on integers
SoundBinI(op, xi, yi, ri) ==
  \A a \in GammaEnumI(xi) : \A b \in GammaEnumI(yi) :
     LET c == IBinOp(op, ToU(a), ToU(b))
     IN c # IUnknown => InGammaI(SignedOf(c, ri.w), ri)
SoundBinB(op, x, y, r, seed) ==
  LET ri == IvI(r) IN
  \A a \in Conc(x, seed, PairLimit) : \A b \in Conc(y, seed + 1, PairLimit) :
     LET c == BvForce(BvBinOp(op, a, b))
     IN c # BvUnknown => InG(c, r, ri)
SoundBin(op, x, y, r, seed) ==
  /\ r.w = BinResultSize(op, x.w, y.w)
  /\ WellFormed(r)
  /\ \/ IvIsAll(r)
     \/ IF x.w = 1 /\ y.w = 1 THEN SoundBinI(op, IvI(x), IvI(y), IvI(r)) ELSE SoundBinB(op, x, y, r, seed)

SoundUn(op, x, r, seed) ==
  /\ r.w = UnResultSize(op, x.w)
  /\ WellFormed(r)
  /\ \/ IvIsAll(r)
     \/ LET ri == IvI(r) IN
        \A a \in Conc(x, seed, EnumLimit) : LET c == BvForce(BvUnOp(op, a)) IN c # BvUnknown => InG(c, r, ri)

SoundCast(op, x, size, r, seed) ==
  /\ r.w = size
  /\ WellFormed(r)
  /\ \/ IvIsAll(r)
     \/ LET ri == IvI(r) IN
        \A a \in Conc(x, seed, EnumLimit) : LET c == BvForce(BvCast(op, a, size)) IN c # BvUnknown => InG(c, r, ri)

SoundSubpiece(x, low, size, r, seed) ==
  /\ r.w = size
  /\ WellFormed(r)
  /\ \/ IvIsAll(r)
     \/ LET ri == IvI(r) IN
        \A a \in Conc(x, seed, EnumLimit) : InG(BvForce(BvSubpiece(a, low, size)), r, ri)

(***************************************************************************)
(* C03: merge.  gamma inclusion / equality; m = merge(x, y),               *)
(* mxx = merge(x, x), m2 = merge(m, y) resp. merge(m, x).                  *)
(***************************************************************************)
Subset(x, y, seed) ==                 \* gamma(x) \subseteq gamma(y)
  /\ x.w = y.w
  /\ \/ (x.s = y.s /\ x.e = y.e /\ x.st = y.st)             \* the same set (shortcut)
     \/ IvIsAll(y)
     \/ /\ ~IvIsAll(x)
        /\ IF x.w <= 2
           THEN LET xi == IvI(x)  yi == IvI(y) IN \A a \in GammaEnumI(xi) : InGammaI(a, yi)   \* every member
           ELSE \A a \in Members(x, seed) : InGamma(a, y)                                  \* sampled members
GammaEq(x, y, seed) == Subset(x, y, seed) /\ Subset(y, x, seed + 3)
Upper(x, y, m, seed) == Subset(x, m, seed) /\ Subset(y, m, seed + 1)
Idem(x, mxx, seed) == GammaEq(mxx, x, seed)
Absorb(m, m2, seed) == GammaEq(m2, m, seed)

(***************************************************************************)
(* C04: refinement by a comparison with a constant c, and intersection.    *)
(* A result is a record [ok |-> BOOLEAN, v |-> interval]; ok = FALSE is    *)
(* the implementation's "unsatisfiable" answer (v is then meaningless).    *)
(* kind \in {"sle","ule","sge","uge","ne"} :  member `kind` c              *)
(***************************************************************************)
RefKinds == {"sle", "ule", "sge", "uge", "ne"}
CondHolds(kind, a, c) ==
  CASE kind = "sle" -> BvSLe(a, c)
    [] kind = "ule" -> BvULe(a, c)
    [] kind = "sge" -> BvSLe(c, a)
    [] kind = "uge" -> BvULe(c, a)
    [] kind = "ne" -> a # c
\* the same on 1-byte signed integers (MC_Interval checks it against BVInt!IBinOp on all pairs)
CondHoldsI(kind, a, c) ==
  CASE kind = "sle" -> a <= c
    [] kind = "ule" -> ToU(a) <= ToU(c)
    [] kind = "sge" -> a >= c
    [] kind = "uge" -> ToU(a) >= ToU(c)
    [] kind = "ne" -> a # c
\* integers lo .. lo+n-1 / hi-n+1 .. hi as bit vectors: candidates for members close to a bound
IvScan(v, n, up) == {IF up THEN BvAdd(v, BvFromNat(j, Len(v))) ELSE BvSub(v, BvFromNat(j, Len(v))) : j \in 0..(n - 1)}
ResultShapeOK(x, r) == r.ok => (r.v.w = x.w /\ WellFormed(r.v))
\* Every member of x that satisfies the condition is still a member of the result, and
\* "unsatisfiable" is reported only if no member satisfies it.  Quantified over Conc(x) and, for
\* sampled intervals, additionally over the 4 members of x on either side of the bound.
Refine(kind, x, c, r, seed) ==
  /\ ResultShapeOK(x, r)
  /\ LET cand == Conc(x, seed, EnumLimit) \cup (IF x.w <= 2 THEN {} ELSE IvMembersNear(x, c, 3))
         ri == IvI(r.v)
     IN \A a \in cand : CondHolds(kind, a, c) => (r.ok /\ InG(a, r.v, ri))
\* 1-byte interval against ALL 256 bounds: results[i] is the result for the bound with unsigned
\* value i-1; gamma(x) is enumerated once
RefineBatch(kind, x, results) ==
  LET xi == IvI(x)
      G == GammaEnumI(xi)
  IN /\ x.w = 1 /\ Len(results) = 256
     /\ \A i \in 1..256 :
          LET c == ToS(i - 1)
              r == results[i]
              ri == IvI(r.v)
          IN /\ ResultShapeOK(x, r)
             /\ \A a \in G : CondHoldsI(kind, a, c) => (r.ok /\ InGammaI(a, ri))
\* Intersection.  <= 2 bytes: every member of x.  Wider: the member samples of x and y and the 25
\* members of x and of y next to both ends of the common range (finds the first and last common
\* member whenever stride / gcd(strides) <= 25 for one of the two).
Intersect(x, y, r, seed) ==
  /\ x.w = y.w
  /\ ResultShapeOK(x, r)
  /\ IF x.w <= 2
     THEN LET xi == IvI(x)  yi == IvI(y)  ri == IvI(r.v)
          IN \A a \in GammaEnumI(xi) : InGammaI(a, yi) => (r.ok /\ InGammaI(a, ri))
     ELSE LET lo == IF BvSLe(x.s, y.s) THEN y.s ELSE x.s
              hi == IF BvSLe(x.e, y.e) THEN x.e ELSE y.e
              cand == Members(x, seed) \cup Members(y, seed + 1)
                      \cup IvMembersNear(x, lo, 24) \cup IvMembersNear(x, hi, 24)
                      \cup IvMembersNear(y, lo, 24) \cup IvMembersNear(y, hi, 24)
          IN \A a \in cand : (InGamma(a, x) /\ InGamma(a, y)) => (r.ok /\ InGamma(a, r.v))
=============================================================================
