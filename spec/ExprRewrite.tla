--------------------------- MODULE ExprRewrite ---------------------------
(***************************************************************************)
(* X02 - expression-level rewriting and the expression utilities of        *)
(* cwe_checker's IR (intermediate_representation/expression.rs,            *)
(* expression/trivial_operation_substitution.rs, expression/builder.rs).   *)
(*                                                                         *)
(* STATEMENT (what must always hold, over which inputs).  Let e be an      *)
(* expression of the INPUT CLASS InClass(e): built from variables and      *)
(* constants with the integer / boolean operations of the IR (no Unknown,  *)
(* no floating point), well-sized (WellSized.tla), the operands of the     *)
(* boolean connectives one byte wide, every variable name used with one    *)
(* size.  A VALUATION val gives every variable of e a bit vector of its    *)
(* size; it is ADMISSIBLE for e iff every operand of BoolAnd / BoolOr /    *)
(* BoolXOr / BoolNegate inside e evaluates to 0 or 1 under val (P-Code     *)
(* booleans; Bitvector::un_op asserts exactly this for BoolNegate).  Then  *)
(*  (R1) r = substitute_trivial_operations(e) does not panic, is again in  *)
(*       the input class and has the same byte size           WellSizedSame*)
(*  (R2) r mentions no variable that e does not mention       VarsSubset   *)
(*  (R3) EvalExpr(r, val) = EvalExpr(e, val) for every admissible val      *)
(*                                                            Equivalent   *)
(*  (R4) rewriting is idempotent up to semantic equality: (R1)-(R3) hold   *)
(*       again for r2 = substitute_trivial_operations(r) w.r.t. r          *)
(*  (S)  out = substitute_input_var(e, v, w) for a variable v and an       *)
(*       expression w of v's size: out is in the input class, has e's      *)
(*       size, EvalExpr(out, val) = EvalExpr(e, val[v := EvalExpr(w, val)])*)
(*       for every val admissible for e (after the binding) and w, and v   *)
(*       occurs in out only if it occurs in w ("every occurrence")         *)
(*  (B)  plus(e, w) evaluates to e + w; plus_const(e, c) for an i64 c      *)
(*       evaluates to e + c, c sign-extended / truncated to e's size; both *)
(*       keep e's size and introduce no variable                           *)
(*  (U)  bytesize(e) = Size(e); the SET of input_vars(e) = Vars(e) (the    *)
(*       array may contain duplicates); recursion_depth(e) = Depth(e).     *)
(* Nothing is demanded about WHICH rewrites happen (a rewriter that does   *)
(* nothing satisfies R1-R4), about syntactic idempotence, or about         *)
(* expressions / valuations outside the class.                             *)
(*                                                                         *)
(* The module has definitions only.  Values are those of IR!EvalExpr       *)
(* (BV.tla bit vectors; total division: x/0 = ones, x%0 = x).  The table   *)
(* Identities / NonIdentities lists the algebraic facts the rules of       *)
(* trivial_operation_substitution.rs rely on (and near-misses that are NOT *)
(* facts); mc/MC_ExprRewrite model-checks them on all 1-byte values        *)
(* independently of the code.                                              *)
(***************************************************************************)
EXTENDS IR, FiniteSets
LOCAL INSTANCE TLC
WS == INSTANCE WellSized

(***************************************************************************)
(* Term constructors (the JSON encoding of harness/src/irenc.rs)           *)
(***************************************************************************)
XVar(n, s) == [k |-> "var", v |-> [n |-> n, s |-> s, t |-> FALSE]]
XConst(c) == [k |-> "const", c |-> c]
XBin(op, l, r) == [k |-> "bin", op |-> op, l |-> l, r |-> r]
XUn(op, x) == [k |-> "un", op |-> op, a |-> x]
XCast(op, s, x) == [k |-> "cast", op |-> op, s |-> s, a |-> x]
XSub(low, s, x) == [k |-> "sub", low |-> low, s |-> s, a |-> x]

(***************************************************************************)
(* Syntactic functions of a term                                           *)
(***************************************************************************)
SizeOf(e) == WS!Size(e)
XMax(a, b) == IF a >= b THEN a ELSE b

RECURSIVE Vars(_)
Vars(e) ==
  CASE e.k = "var" -> {e.v}
    [] e.k = "bin" -> Vars(e.l) \cup Vars(e.r)
    [] e.k \in {"un", "cast", "sub"} -> Vars(e.a)
    [] OTHER -> {}
Names(e) == {v.n : v \in Vars(e)}

RECURSIVE Depth(_)
Depth(e) ==
  CASE e.k = "bin" -> 1 + XMax(Depth(e.l), Depth(e.r))
    [] e.k \in {"un", "cast", "sub"} -> 1 + Depth(e.a)
    [] OTHER -> 0

IntBinOps == EqualWidthOps \cup BoolOps \cup ShiftOps \cup {"Piece"}
IntUnOps == {"IntNegate", "Int2Comp", "BoolNegate"}
IntCastOps == {"IntZExt", "IntSExt", "PopCount", "LzCount"}

\* only variables, constants and integer / boolean operations; boolean connectives on 1-byte operands
RECURSIVE IntOnly(_)
IntOnly(e) ==
  CASE e.k \in {"var", "const"} -> TRUE
    [] e.k = "bin" -> /\ e.op \in IntBinOps /\ IntOnly(e.l) /\ IntOnly(e.r)
                      /\ (e.op \in BoolOps => SizeOf(e.l) = 1 /\ SizeOf(e.r) = 1)
    [] e.k = "un" -> e.op \in IntUnOps /\ IntOnly(e.a) /\ (e.op = "BoolNegate" => SizeOf(e.a) = 1)
    [] e.k = "cast" -> e.op \in IntCastOps /\ IntOnly(e.a) /\ e.s >= 1
    [] e.k = "sub" -> IntOnly(e.a)
    [] OTHER -> FALSE
\* a variable name is used with one size (a valuation is a function of the name)
ConsistentVars(S) == \A v1 \in S, v2 \in S : v1.n = v2.n => v1 = v2
InClass(e) == IntOnly(e) /\ WS!WellSized(e) /\ ConsistentVars(Vars(e))

\* variables that occur directly as an operand of a boolean connective: admissible valuations give them 0 or 1
RECURSIVE BoolNames(_)
BoolNames(e) ==
  CASE e.k = "bin" -> BoolNames(e.l) \cup BoolNames(e.r) \cup
                      (IF e.op \in BoolOps THEN {x.v.n : x \in {y \in {e.l, e.r} : y.k = "var"}} ELSE {})
    [] e.k = "un" -> BoolNames(e.a) \cup (IF e.op = "BoolNegate" /\ e.a.k = "var" THEN {e.a.v.n} ELSE {})
    [] e.k \in {"cast", "sub"} -> BoolNames(e.a)
    [] OTHER -> {}

(***************************************************************************)
(* Valuations and semantic equality                                        *)
(***************************************************************************)
\* val (a function name -> bit vector) gives every variable of S a value of its size
Covers(val, S) == \A v \in S : v.n \in DOMAIN val /\ Len(val[v.n]) = v.s
IsBoolVal(a) == a = <<0>> \/ a = <<1>>
RECURSIVE Admissible(_, _)
Admissible(e, val) ==
  CASE e.k = "bin" -> /\ Admissible(e.l, val) /\ Admissible(e.r, val)
                      /\ (e.op \in BoolOps => IsBoolVal(EvalExpr(e.l, val)) /\ IsBoolVal(EvalExpr(e.r, val)))
    [] e.k = "un" -> Admissible(e.a, val) /\ (e.op = "BoolNegate" => IsBoolVal(EvalExpr(e.a, val)))
    [] e.k \in {"cast", "sub"} -> Admissible(e.a, val)
    [] OTHER -> TRUE

\* (R3) for one valuation: same (non-poison) value, unless the valuation is not admissible for e1
SameValue(e1, e2, val) ==
  LET a == EvalExpr(e1, val)
  IN IF ~IsPoison(a) /\ a = EvalExpr(e2, val) THEN TRUE ELSE ~Admissible(e1, val)
\* vals: a sequence of valuations
Equivalent(e1, e2, vals) == \A i \in 1..Len(vals) : SameValue(e1, e2, vals[i])

\* All valuations of 1-byte variables (at most three names): P holds for every one of them.  Names that
\* occur directly under a boolean connective range over 0..1 only (every other value is inadmissible).
PickName(S) == CHOOSE n \in S : TRUE
ByteDom(n, bools) == IF n \in bools THEN 0..1 ELSE 0..255
\* (built with :> and @@: a function constructor [n \in ns |-> ..] stays lazy in TLC and is re-evaluated on every
\*  application - measured 17x slower, and still 6x slower when forced with TLCEval)
Val1(ns, n1, n2, a, b, c) ==
  IF n2 = n1 THEN n1 :> <<a>>
  ELSE IF Cardinality(ns) = 2 THEN n1 :> <<a>> @@ n2 :> <<b>>
  ELSE n1 :> <<a>> @@ n2 :> <<b>> @@ PickName(ns \ {n1, n2}) :> <<c>>
ForAllVals1(P(_), ns, bools) ==
  IF ns = {} THEN P(NoRegs)
  ELSE LET n1 == PickName(ns)
           r1 == ns \ {n1}
       IN IF r1 = {} THEN \A a \in ByteDom(n1, bools) : P(Val1(ns, n1, n1, a, a, a))
          ELSE LET n2 == PickName(r1)
                   r2 == r1 \ {n2}
               IN IF r2 = {} THEN \A a \in ByteDom(n1, bools) : \A b \in ByteDom(n2, bools) : P(Val1(ns, n1, n2, a, b, b))
                  ELSE LET n3 == PickName(r2)
                       IN \A a \in ByteDom(n1, bools) : \A b \in ByteDom(n2, bools) : \A c \in ByteDom(n3, bools) :
                            P(Val1(ns, n1, n2, a, b, c))
\* a valuation for which P fails (only evaluated to print a counterexample)
WitnessVals1(P(_), ns, bools) ==
  IF ns = {} THEN <<>>
  ELSE LET n1 == PickName(ns)
           r1 == ns \ {n1}
           n2 == IF r1 = {} THEN n1 ELSE PickName(r1)
           r2 == r1 \ {n2}
           n3 == IF r2 = {} THEN n2 ELSE PickName(r2)
           D2 == IF r1 = {} THEN {0} ELSE ByteDom(n2, bools)
           D3 == IF r2 = {} THEN {0} ELSE ByteDom(n3, bools)
           t == CHOOSE t \in ByteDom(n1, bools) \X D2 \X D3 : ~P(Val1(ns, n1, n2, t[1], t[2], t[3]))
       IN <<n1, t[1], n2, t[2], n3, t[3]>>
ExhaustiveOK(S) == (\A v \in S : v.s = 1) /\ Cardinality({v.n : v \in S}) <= 3

\* (R3) over all 1-byte valuations
EquivalentAll1(e1, e2) ==
  ForAllVals1(LAMBDA val : SameValue(e1, e2, val), Names(e1) \cup Names(e2), BoolNames(e1))

(***************************************************************************)
(* The statement as predicates                                             *)
(***************************************************************************)
WellSizedSame(e, r) == InClass(r) /\ SizeOf(r) = SizeOf(e)                    \* (R1)
VarsSubset(r, e) == Vars(r) \subseteq Vars(e)                                 \* (R2)

\* (S) for one valuation
SubstValue(e, v, w, out, val) ==
  LET wv == EvalExpr(w, val)
      bound == (v.n :> wv) @@ val                       \* val with v bound to the value of w
      a == EvalExpr(e, bound)
  IN IF ~IsPoison(wv) /\ ~IsPoison(a) /\ a = EvalExpr(out, val) THEN TRUE
     ELSE ~(Admissible(w, val) /\ Admissible(e, bound))
SubstSyntax(e, v, w, out) ==
  /\ InClass(out) /\ SizeOf(out) = SizeOf(e)
  /\ Vars(out) \subseteq (Vars(e) \cup Vars(w))
  /\ (v \in Vars(out) => v \in Vars(w))

\* (B)
PlusValue(e, w, out, val) ==
  LET a == EvalExpr(e, val)
      b == EvalExpr(w, val)
  IN IF ~IsPoison(a) /\ ~IsPoison(b) /\ EvalExpr(out, val) = FAdd(a, b) THEN TRUE
     ELSE ~(Admissible(e, val) /\ Admissible(w, val))
\* c: the i64 argument as an 8-byte vector
PlusConstValue(e, c, out, val) ==
  LET a == EvalExpr(e, val)
  IN IF ~IsPoison(a) /\ EvalExpr(out, val) = FAdd(a, Norm(BvResizeS(c, Len(a)))) THEN TRUE
     ELSE ~Admissible(e, val)

(***************************************************************************)
(* The algebraic identities the rewrite rules rely on, as pairs of terms   *)
(* over the 1-byte variables X, Y, the flags P, Q (0/1) and constants.     *)
(* Identities(c1, c2): every pair must be Equivalent on ALL values;        *)
(* NonIdentities: near-misses of the rules - for each of them some         *)
(* valuation must distinguish the two sides (so a rule that used them      *)
(* would be unsound, and the semantics can tell).                          *)
(***************************************************************************)
X == XVar("x", 1)
Y == XVar("y", 1)
P == XVar("p", 1)
Q == XVar("q", 1)
K(n) == XConst(<<n % 256>>)
Zero == K(0)
One == K(1)
Ones == K(255)
W4 == XBin("Piece", XBin("Piece", X, Y), XBin("Piece", Y, XUn("IntNegate", X)))    \* a 4-byte term over X, Y
V4 == XBin("Piece", XBin("Piece", X, XBin("IntAdd", X, K(85))), XBin("Piece", XBin("IntAdd", X, K(170)), XUn("IntNegate", X)))  \* over X only
Pair(l, r) == [l |-> l, r |-> r]

IdSameOperand ==
  {Pair(XBin(op, X, X), X) : op \in {"IntAnd", "IntOr"}} \cup
  {Pair(XBin(op, P, P), P) : op \in {"BoolAnd", "BoolOr"}} \cup
  {Pair(XBin("IntXOr", X, X), Zero), Pair(XBin("BoolXOr", P, P), Zero), Pair(XBin("IntXOr", W4, W4), XConst(<<0, 0, 0, 0>>))} \cup
  {Pair(XBin(op, X, X), One) : op \in {"IntEqual", "IntLessEqual", "IntSLessEqual"}} \cup
  {Pair(XBin(op, X, X), Zero) : op \in {"IntNotEqual", "IntLess", "IntSLess"}}
IdConstOperand ==
  UNION {{Pair(XBin(op, X, Zero), X), Pair(XBin(op, Zero, X), X)} : op \in {"IntOr", "IntXOr"}} \cup
  UNION {{Pair(XBin(op, P, Zero), P), Pair(XBin(op, Zero, P), P)} : op \in {"BoolOr", "BoolXOr"}} \cup
  {Pair(XBin("IntAnd", X, Ones), X), Pair(XBin("IntAnd", Ones, X), X),
   Pair(XBin("BoolAnd", P, Zero), Zero), Pair(XBin("BoolAnd", Zero, P), Zero),
   Pair(XBin("BoolAnd", P, One), P), Pair(XBin("BoolAnd", One, P), P),
   Pair(XBin("BoolOr", P, One), One), Pair(XBin("BoolOr", One, P), One),
   Pair(XBin("BoolXOr", P, One), XUn("BoolNegate", P)), Pair(XBin("BoolXOr", One, P), XUn("BoolNegate", P))}
IdCompare ==
  LET d == XBin("IntSub", X, Y) IN
  {Pair(XBin("IntEqual", d, Zero), XBin("IntEqual", X, Y)), Pair(XBin("IntEqual", Zero, d), XBin("IntEqual", X, Y)),
   Pair(XBin("IntNotEqual", d, Zero), XBin("IntNotEqual", X, Y)), Pair(XBin("IntNotEqual", Zero, d), XBin("IntNotEqual", X, Y))} \cup
  UNION {{Pair(XBin("BoolOr", XBin(lt[1], X, Y), eq), XBin(lt[2], X, Y)), Pair(XBin("BoolOr", eq, XBin(lt[1], X, Y)), XBin(lt[2], X, Y))}
          : lt \in {<<"IntLess", "IntLessEqual">>, <<"IntSLess", "IntSLessEqual">>}, eq \in {XBin("IntEqual", X, Y), XBin("IntEqual", Y, X)}} \cup
  UNION {{Pair(XBin("BoolAnd", XBin(le[1], X, Y), ne), XBin(le[2], X, Y)), Pair(XBin("BoolAnd", ne, XBin(le[1], X, Y)), XBin(le[2], X, Y))}
          : le \in {<<"IntLessEqual", "IntLess">>, <<"IntSLessEqual", "IntSLess">>}, ne \in {XBin("IntNotEqual", X, Y), XBin("IntNotEqual", Y, X)}}
IdBorrow ==
  LET neg == XBin("IntSLess", XBin("IntSub", X, Y), Zero)
      bor == XBin("IntSBorrow", X, Y)
  IN {Pair(XBin("IntNotEqual", neg, bor), XBin("IntSLess", X, Y)), Pair(XBin("IntNotEqual", bor, neg), XBin("IntSLess", X, Y)),
      Pair(XBin("IntEqual", neg, bor), XBin("IntSLessEqual", Y, X)), Pair(XBin("IntEqual", bor, neg), XBin("IntSLessEqual", Y, X))}
\* c1, c2: constants (bytes)
IdArith(c1, c2) ==
  {Pair(XBin("IntAdd", K(c1), K(c2)), K(c1 + c2)), Pair(XBin("IntSub", K(c1), K(c2)), K(c1 + 256 - c2)),
   Pair(XBin("IntSub", XBin("IntSub", X, K(c1)), K(c2)), XBin("IntSub", X, K(c1 + c2))),
   Pair(XBin("IntAdd", XBin("IntAdd", X, K(c1)), K(c2)), XBin("IntAdd", X, K(c1 + c2))),
   Pair(XBin("IntAdd", XBin("IntAdd", K(c1), X), K(c2)), XBin("IntAdd", X, K(c1 + c2)))}
IdSubpiece ==
  {Pair(XSub(0, 1, X), X), Pair(XSub(0, 4, W4), W4),
   Pair(XSub(0, 1, XCast("IntZExt", 2, X)), X), Pair(XSub(0, 1, XCast("IntSExt", 4, X)), X),
   Pair(XSub(0, 2, XCast("IntSExt", 8, XBin("Piece", X, Y))), XBin("Piece", X, Y)),
   Pair(XSub(1, 1, XBin("Piece", X, Y)), X), Pair(XSub(0, 1, XBin("Piece", X, Y)), Y),
   Pair(XSub(2, 2, XBin("Piece", XBin("Piece", X, Y), XBin("Piece", Y, X))), XBin("Piece", X, Y)),
   Pair(XSub(1, 2, XBin("Piece", XBin("Piece", X, Y), P)), XBin("Piece", X, Y))} \cup
  {Pair(XSub(l2, s, XSub(l1, m, V4)), XSub(l1 + l2, s, V4)) :
     <<l1, m, l2, s>> \in {t \in (0..3) \X (1..4) \X (0..3) \X (1..4) : t[1] + t[2] <= 4 /\ t[3] + t[4] <= t[2]}}
IdCast ==
  UNION {{Pair(XCast(op, 1, X), X), Pair(XCast(op, 4, W4), W4),
          Pair(XCast(op, 4, XCast(op, 2, X)), XCast(op, 4, X)), Pair(XCast(op, 8, XCast(op, 4, XBin("Piece", X, Y))), XCast(op, 8, XBin("Piece", X, Y)))}
          : op \in {"IntZExt", "IntSExt"}}
IdUnary ==
  {Pair(XUn("IntNegate", XUn("IntNegate", X)), X), Pair(XUn("Int2Comp", XUn("Int2Comp", X)), X),
   Pair(XUn("BoolNegate", XUn("BoolNegate", P)), P), Pair(XUn("Int2Comp", XUn("Int2Comp", W4)), W4)} \cup
  {Pair(XUn("BoolNegate", XBin(c[1], X, Y)), XBin(c[2], Y, X)) :
     c \in {<<"IntEqual", "IntNotEqual">>, <<"IntNotEqual", "IntEqual">>, <<"IntLess", "IntLessEqual">>,
            <<"IntSLess", "IntSLessEqual">>, <<"IntLessEqual", "IntLess">>, <<"IntSLessEqual", "IntSLess">>}}
\* (constants: TLC evaluates them once)  Id1: the pairs over at most one variable; Id2: the pairs over X and Y
\* (forced with Norm = TLCEval: a filtered set / set difference stays lazy in TLC and re-evaluates its predicate)
IdFixed == Norm(IdSameOperand \cup IdConstOperand \cup IdCompare \cup IdBorrow \cup IdSubpiece \cup IdCast \cup IdUnary)
Id1 == Norm({p \in IdFixed : Cardinality(Vars(p.l)) <= 1})
Id2 == Norm(IdFixed \ Id1)
Identities(c1, c2) == IdFixed \cup IdArith(c1, c2)

NonIdentities ==
  LET d == XBin("IntSub", X, Y)
      neg == XBin("IntSLess", d, Zero)
  IN {Pair(XBin("IntEqual", d, One), XBin("IntNotEqual", X, Y)),               \* the rewrite removed by fix 3173f09
      Pair(XBin("IntNotEqual", d, One), XBin("IntEqual", X, Y)),
      Pair(XBin("IntEqual", XBin("IntAdd", X, Y), Zero), XBin("IntEqual", X, Y)),
      Pair(XBin("IntLess", d, Zero), XBin("IntLess", X, Y)),
      Pair(XBin("BoolOr", XBin("IntSLess", X, Y), XBin("IntEqual", X, Y)), XBin("IntLessEqual", X, Y)),     \* signedness mixed up
      Pair(XBin("BoolOr", XBin("IntLess", X, Y), XBin("IntEqual", X, Y)), XBin("IntLessEqual", Y, X)),     \* operands swapped
      Pair(XBin("BoolAnd", XBin("IntLessEqual", X, Y), XBin("IntNotEqual", X, Y)), XBin("IntSLess", X, Y)),
      Pair(XBin("BoolOr", XBin("IntLessEqual", X, Y), XBin("IntNotEqual", X, Y)), XBin("IntLess", X, Y)),
      Pair(XUn("BoolNegate", XBin("IntLess", X, Y)), XBin("IntLessEqual", X, Y)),                            \* negation without the swap
      Pair(XUn("BoolNegate", XBin("IntLess", X, Y)), XBin("IntLess", Y, X)),
      Pair(XUn("BoolNegate", XBin("IntSLess", X, Y)), XBin("IntLessEqual", Y, X)),
      Pair(XBin("IntNotEqual", neg, XBin("IntSBorrow", X, Y)), XBin("IntSLess", Y, X)),
      Pair(XBin("IntNotEqual", neg, XBin("IntSBorrow", X, Y)), XBin("IntLess", X, Y)),
      Pair(XBin("IntNotEqual", neg, XBin("IntSBorrow", Y, X)), XBin("IntSLess", X, Y)),
      Pair(XBin("IntNotEqual", neg, XBin("IntSCarry", X, Y)), XBin("IntSLess", X, Y)),
      Pair(XBin("IntEqual", neg, XBin("IntSBorrow", X, Y)), XBin("IntSLessEqual", X, Y)),
      Pair(XBin("IntNotEqual", XBin("IntLess", d, Zero), XBin("IntSBorrow", X, Y)), XBin("IntSLess", X, Y)),
      Pair(XBin("IntSub", XBin("IntSub", X, K(3)), K(5)), XBin("IntSub", X, K(254))),                        \* c1 - c2 instead of c1 + c2
      Pair(XBin("IntAdd", XBin("IntSub", X, K(3)), K(5)), XBin("IntAdd", X, K(8))),
      Pair(XBin("IntSub", XBin("IntAdd", X, K(3)), K(5)), XBin("IntSub", X, K(8))),
      Pair(XBin("IntAnd", X, One), X), Pair(XBin("IntOr", X, Ones), X), Pair(XBin("IntAnd", X, Zero), X),
      Pair(XBin("IntSub", X, X), X), Pair(XBin("IntOr", X, X), Zero),
      Pair(XBin("BoolXOr", P, One), P), Pair(XBin("BoolOr", P, One), P), Pair(XBin("BoolAnd", P, One), One),
      Pair(XSub(1, 1, XBin("Piece", X, Y)), Y), Pair(XSub(0, 1, XBin("Piece", X, Y)), X),
      Pair(XSub(0, 1, XSub(1, 2, W4)), XSub(0, 1, W4)),                                                       \* inner offset dropped
      Pair(XSub(1, 1, XCast("IntSExt", 2, X)), Zero),
      Pair(XCast("IntZExt", 4, XCast("IntSExt", 2, X)), XCast("IntZExt", 4, X)),                               \* mixed extensions
      Pair(XCast("IntSExt", 4, XCast("IntZExt", 2, X)), XCast("IntSExt", 4, X)),
      Pair(XCast("PopCount", 1, XCast("PopCount", 1, X)), XCast("PopCount", 1, X)),
      Pair(XUn("IntNegate", XUn("Int2Comp", X)), X)}

PairInClass(p) == InClass(p.l) /\ InClass(p.r) /\ SizeOf(p.l) = SizeOf(p.r) /\ VarsSubset(p.r, p.l)
PairHolds(p, val) == SameValue(p.l, p.r, val) /\ Admissible(p.l, val)
PairDiffers(p, val) == Admissible(p.l, val) /\ EvalExpr(p.l, val) # EvalExpr(p.r, val)
=============================================================================
