----------------------------- MODULE DomainMap -----------------------------
(***************************************************************************)
(* `DomainMap<K, V, S>`: a finite map from keys to abstract values whose   *)
(* merge is fixed by the strategy S.  ma map is a sequence of               *)
(* [key |-> string, v |-> tagged value (AbsValue.tla)] with distinct keys. *)
(* The concretisation is key-wise; what an ABSENT key denotes depends on   *)
(* the strategy (documented at the three strategy types):                  *)
(*   "union"     - bottom: no value at all                                 *)
(*   "intersect" - everything (the strategy assumes Top is the greatest    *)
(*                 element of V)                                           *)
(*   "mergetop"  - the element V::top(), which need not be the greatest    *)
(*                 (DataDomain: just the Top member)                       *)
(* SubsetSlot is  gammaK(A, k) \subseteq gammaK(B, k).                     *)
(***************************************************************************)
EXTENDS AbsValue

MapKeys(m) == {m[i].key : i \in 1..Len(m)}
MapHas(m, k) == \E i \in 1..Len(m) : m[i].key = k
MapGet(m, k) == m[CHOOSE i \in 1..Len(m) : m[i].key = k].v
Strategies == {"union", "intersect", "mergetop"}

SubsetSlot(strat, ma, mb, k, seed) ==
  LET ha == MapHas(ma, k)
      hb == MapHas(mb, k)
  IN CASE strat = "union" -> ~ha \/ (hb /\ SubsetV(MapGet(ma, k), MapGet(mb, k), seed))
       [] strat = "intersect" -> \/ ~hb
                                 \/ IsAllV(MapGet(mb, k))
                                 \/ (ha /\ SubsetV(MapGet(ma, k), MapGet(mb, k), seed))
       [] strat = "mergetop" ->
            IF ~ha /\ ~hb THEN TRUE
            ELSE LET proto == IF ha THEN MapGet(ma, k) ELSE MapGet(mb, k)
                     va == IF ha THEN MapGet(ma, k) ELSE TopV(proto)
                     vb == IF hb THEN MapGet(mb, k) ELSE TopV(proto)
                 IN SubsetV(va, vb, seed)
SubsetM(strat, ma, mb, seed) == \A k \in MapKeys(ma) \cup MapKeys(mb) : SubsetSlot(strat, ma, mb, k, seed)
GammaEqM(strat, ma, mb, seed) == SubsetM(strat, ma, mb, seed) /\ SubsetM(strat, mb, ma, seed + 11)
\* key-wise over the keys of all three maps (a key that only the merge has is checked, too)
UpperM(strat, x, y, m, seed) == SubsetM(strat, x, m, seed) /\ SubsetM(strat, y, m, seed + 1)
IdemM(strat, x, mxx, seed) == GammaEqM(strat, mxx, x, seed)
AbsorbM(strat, m, m2, seed) == GammaEqM(strat, m2, m, seed)
=============================================================================
