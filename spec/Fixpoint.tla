------------------------------ MODULE Fixpoint ------------------------------
(***************************************************************************)
(* The worklist fixpoint solver of cwe_checker                             *)
(*   src/cwe_checker_lib/src/analysis/fixpoint.rs  (struct Computation)    *)
(* as a chaotic-iteration state machine, together with an independent      *)
(* definition of the least solution (Kleene iteration over whole           *)
(* assignments) and the properties that relate the two (property C07).     *)
(*                                                                         *)
(* A fixpoint problem (a "configuration" c) is a record                    *)
(*   n        number of nodes; the nodes are 1..n                          *)
(*   edges    sequence of <<src, dst>>; the edges are 1..Len(edges)        *)
(*            (parallel edges and self-loops allowed)                      *)
(*   join     the join table of a finite join-semilattice on 1..K:         *)
(*            join[a][b]; a <= b  iff  join[a][b] = b                      *)
(*   tr       one transfer table per edge: tr[e][x] \in 0..K, where        *)
(*            0 = None = "no information flows through the edge"           *)
(*   start    start[v] \in 0..K, 0 = no start value (set_node_value)       *)
(*   default  0..K, 0 = no default value (Computation::new(_, None))       *)
(*   maxsteps -1 = Inf (Computation::compute), else the bound of           *)
(*            compute_with_max_steps                                       *)
(* The configuration is a VARIABLE (constant along a run) so that a        *)
(* model-checking instance can choose it and a trace specification can     *)
(* read it from the reset event of every recorded run.                     *)
(*                                                                         *)
(* Actions = the critical sections of fixpoint.rs:                         *)
(*   Start       compute() / compute_with_max_steps(k) is entered          *)
(*   Pop(v)      a node leaves the worklist: PopVisit (steps[v]++, its     *)
(*               out-edges become pending; only below the step bound) or   *)
(*               PopDefer (it moves to the set of non-stabilised nodes).   *)
(*               ANY worklist node may be popped: the priority order is a  *)
(*               choice of the implementation that C07 quantifies over.    *)
(*               The step bound is an UPPER bound only: with a bound a     *)
(*               solver may give up on a node earlier (PopDefer is enabled *)
(*               for every queued node); fixpoint.rs does so exactly when  *)
(*               the bound is reached.                                     *)
(*   Requeue(v)  environment action: a node that has a value re-enters the *)
(*               worklist although nothing changed (a solver may re-visit  *)
(*               nodes needlessly; C07 does not forbid it).  fixpoint.rs   *)
(*               never does.  Not part of the fair (liveness) behaviours.  *)
(*   UpdateEdge(e) update_edge + merge_node_value for ANY pending out-edge *)
(*   FinishNode  update_node returns                                       *)
(*   Finish      the loop ends: worklist := non-stabilised nodes           *)
(***************************************************************************)
EXTENDS Integers, Sequences, FiniteSets

None == 0          \* "no value" (Option::None); below every lattice element
Inf  == -1         \* maxsteps of Computation::compute

VARIABLES
  cfg,       \* the fixpoint problem, see above
  lfp,       \* ghost: LFP(cfg), computed once per run (never read by an action)
  val,       \* node_values: [1..n -> 0..K]
  wl,        \* worklist, as a set of nodes (the priorities are abstracted away)
  steps,     \* steps[v] of compute_with_max_steps (stays 0 when maxsteps = Inf: compute() does not count)
  cur,       \* the node being processed by update_node, its pending out-edges, its value when popped
  unstable,  \* non_stabilized_nodes
  phase      \* "ready" (constructed, start values set) -> "run" -> "done"
vars == <<cfg, lfp, val, wl, steps, cur, unstable, phase>>

----------------------------------------------------------------------------
(* Configuration accessors                                                 *)
Nodes(c)  == 1..c.n
Edges(c)  == 1..Len(c.edges)
Src(c, e) == c.edges[e][1]
Dst(c, e) == c.edges[e][2]
Lat(c)    == 1..Len(c.join)
OutEdges(c, v) == {e \in Edges(c) : Src(c, e) = v}
InEdges(c, v)  == {e \in Edges(c) : Dst(c, e) = v}
Bounded(c) == c.maxsteps # Inf

Join(c, a, b) == c.join[a][b]                          \* a, b proper elements
Leq(c, a, b)  == c.join[a][b] = b
\* the order and the join extended by None as least element
LeqN(c, a, b)  == a = None \/ (b # None /\ Leq(c, a, b))
JoinN(c, a, b) == IF a = None THEN b ELSE IF b = None THEN a ELSE Join(c, a, b)
\* transfer along e; no source value => nothing flows
Tr(c, e, x) == IF x = None THEN None ELSE c.tr[e][x]

(* The class of problems C07 quantifies over.                              *)
WellFormed(c) ==
  /\ c.n \in Nat /\ c.n >= 1
  /\ Len(c.join) >= 1
  /\ \A a \in Lat(c) : Len(c.join[a]) = Len(c.join) /\ \A b \in Lat(c) : c.join[a][b] \in Lat(c)
  /\ \A e \in Edges(c) : Src(c, e) \in Nodes(c) /\ Dst(c, e) \in Nodes(c)
  /\ Len(c.tr) = Len(c.edges)
  /\ \A e \in Edges(c) : Len(c.tr[e]) = Len(c.join) /\ \A x \in Lat(c) : c.tr[e][x] \in {None} \cup Lat(c)
  /\ Len(c.start) = c.n /\ \A v \in Nodes(c) : c.start[v] \in {None} \cup Lat(c)
  /\ c.default \in {None} \cup Lat(c)
  /\ c.maxsteps = Inf \/ c.maxsteps \in Nat
IsSemilattice(c) ==
  /\ \A a \in Lat(c) : Join(c, a, a) = a
  /\ \A a, b \in Lat(c) : Join(c, a, b) = Join(c, b, a)
  /\ \A a, b, d \in Lat(c) : Join(c, Join(c, a, b), d) = Join(c, a, Join(c, b, d))
\* monotone in the extended order: None may turn into a value when the input grows, never back
MonotoneTable(c, t) == \A x, y \in Lat(c) : Leq(c, x, y) => LeqN(c, t[x], t[y])
Monotone(c) == \A e \in Edges(c) : MonotoneTable(c, c.tr[e])
InClass(c) == WellFormed(c) /\ IsSemilattice(c) /\ Monotone(c)

----------------------------------------------------------------------------
(* Reference semantics: the least solution, defined without any worklist.  *)

\* state after Computation::new / from_node_priority_list and the set_node_value calls:
\* a start value REPLACES the default value of its node
InitVal(c) == [v \in Nodes(c) |-> IF c.start[v] # None THEN c.start[v] ELSE c.default]
InitWl(c)  == IF c.default # None THEN Nodes(c) ELSE {v \in Nodes(c) : c.start[v] # None}

RECURSIVE JoinSet(_, _)
JoinSet(c, S) == IF S = {} THEN None
                 ELSE LET x == CHOOSE x \in S : TRUE IN JoinN(c, x, JoinSet(c, S \ {x}))

\* one round of simultaneous (Jacobi) iteration over a whole assignment
KleeneStep(c, a) ==
  [v \in Nodes(c) |-> JoinN(c, a[v], JoinSet(c, {Tr(c, e, a[Src(c, e)]) : e \in InEdges(c, v)}))]
RECURSIVE Kleene(_, _)
Kleene(c, a) == LET b == KleeneStep(c, a) IN IF b = a THEN a ELSE Kleene(c, b)
LFP(c) == Kleene(c, InitVal(c))

\* edge e is closed under assignment a:  e(a[src]) <= a[dst]  (nothing to show when nothing flows)
ClosedIn(c, a, e) == LET t == Tr(c, e, a[Src(c, e)]) IN t = None \/ LeqN(c, t, a[Dst(c, e)])
IsSolution(c, a) == /\ \A v \in Nodes(c) : LeqN(c, InitVal(c)[v], a[v])
                    /\ \A e \in Edges(c) : ClosedIn(c, a, e)
\* the characterisation the property statement uses; the model-checking instance checks that
\* LFP(c) satisfies it (self-check of the oracle, feasible for small n only)
IsLeastSolution(c, a) ==
  /\ IsSolution(c, a)
  /\ \A b \in [Nodes(c) -> {None} \cup Lat(c)] : IsSolution(c, b) => \A v \in Nodes(c) : LeqN(c, a[v], b[v])

----------------------------------------------------------------------------
(* The machine                                                             *)
NoCur == [n |-> 0, todo |-> {}, snap |-> None]

Init(c) ==
  /\ cfg = c /\ lfp = LFP(c)
  /\ val = InitVal(c) /\ wl = InitWl(c)
  /\ steps = [v \in Nodes(c) |-> 0]
  /\ cur = NoCur /\ unstable = {} /\ phase = "ready"

\* the same as an action (a new Computation is built): used by instances that run many problems
Reset(c) ==
  /\ cfg' = c /\ lfp' = LFP(c)
  /\ val' = InitVal(c) /\ wl' = InitWl(c)
  /\ steps' = [v \in Nodes(c) |-> 0]
  /\ cur' = NoCur /\ unstable' = {} /\ phase' = "ready"

Start == /\ phase = "ready" /\ phase' = "run"
         /\ UNCHANGED <<cfg, lfp, val, wl, steps, cur, unstable>>

CanVisit(v) == ~Bounded(cfg) \/ steps[v] < cfg.maxsteps

\* fixpoint.rs: `if steps[node] < max_steps { steps[node] += 1; update_node(node) }`
PopVisit(v) ==
  /\ phase = "run" /\ cur = NoCur /\ v \in wl /\ CanVisit(v)
  /\ wl' = wl \ {v}
  /\ steps' = IF Bounded(cfg) THEN [steps EXCEPT ![v] = @ + 1] ELSE steps
  /\ cur' = [n |-> v, todo |-> OutEdges(cfg, v), snap |-> val[v]]
  /\ UNCHANGED <<cfg, lfp, val, unstable, phase>>
\* `else { non_stabilized_nodes.insert(priority) }`.  fixpoint.rs defers a node exactly when
\* ~CanVisit(v); the property only demands "not more often than the bound", so giving up earlier
\* is admitted whenever there is a bound (never for compute(), which must reach the least solution)
PopDefer(v) ==
  /\ phase = "run" /\ cur = NoCur /\ v \in wl /\ Bounded(cfg)
  /\ wl' = wl \ {v} /\ unstable' = unstable \cup {v}
  /\ UNCHANGED <<cfg, lfp, val, steps, cur, phase>>
Pop(v) == PopVisit(v) \/ PopDefer(v)

\* A needless re-queue (environment).  The worklist is only read when a node is popped, i.e.
\* between visits, so re-queues during a visit are represented by one right after it.
Requeue(v) ==
  /\ phase = "run" /\ cur = NoCur /\ v \notin wl /\ val[v] # None
  /\ wl' = wl \cup {v}
  /\ UNCHANGED <<cfg, lfp, val, steps, cur, unstable, phase>>

(* update_edge + merge_node_value for a pending out-edge e of the current  *)
(* node, reading the source value x.  fixpoint.rs re-reads node_values for *)
(* every edge (x = val[src]); a solver that reads the value once when the  *)
(* node is popped (x = cur.snap) is admitted too: the two differ only      *)
(* after a self-loop changed the node, which has re-queued it.  The model- *)
(* checking instance shows that every property below holds for both.       *)
InputChoices(e) == IF cur = NoCur THEN {} ELSE {val[Src(cfg, e)], cur.snap}
UpdateEdgeWith(e, x) ==
  /\ phase = "run" /\ cur # NoCur /\ e \in cur.todo /\ x \in InputChoices(e)
  /\ cur' = [cur EXCEPT !.todo = @ \ {e}]
  /\ LET d   == Dst(cfg, e)
         t   == Tr(cfg, e, x)
         old == val[d]
         new == JoinN(cfg, t, old)           \* merge(new, old); the new value itself if there was none
     IN IF t # None /\ new # old             \* changed, or was absent
          THEN val' = [val EXCEPT ![d] = new] /\ wl' = wl \cup {d}      \* set_node_value
          ELSE UNCHANGED <<val, wl>>
  /\ UNCHANGED <<cfg, lfp, steps, unstable, phase>>
UpdateEdge(e) == \E x \in InputChoices(e) : UpdateEdgeWith(e, x)

FinishNode ==
  /\ phase = "run" /\ cur # NoCur /\ cur.todo = {}
  /\ cur' = NoCur
  /\ UNCHANGED <<cfg, lfp, val, wl, steps, unstable, phase>>

\* `self.worklist = non_stabilized_nodes` (compute(): the set is empty)
Finish ==
  /\ phase = "run" /\ cur = NoCur /\ wl = {}
  /\ wl' = unstable /\ unstable' = {} /\ phase' = "done"
  /\ UNCHANGED <<cfg, lfp, val, steps, cur>>

\* the solver's own steps (fair), and all steps including the environment's needless re-queues
NextCore == \/ Start
            \/ \E v \in Nodes(cfg) : Pop(v)
            \/ \E e \in Edges(cfg) : UpdateEdge(e)
            \/ FinishNode
            \/ Finish
Next == NextCore \/ \E v \in Nodes(cfg) : Requeue(v)

----------------------------------------------------------------------------
(* Properties (C07)                                                        *)

Closed(e) == ClosedIn(cfg, val, e)

\* no node is processed more often than the bound (an upper bound only)
StepBound == Bounded(cfg) => \A v \in Nodes(cfg) : steps[v] <= cfg.maxsteps

\* chaotic iteration never overshoots the least solution, and never loses the start values
BelowLFP   == \A v \in Nodes(cfg) : LeqN(cfg, val[v], lfp[v])
AboveStart == \A v \in Nodes(cfg) : LeqN(cfg, InitVal(cfg)[v], val[v])

\* every edge whose source is not queued, not deferred and not being processed with that edge
\* still pending, is closed
WorklistInv ==
  \A e \in Edges(cfg) :
    (/\ Src(cfg, e) \notin wl
     /\ Src(cfg, e) \notin unstable
     /\ ~(cur.n = Src(cfg, e) /\ e \in cur.todo))
    => Closed(e)

\* without a step bound the result is the least solution, whatever the order
Result == (phase = "done" /\ ~Bounded(cfg)) => val = lfp
\* 'stabilized' (empty worklist) is reported only for an assignment closed under all edges ...
HonestStabilized == (phase = "done" /\ wl = {}) => \A e \in Edges(cfg) : Closed(e)
\* ... which then is the least one (with or without a bound)
StabilizedIsLeast == (phase = "done" /\ wl = {}) => val = lfp

TypeOK ==
  /\ val \in [Nodes(cfg) -> {None} \cup Lat(cfg)]
  /\ wl \subseteq Nodes(cfg) /\ unstable \subseteq Nodes(cfg)
  /\ \A v \in wl \cup unstable : val[v] # None        \* only nodes with a value are ever queued
  /\ cur = NoCur \/ (cur.n \in Nodes(cfg) /\ cur.todo \subseteq OutEdges(cfg, cur.n) /\ val[cur.n] # None)
  /\ phase \in {"ready", "run", "done"}

\* liveness: under weak fairness of the solver's own steps, and without needless re-queues
\* (behaviours of NextCore), every run finishes (finite lattice, monotone transfers)
Termination == <>(phase = "done")
=============================================================================
