------------------------------ MODULE Bricks ------------------------------
(***************************************************************************)
(* Bounded concretisation of the brick string domain                       *)
(*   cwe_checker_lib/src/abstract_domain/bricks.rs, bricks/brick.rs,       *)
(*   bricks/widening.rs                                                    *)
(* and the soundness / exactness relations of its public operations        *)
(* (property C06).                                                         *)
(*                                                                         *)
(* Values (exactly the wire format the harness records, DESIGN appendix A) *)
(*   brick  == [top |-> BOOLEAN, seq |-> <<string, ...>>, min |-> Nat,     *)
(*              max |-> Nat, inf |-> BOOLEAN]                              *)
(*             top = TRUE  : BrickDomain::Top, all strings                 *)
(*             otherwise   : [S]^{min,max}, S = Range(seq); inf = TRUE     *)
(*             when max is the widening sentinel u32::MAX ("infinity",     *)
(*             widening.rs).  Numbers >= 2^20 are clamped to 2^20 on the   *)
(*             wire (TLC integers are 32 bit); the clamp is invisible to   *)
(*             the bounded language, see CapLaw in mc/MC_Bricks.           *)
(*   bricks == [top |-> BOOLEAN, bricks |-> <<brick, ...>>]                *)
(*             top = TRUE  : BricksDomain::Top, all strings                *)
(*             otherwise   : the concatenation of the bricks               *)
(*                                                                         *)
(* Semantics (Costantini/Ferrara/Cortesi, and the module comment of        *)
(* brick.rs):  [S]^{m,M} = union of S^k for m <= k <= M, S^0 = {""}.       *)
(* Lang(d) is the set of members of length <= L over Alphabet: the         *)
(* property is stated over this bounded concretisation, so equality of     *)
(* bounded languages is a necessary condition of "normalisation does not   *)
(* change the set of strings", inclusion a necessary condition of          *)
(* soundness of append / merge / widen.                                    *)
(***************************************************************************)
EXTENDS Strings

CONSTANTS Alphabet,    \* set of code points the Top brick ranges over (must contain every character used)
          L            \* length bound of the bounded language

All == AllStr(Alphabet, L)

(***************************************************************************)
(* One brick.                                                              *)
(* Only k <= L+1 matters: a string of length <= L is a concatenation of    *)
(* at most L non-empty members of S, so for every k > L                    *)
(*      S^k (bounded) = S^(L+1) (bounded)  ( = S^L if "" \in S, else {} ). *)
(* Hence an unbounded / huge max is L+1, and a huge min is L+1.            *)
(***************************************************************************)
BrickSet(b) == Short(Range(b.seq), L)
BrickLo(b) == SMin(b.min, L + 1)
BrickHi(b) == IF b.inf THEN L + 1 ELSE SMin(b.max, L + 1)

\* the definition
BrickLangDef(b) ==
  IF b.top THEN All
  ELSE UNION {Pow(BrickSet(b), k, L) : k \in BrickLo(b)..BrickHi(b)}

\* the same set computed with one pass over k (P = S^k); MC_Bricks checks BrickLang = BrickLangDef
RECURSIVE PowUnion(_, _, _, _, _)
PowUnion(S, P, k, lo, hi) ==
  IF k > hi \/ P = {} THEN {}
  ELSE (IF k >= lo THEN P ELSE {}) \cup PowUnion(S, Cat(P, S, L), k + 1, lo, hi)
BrickLang(b) ==
  IF b.top THEN All ELSE PowUnion(BrickSet(b), {Eps}, 0, BrickLo(b), BrickHi(b))

(***************************************************************************)
(* A sequence of bricks denotes the concatenation of its bricks; the empty *)
(* sequence denotes {""}.                                                  *)
(***************************************************************************)
RECURSIVE LangSeqFrom(_, _, _)
LangSeqFrom(bs, i, acc) ==
  IF i > Len(bs) \/ acc = {} THEN acc
  ELSE LangSeqFrom(bs, i + 1, Cat(acc, BrickLang(bs[i]), L))
LangSeq(bs) == LangSeqFrom(bs, 1, {Eps})

Lang(d) == IF d.top THEN All ELSE LangSeq(d.bricks)

(***************************************************************************)
(* Input class of the property ("all brick sequences ..."): well-formed    *)
(* bricks over the alphabet.  min > max is not a brick.                    *)
(***************************************************************************)
BrickWF(b) ==
  b.top \/ ( /\ \A i \in DOMAIN b.seq : CharsOf(b.seq[i]) \subseteq Alphabet
             /\ b.min >= 0
             /\ (b.inf \/ b.min <= b.max) )
WF(d) == d.top \/ \A i \in DOMAIN d.bricks : BrickWF(d.bricks[i])

(***************************************************************************)
(* The relations of the public operations (one per operation; `r` is the   *)
(* value the operation returned).  They are relations, not functions: any  *)
(* result that satisfies them is allowed, so a change of precision, of     *)
(* the widening thresholds or of the normal form raises no alarm.          *)
(***************************************************************************)
\* BricksDomain::normalize -- language preserved EXACTLY (both inclusions)
NormOK(x, r) == Lang(r) = Lang(x)

\* DomainInsertion::append_string_domain -- every concatenation of members is represented
AppendOK(x, y, r) == Cat(Lang(x), Lang(y), L) \subseteq Lang(r)

\* AbstractDomain::merge -- every member of either input is represented
MergeOK(x, y, r) == LET R == Lang(r) IN Lang(x) \subseteq R /\ Lang(y) \subseteq R

\* BricksDomain::widen is an upper-bound operator as well
WidenOK(x, y, r) == MergeOK(x, y, r)

(***************************************************************************)
(* Diagnostics for a rejected event: some witness string.                  *)
(***************************************************************************)
Witness(X, Y) == IF X \subseteq Y THEN <<"none">> ELSE <<"missing", CHOOSE w \in X : w \notin Y>>
=============================================================================
