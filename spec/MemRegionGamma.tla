--------------------------- MODULE MemRegionGamma ---------------------------
(***************************************************************************)
(* Denotation of a `MemRegion<T>` for the merge clause of C03 (the state   *)
(* machine of the region - add/remove/overlaps - is MemRegion.tla, C05;    *)
(* this module does not depend on it).                                     *)
(* A region is a sequence of cells [off |-> int, size |-> bytes, v |->     *)
(* tagged value].  It denotes the set of memories in which, for every cell,*)
(* the bytes at [off, off+size) assemble to a member of gamma(v).  What    *)
(* the region says about a range (o, s) is therefore gamma(v) if it holds  *)
(* the cell (o, s, v), and otherwise what `get(o, s)` returns:             *)
(* T::new_top(s) - everything for intervals / bit vectors, the Top member  *)
(* for data domains, "clean" for taint.                                    *)
(*   gamma(ma) \subseteq gamma(mb)  is checked as: every constraint (cell)   *)
(* of mb is implied by what ma says about the same range.                    *)
(***************************************************************************)
EXTENDS AbsValue

RegIdx(R, o, s) == {i \in 1..Len(R) : R[i].off = o /\ R[i].size = s}
\* what region R says about the range of cell c
RegView(R, c) == IF RegIdx(R, c.off, c.size) # {} THEN R[CHOOSE i \in RegIdx(R, c.off, c.size) : TRUE].v ELSE TopV(c.v)
SubsetR(ma, mb, seed) == \A j \in 1..Len(mb) : SubsetV(RegView(ma, mb[j]), mb[j].v, seed + j)
GammaEqR(ma, mb, seed) == SubsetR(ma, mb, seed) /\ SubsetR(mb, ma, seed + 13)
UpperR(x, y, m, seed) == SubsetR(x, m, seed) /\ SubsetR(y, m, seed + 1)
IdemR(x, mxx, seed) == GammaEqR(mxx, x, seed)
AbsorbR(m, m2, seed) == GammaEqR(m2, m, seed)
=============================================================================
