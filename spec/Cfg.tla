-------------------------------- MODULE Cfg --------------------------------
(***************************************************************************)
(* Specification of the interprocedural control flow graph of cwe_checker  *)
(* (analysis/graph.rs: get_program_cfg, get_entry_nodes_of_subs) as an      *)
(* exact FUNCTION OF THE PROGRAM.  Definitions only; no state.             *)
(*                                                                         *)
(* Property C08: for every well-formed normalised program P the graph has  *)
(*   - one BlkStart node, one BlkEnd node and one Block edge per            *)
(*     (block, function) pair,                                             *)
(*   - a Jump edge for every intraprocedural branch and one per indirect-   *)
(*     jump target hint (the second jump of a block carries the first, the  *)
(*     untaken conditional),                                               *)
(*   - call/return linkage for every call to an internal function,         *)
(*   - an ExternCallStub edge for every extern/indirect call that returns,  *)
(*   - and nothing else.                                                   *)
(* Multiplicities matter (petgraph is a multigraph), so nodes and edges    *)
(* are BAGS.  A bag is a function element -> positive count (the same      *)
(* representation the standard module Bags uses).                          *)
(*                                                                         *)
(* PROGRAM ENCODING (produced by harness/src/irenc.rs, DESIGN appendix A). *)
(* Only the fields named here are inspected by this module:                *)
(*   P       = [subs |-> <<sub...>>, externs |-> <<ext...>>, ...]          *)
(*   sub     = [tid |-> STRING, blocks |-> <<blk...>>, ...]   first block = *)
(*             entry block; subs come in the order the code iterates them  *)
(*   blk     = [tid, defs |-> <<[tid,...]...>>, jmps |-> <<jmp...>>,       *)
(*              ind |-> <<tid...>>]        ind = indirect jump target hints *)
(*   jmp     = [tid, k, ...] with k one of                                  *)
(*             "branch" (t), "cbranch" (t), "branchind", "call" (t, ret),   *)
(*             "callind" (ret), "callother" (ret), "return";                *)
(*             t = target TID, ret = return-site TID, "" when absent       *)
(*   ext     = [tid, noret, ...]                                            *)
(* TIDs are strings and only compared for equality.                        *)
(*                                                                         *)
(* GRAPH ENCODING                                                          *)
(*   node = [k, blk, sub, blk2, sub2]  (all strings; unused fields are "") *)
(*      k = "BlkStart" | "BlkEnd"  : (blk, sub)                            *)
(*      k = "CallSource" : blk/sub = call-site block and its function,     *)
(*                         blk2/sub2 = entry block of the callee, callee   *)
(*      k = "CallReturn" : blk/sub = call-site block and its function,     *)
(*                         blk2/sub2 = returning block of the callee,callee*)
(*   edge = [k, src, dst, jmp, untaken]   src/dst nodes; jmp/untaken TIDs   *)
(*      k = "Block" | "Jump" | "Call" | "ExternCallStub" | "CrCallStub" |  *)
(*          "CrReturnStub" | "CallCombine" | "ReturnCombine"               *)
(* Every record of one sort has the same fields with the same types, so    *)
(* TLC can build sets of them.                                             *)
(***************************************************************************)
EXTENDS Integers, Sequences, FiniteSets

NoTid == ""

(***************************************************************************)
(* Bags                                                                    *)
(***************************************************************************)
\* the bag { F(x) : x \in S } counted with multiplicity (S is a set of "occurrences")
BagOfImage(S, F(_)) ==
  LET f == [x \in S |-> F(x)]          \* F is evaluated once per occurrence
      img == {f[x] : x \in S}
  IN  IF Cardinality(img) = Cardinality(S)
        THEN [e \in img |-> 1]          \* F injective on S: every count is 1 (shortcut, same value)
        ELSE [e \in img |-> Cardinality({x \in S : f[x] = e})]
\* the bag of the entries of a sequence
SeqBag(s) == BagOfImage(DOMAIN s, LAMBDA i : s[i])
BagPlus(A, B) ==
  [e \in (DOMAIN A) \cup (DOMAIN B) |->
     (IF e \in DOMAIN A THEN A[e] ELSE 0) + (IF e \in DOMAIN B THEN B[e] ELSE 0)]
EmptyBag == [e \in {} |-> 0]
RECURSIVE SumOver(_, _)
SumOver(S, f) == IF S = {} THEN 0 ELSE LET x == CHOOSE y \in S : TRUE IN f[x] + SumOver(S \ {x}, f)
BagSize(B) == SumOver(DOMAIN B, B)
BagCount(B, e) == IF e \in DOMAIN B THEN B[e] ELSE 0

(***************************************************************************)
(* Navigation in the program term.  Positions are index tuples, so that    *)
(* two textually equal terms at different positions stay distinct          *)
(* occurrences.                                                            *)
(***************************************************************************)
SubIx(P) == DOMAIN P.subs
SubTid(P, s) == P.subs[s].tid
\* <<s, b>> : block b of sub s
BlkRefs(P) == UNION {{<<s, b>> : b \in DOMAIN P.subs[s].blocks} : s \in SubIx(P)}
BlkAt(P, r) == P.subs[r[1]].blocks[r[2]]
\* <<s, b, j>> : jump j of block b of sub s
JmpRefs(P) == UNION {{<<r[1], r[2], j>> : j \in DOMAIN BlkAt(P, r).jmps} : r \in BlkRefs(P)}
JmpAt(P, c) == P.subs[c[1]].blocks[c[2]].jmps[c[3]]
\* <<s, b, d>> : def d of block b of sub s
DefRefs(P) == UNION {{<<r[1], r[2], d>> : d \in DOMAIN BlkAt(P, r).defs} : r \in BlkRefs(P)}
DefAt(P, c) == P.subs[c[1]].blocks[c[2]].defs[c[3]]
BlkOfJmp(c) == <<c[1], c[2]>>

SubTids(P) == {P.subs[s].tid : s \in SubIx(P)}
ExternTids(P) == {P.externs[i].tid : i \in DOMAIN P.externs}
BlkTidsOfSub(P, s) == {P.subs[s].blocks[b].tid : b \in DOMAIN P.subs[s].blocks}
AllBlkTids(P) == UNION {BlkTidsOfSub(P, s) : s \in SubIx(P)}
\* index of the sub with TID t (unique in a program with unique TIDs)
SubByTid(P, t) == CHOOSE s \in SubIx(P) : P.subs[s].tid = t
HasBlocks(P, s) == Len(P.subs[s].blocks) > 0

JmpKind(P, c) == JmpAt(P, c).k
IsDirectJump(j) == j.k \in {"branch", "cbranch"}
HasRetField(j) == j.k \in {"call", "callind", "callother"}
\* return site of a call-like jump ("" if none / not call-like)
RetSite(j) == IF HasRetField(j) THEN j.ret ELSE NoTid
\* the direct targets a jump names: intraprocedural target / call target
HasTargetField(j) == j.k \in {"branch", "cbranch", "call"}
BlockReturns(blk) == \E j \in DOMAIN blk.jmps : blk.jmps[j].k = "return"
\* does function s contain a Return instruction (in a listed block)
SubReturns(P, s) == \E b \in DOMAIN P.subs[s].blocks : BlockReturns(P.subs[s].blocks[b])

(***************************************************************************)
(* Well-formed normalised programs: the quantifier of C08 (and the         *)
(* post-condition of basic normalisation, C09).                            *)
(***************************************************************************)
\* number of term occurrences that carry a TID, and the set of their TIDs
TidOccurrences(P) ==
  Cardinality(SubIx(P)) + Cardinality(BlkRefs(P)) + Cardinality(DefRefs(P))
    + Cardinality(JmpRefs(P)) + Len(P.externs)
TidSet(P) ==
  SubTids(P) \cup ExternTids(P) \cup AllBlkTids(P)
    \cup {DefAt(P, c).tid : c \in DefRefs(P)} \cup {JmpAt(P, c).tid : c \in JmpRefs(P)}
UniqueTids(P) == Cardinality(TidSet(P)) = TidOccurrences(P)

\* every direct jump target, indirect hint and return site is a block of the SAME function
IntraInSameSub(P) ==
  /\ \A c \in JmpRefs(P) :
       LET j == JmpAt(P, c) IN
       /\ IsDirectJump(j) => j.t \in BlkTidsOfSub(P, c[1])
       /\ RetSite(j) # NoTid => RetSite(j) \in BlkTidsOfSub(P, c[1])
  /\ \A r \in BlkRefs(P) : \A h \in DOMAIN BlkAt(P, r).ind : BlkAt(P, r).ind[h] \in BlkTidsOfSub(P, r[1])
\* every call target is a function or an extern symbol
CallTargetsExist(P) ==
  \A c \in JmpRefs(P) : JmpAt(P, c).k = "call" => JmpAt(P, c).t \in SubTids(P) \cup ExternTids(P)
\* block shape assumed by graph.rs / documented in blk.rs: at most two jumps; of two jumps the
\* first is a conditional branch and the second is unconditional and only taken if the condition
\* is false.  The second may be a jump (Branch, BranchInd, Return) or a call-like instruction
\* (Call, CallInd, CallOther: a conditionally executed call, e.g. ARM `blne f` = CBRANCH + CALL).
\* graph.rs builds for a call in second position exactly what it builds for a call that is the
\* only jump (CallSource / Call / CallReturn linkage resp. ExternCallStub; the untaken
\* conditional is recorded on Jump edges only), plus the Jump edge of the conditional branch.
\* Graph(P) below ranges over ALL jumps of a block, so it needs no case for these shapes.
BlockShapeOK(blk) ==
  /\ Len(blk.jmps) <= 2
  /\ Len(blk.jmps) = 2 => /\ blk.jmps[1].k = "cbranch"
                          /\ blk.jmps[2].k \in {"branch", "branchind", "return", "call", "callind", "callother"}
BlockShapes(P) == \A r \in BlkRefs(P) : BlockShapeOK(BlkAt(P, r))

WellFormed(P) == UniqueTids(P) /\ IntraInSameSub(P) /\ CallTargetsExist(P) /\ BlockShapes(P)

(***************************************************************************)
(* (block, function) pairs.  graph.rs allows a block to belong to several  *)
(* functions: besides the blocks LISTED in a function, every block that is *)
(* reachable from them by intraprocedural control flow (direct jump        *)
(* targets, indirect hints of an indirect jump, return sites of direct and *)
(* indirect calls) occurs once more in the graph for that function.  In a  *)
(* well-formed normalised program (C08) the closure adds nothing: the      *)
(* pairs are exactly the listed blocks.  The general form is kept because  *)
(* the repository's own graph test uses a program with a shared block      *)
(* (MC_Cfg checks the specification against it).                           *)
(* A pair is <<s, t>>: sub index s, block TID t.                           *)
(***************************************************************************)
\* first block of the program (in sub order, then block order) with TID t: Program::find_block
FindBlock(P, t) ==
  LET refs == {r \in BlkRefs(P) : BlkAt(P, r).tid = t}
      first == CHOOSE r \in refs : \A q \in refs : r[1] < q[1] \/ (r[1] = q[1] /\ r[2] <= q[2])
  IN  BlkAt(P, first)
\* the block term behind the pair <<s, t>>
BlockFor(P, s, t) ==
  IF t \in BlkTidsOfSub(P, s)
    THEN P.subs[s].blocks[CHOOSE b \in DOMAIN P.subs[s].blocks :
                            /\ P.subs[s].blocks[b].tid = t
                            /\ \A x \in DOMAIN P.subs[s].blocks : P.subs[s].blocks[x].tid = t => b <= x]
    ELSE FindBlock(P, t)
\* TIDs of the blocks control may continue at inside the same function
IntraSuccTids(blk) ==
  UNION {LET j == blk.jmps[i] IN
         CASE IsDirectJump(j) -> {j.t}
           [] j.k = "branchind" -> {blk.ind[h] : h \in DOMAIN blk.ind}
           [] j.k \in {"call", "callind"} -> IF j.ret # NoTid THEN {j.ret} ELSE {}
           [] OTHER -> {}
         : i \in DOMAIN blk.jmps}
RECURSIVE BlkClosure(_, _, _)
BlkClosure(P, s, T) ==
  LET T2 == T \cup UNION {IntraSuccTids(BlockFor(P, s, t)) : t \in T}
  IN  IF T2 = T THEN T ELSE BlkClosure(P, s, T2)
Pairs(P) == UNION {{<<s, t>> : t \in BlkClosure(P, s, BlkTidsOfSub(P, s))} : s \in SubIx(P)}
\* The pair table: pair -> block term.  Every operator below that takes T expects
\* T = PairTable(P); Graph(P) computes it once per program (TLC re-evaluates operators with
\* arguments on every use, so the table is passed around instead of being recomputed).
PairTable(P) == [p \in Pairs(P) |-> BlockFor(P, p[1], p[2])]
\* <<s, t, j>> : jump j of the block of pair <<s, t>>
TJmps(T) == UNION {{<<p[1], p[2], j>> : j \in DOMAIN T[p].jmps} : p \in DOMAIN T}
TJmp(T, c) == T[<<c[1], c[2]>>].jmps[c[3]]
PairOfJmp(c) == <<c[1], c[2]>>
\* pairs of function s whose block contains a Return instruction
ReturningPairs(T, s) == {p \in DOMAIN T : p[1] = s /\ BlockReturns(T[p])}

(***************************************************************************)
(* Nodes                                                                   *)
(***************************************************************************)
Node(k, blk, sub, blk2, sub2) == [k |-> k, blk |-> blk, sub |-> sub, blk2 |-> blk2, sub2 |-> sub2]
\* BlkStart / BlkEnd of the block with TID t in function s
StartOf(P, s, t) == Node("BlkStart", t, SubTid(P, s), NoTid, NoTid)
EndOf(P, s, t) == Node("BlkEnd", t, SubTid(P, s), NoTid, NoTid)
NStart(P, p) == StartOf(P, p[1], p[2])
NEnd(P, p) == EndOf(P, p[1], p[2])
EntryTid(P, s) == P.subs[s].blocks[1].tid

\* Calls to internal functions that get call linkage: direct calls whose target is not an
\* extern symbol and is a function with at least one block.  (Calls to empty functions create
\* nothing.)
InternalCalls(P, T) ==
  {c \in TJmps(T) :
     LET j == TJmp(T, c) IN
     /\ j.k = "call"
     /\ j.t \notin ExternTids(P)
     /\ j.t \in SubTids(P)
     /\ HasBlocks(P, SubByTid(P, j.t))}
Callee(P, T, c) == SubByTid(P, TJmp(T, c).t)
NCallSource(P, T, c) ==
  LET cs == Callee(P, T, c) IN
  Node("CallSource", c[2], SubTid(P, c[1]), EntryTid(P, cs), SubTid(P, cs))
\* <<s, t, j, rt>> : internal call <<s,t,j>> WITH a return site, paired with a returning block
\* <<callee, rt>> of its callee
CallReturnPairs(P, T, calls) ==
  UNION {{<<c[1], c[2], c[3], rp[2]>> : rp \in ReturningPairs(T, Callee(P, T, c))} :
         c \in {x \in calls : TJmp(T, x).ret # NoTid}}
CallOfPair(q) == <<q[1], q[2], q[3]>>
RetPairOf(P, T, q) == <<Callee(P, T, CallOfPair(q)), q[4]>>
NCallReturn(P, T, q) ==
  Node("CallReturn", q[2], SubTid(P, q[1]), q[4], SubTid(P, Callee(P, T, CallOfPair(q))))

(***************************************************************************)
(* Edges                                                                   *)
(***************************************************************************)
Edge(k, src, dst, jmp, untaken) == [k |-> k, src |-> src, dst |-> dst, jmp |-> jmp, untaken |-> untaken]
\* the second jump of a block is only taken if the first (conditional) one is not
Untaken(T, c) == IF c[3] = 2 THEN T[<<c[1], c[2]>>].jmps[1].tid ELSE NoTid

BlockEdges(P, T) == BagOfImage(DOMAIN T, LAMBDA p : Edge("Block", NStart(P, p), NEnd(P, p), NoTid, NoTid))

DirectJumpEdges(P, T) ==
  BagOfImage({c \in TJmps(T) : IsDirectJump(TJmp(T, c))},
             LAMBDA c : Edge("Jump", NEnd(P, PairOfJmp(c)), StartOf(P, c[1], TJmp(T, c).t), TJmp(T, c).tid, Untaken(T, c)))

\* <<s, t, j, h>> : hint h of the block of the indirect jump <<s,t,j>> (a hint listed twice gives two edges)
IndirectJumps(T) ==
  UNION {{<<c[1], c[2], c[3], h>> : h \in DOMAIN T[PairOfJmp(c)].ind} :
         c \in {x \in TJmps(T) : TJmp(T, x).k = "branchind"}}
IndirectJumpEdges(P, T) ==
  BagOfImage(IndirectJumps(T),
             LAMBDA q : LET c == <<q[1], q[2], q[3]>> IN
                        Edge("Jump", NEnd(P, PairOfJmp(c)), StartOf(P, c[1], T[PairOfJmp(c)].ind[q[4]]),
                             TJmp(T, c).tid, Untaken(T, c)))

\* extern calls and indirect calls that return: one stub edge from the call site to the return site
StubCalls(P, T) ==
  {c \in TJmps(T) :
     LET j == TJmp(T, c) IN
     \/ j.k = "call" /\ j.t \in ExternTids(P) /\ j.ret # NoTid
     \/ j.k = "callind" /\ j.ret # NoTid}
ExternStubEdges(P, T) ==
  BagOfImage(StubCalls(P, T),
             LAMBDA c : Edge("ExternCallStub", NEnd(P, PairOfJmp(c)), StartOf(P, c[1], TJmp(T, c).ret), TJmp(T, c).tid, NoTid))

CallCombineEdges(P, T, calls) ==
  BagOfImage(calls, LAMBDA c : Edge("CallCombine", NEnd(P, PairOfJmp(c)), NCallSource(P, T, c), TJmp(T, c).tid, NoTid))
CallEdges(P, T, calls) ==
  BagOfImage(calls, LAMBDA c : LET cs == Callee(P, T, c) IN
                               Edge("Call", NCallSource(P, T, c), StartOf(P, cs, EntryTid(P, cs)), TJmp(T, c).tid, NoTid))

\* per (call with return site, returning block of the callee): three edges around the CallReturn node
CrCallStubEdges(P, T, crs) ==
  BagOfImage(crs, LAMBDA q : Edge("CrCallStub", NCallSource(P, T, CallOfPair(q)), NCallReturn(P, T, q), NoTid, NoTid))
CrReturnStubEdges(P, T, crs) ==
  BagOfImage(crs, LAMBDA q : Edge("CrReturnStub", NEnd(P, RetPairOf(P, T, q)), NCallReturn(P, T, q), NoTid, NoTid))
ReturnCombineEdges(P, T, crs) ==
  BagOfImage(crs, LAMBDA q : LET c == CallOfPair(q) IN
                             Edge("ReturnCombine", NCallReturn(P, T, q), StartOf(P, c[1], TJmp(T, c).ret), TJmp(T, c).tid, NoTid))

(***************************************************************************)
(* The graph of a program: [nodes |-> bag, edges |-> bag].                 *)
(* Nothing is generated for CallOther, for Return instructions without a   *)
(* matching call, for calls to empty functions; no stub / return linkage   *)
(* for calls without return site.                                          *)
(***************************************************************************)
Graph(P) ==
  LET T == PairTable(P)
      calls == InternalCalls(P, T)
      crs == CallReturnPairs(P, T, calls)
  IN  [nodes |->
         BagPlus(BagPlus(BagOfImage(DOMAIN T, LAMBDA p : NStart(P, p)),
                         BagOfImage(DOMAIN T, LAMBDA p : NEnd(P, p))),
                 BagPlus(BagOfImage(calls, LAMBDA c : NCallSource(P, T, c)),
                         BagOfImage(crs, LAMBDA q : NCallReturn(P, T, q)))),
       edges |->
         BagPlus(BlockEdges(P, T),
         BagPlus(DirectJumpEdges(P, T),
         BagPlus(IndirectJumpEdges(P, T),
         BagPlus(ExternStubEdges(P, T),
         BagPlus(CallCombineEdges(P, T, calls),
         BagPlus(CallEdges(P, T, calls),
         BagPlus(CrCallStubEdges(P, T, crs),
         BagPlus(CrReturnStubEdges(P, T, crs), ReturnCombineEdges(P, T, crs)))))))))]
\* convenience forms (each evaluates Graph(P) again: bind Graph(P) with LET when both are needed)
NodeBag(P) == Graph(P).nodes
EdgeBag(P) == Graph(P).edges
Nodes(P) == DOMAIN NodeBag(P)
Edges(P) == DOMAIN EdgeBag(P)

(***************************************************************************)
(* Entry nodes (get_entry_nodes_of_subs): function TID -> BlkStart of its  *)
(* first block, for every function that has blocks.                        *)
(***************************************************************************)
EntryNodes(P) ==
  [t \in {SubTid(P, s) : s \in {x \in SubIx(P) : HasBlocks(P, x)}} |->
     StartOf(P, SubByTid(P, t), EntryTid(P, SubByTid(P, t)))]

(***************************************************************************)
(* Helpers for walkers over the graph (taint / parameter / reachability    *)
(* specifications).  E is an edge SET, e.g. Edges(P) bound once by LET.    *)
(***************************************************************************)
AllKinds == {"Block", "Jump", "Call", "ExternCallStub", "CrCallStub", "CrReturnStub", "CallCombine", "ReturnCombine"}
\* edges that stay inside one function and follow real control flow
IntraKinds == {"Block", "Jump", "ExternCallStub"}
\* real interprocedural control flow (call into callee, return out of it)
CallKinds == {"CallCombine", "Call"}
ReturnKinds == {"CrReturnStub", "ReturnCombine"}
OutEdges(E, n, kinds) == {e \in E : e.src = n /\ e.k \in kinds}
InEdges(E, n, kinds) == {e \in E : e.dst = n /\ e.k \in kinds}
SuccE(E, n, kinds) == {e.dst : e \in OutEdges(E, n, kinds)}
PredE(E, n, kinds) == {e.src : e \in InEdges(E, n, kinds)}
Succ(P, n, kinds) == SuccE(Edges(P), n, kinds)
Pred(P, n, kinds) == PredE(Edges(P), n, kinds)
\* nodes reachable from the node set S along edges of the given kinds (least fixpoint)
RECURSIVE ReachE(_, _, _)
ReachE(E, S, kinds) ==
  LET T == S \cup UNION {SuccE(E, n, kinds) : n \in S}
  IN  IF T = S THEN S ELSE ReachE(E, T, kinds)
\* the function a BlkStart/BlkEnd node belongs to; the block term behind such a node
NodeSub(n) == n.sub
BlkOfNode(P, n) == BlockFor(P, SubByTid(P, n.sub), n.blk)

(***************************************************************************)
(* Internal consistency of the definitions above (model-checked by         *)
(* spec/mc/MC_Cfg over all tiny programs): every edge connects nodes of    *)
(* the graph, and the artificial nodes have the documented degrees.        *)
(***************************************************************************)
GraphSaneG(G) ==
  LET N == DOMAIN G.nodes
      E == DOMAIN G.edges
  IN
  /\ \A e \in E : e.src \in N /\ e.dst \in N
  /\ \A n \in N :
       /\ n.k = "BlkStart" => OutEdges(E, n, AllKinds) = {Edge("Block", n, Node("BlkEnd", n.blk, n.sub, NoTid, NoTid), NoTid, NoTid)}
       /\ n.k = "BlkEnd" => {e.k : e \in InEdges(E, n, AllKinds)} = {"Block"}
       /\ n.k = "CallSource" =>
            /\ {e.k : e \in InEdges(E, n, AllKinds)} = {"CallCombine"}
            /\ {e.k : e \in OutEdges(E, n, AllKinds)} \subseteq {"Call", "CrCallStub"}
            /\ Cardinality(OutEdges(E, n, {"Call"})) = 1
       /\ n.k = "CallReturn" =>
            /\ {e.k : e \in InEdges(E, n, AllKinds)} = {"CrCallStub", "CrReturnStub"}
            /\ Cardinality(InEdges(E, n, AllKinds)) = 2
            /\ Cardinality(OutEdges(E, n, AllKinds)) = 1
            /\ {e.k : e \in OutEdges(E, n, AllKinds)} = {"ReturnCombine"}
GraphSane(P) == GraphSaneG(Graph(P))
=============================================================================
