//! Tiny order-preserving parallel map (std threads) for process-heavy generators.
use std::sync::{Arc, Mutex};

pub fn map<T: Send + 'static, R: Send + 'static, F: Fn(T) -> R + Send + Sync + 'static>(items: Vec<T>, threads: usize, f: F) -> Vec<R> {
    let n = items.len();
    let queue: Arc<Mutex<Vec<(usize, T)>>> = Arc::new(Mutex::new(items.into_iter().enumerate().rev().collect()));
    let results: Arc<Mutex<Vec<Option<R>>>> = Arc::new(Mutex::new((0..n).map(|_| None).collect()));
    let f = Arc::new(f);
    let mut hs = Vec::new();
    for _ in 0..threads.max(1) {
        let (q, r, f) = (queue.clone(), results.clone(), f.clone());
        hs.push(std::thread::spawn(move || loop {
            let item = q.lock().unwrap().pop();
            match item {
                Some((i, x)) => {
                    let y = f(x);
                    r.lock().unwrap()[i] = Some(y);
                }
                None => break,
            }
        }));
    }
    for h in hs {
        h.join().unwrap();
    }
    let mut guard = results.lock().unwrap();
    guard.iter_mut().map(|x| x.take().unwrap()).collect()
}
