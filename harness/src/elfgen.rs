//! Minimal ELF64 little-endian writer: ET_EXEC with three PT_LOAD segments (text R+X at IMAGE_BASE,
//! rodata R, data RW with a zero-filled tail) or ET_REL with allocated sections (.text, .rodata,
//! .data, and for kernel modules .modinfo + .gnu.linkonce.this_module).  Only produces inputs.
#![allow(dead_code)]
use crate::pcodegen::{DATA_BASE, IMAGE_BASE, RODATA_BASE};

fn w16(v: &mut Vec<u8>, x: u16) { v.extend_from_slice(&x.to_le_bytes()) }
fn w32(v: &mut Vec<u8>, x: u32) { v.extend_from_slice(&x.to_le_bytes()) }
fn w64(v: &mut Vec<u8>, x: u64) { v.extend_from_slice(&x.to_le_bytes()) }

fn ehdr(e_type: u16, entry: u64, phoff: u64, phnum: u16, shoff: u64, shnum: u16, shstrndx: u16) -> Vec<u8> {
    let mut v = vec![0x7f, b'E', b'L', b'F', 2, 1, 1, 0, 0, 0, 0, 0, 0, 0, 0, 0];
    w16(&mut v, e_type);
    w16(&mut v, 62); // EM_X86_64
    w32(&mut v, 1);
    w64(&mut v, entry);
    w64(&mut v, phoff);
    w64(&mut v, shoff);
    w32(&mut v, 0);
    w16(&mut v, 64);
    w16(&mut v, 56);
    w16(&mut v, phnum);
    w16(&mut v, 64);
    w16(&mut v, shnum);
    w16(&mut v, shstrndx);
    v
}

fn phdr(flags: u32, offset: u64, vaddr: u64, filesz: u64, memsz: u64) -> Vec<u8> {
    let mut v = Vec::new();
    w32(&mut v, 1); // PT_LOAD
    w32(&mut v, flags);
    w64(&mut v, offset);
    w64(&mut v, vaddr);
    w64(&mut v, vaddr);
    w64(&mut v, filesz);
    w64(&mut v, memsz);
    w64(&mut v, 0x1000);
    v
}

const TEXT_LEN: u64 = RODATA_BASE - IMAGE_BASE;
const RODATA_LEN: u64 = DATA_BASE - RODATA_BASE;

/// ET_EXEC image; `rodata` is placed at RODATA_BASE, `data` at DATA_BASE (+ 0x800 zero bytes of bss).
pub fn exec(rodata: &[u8], data: &[u8]) -> Vec<u8> {
    let mut f = ehdr(2, IMAGE_BASE + 0x1100, 64, 3, 0, 0, 0);
    let data_len = (data.len() as u64 + 0xf) & !0xf;
    f.extend(phdr(5, 0, IMAGE_BASE, TEXT_LEN, TEXT_LEN));
    f.extend(phdr(4, TEXT_LEN, RODATA_BASE, RODATA_LEN, RODATA_LEN));
    f.extend(phdr(6, TEXT_LEN + RODATA_LEN, DATA_BASE, data_len, data_len + 0x800));
    f.resize(TEXT_LEN as usize, 0x90);
    f.extend_from_slice(rodata);
    f.resize((TEXT_LEN + RODATA_LEN) as usize, 0);
    f.extend_from_slice(data);
    f.resize((TEXT_LEN + RODATA_LEN + data_len) as usize, 0);
    f
}

/// ET_REL object; with `lkm` the two marker sections of a Linux kernel module are present.
pub fn rel(rodata: &[u8], data: &[u8], lkm: bool) -> Vec<u8> {
    // section table: 0 null, 1 .text, 2 .rodata, 3 .data, [4 .modinfo, 5 .gnu.linkonce.this_module,] last .shstrtab
    let mut names: Vec<&str> = vec!["", ".text", ".rodata", ".data"];
    if lkm {
        names.push(".modinfo");
        names.push(".gnu.linkonce.this_module");
    }
    names.push(".shstrtab");
    let mut strtab = Vec::new();
    let mut name_off = Vec::new();
    for n in &names {
        name_off.push(strtab.len() as u32);
        strtab.extend_from_slice(n.as_bytes());
        strtab.push(0);
    }
    let data_len = ((data.len() as u64 + 0xf) & !0xf).max(0x1000);
    let mut body = vec![0u8; 64];
    let text_off = body.len() as u64;
    body.resize((text_off + TEXT_LEN) as usize, 0x90);
    let ro_off = body.len() as u64;
    body.extend_from_slice(rodata);
    body.resize((ro_off + RODATA_LEN) as usize, 0);
    let data_off = body.len() as u64;
    body.extend_from_slice(data);
    body.resize((data_off + data_len) as usize, 0);
    let modinfo = b"license=GPL\0name=verif\0".to_vec();
    let mi_off = body.len() as u64;
    let mut tm_off = 0;
    if lkm {
        body.extend_from_slice(&modinfo);
        while body.len() % 16 != 0 { body.push(0) }
        tm_off = body.len() as u64;
        body.resize(body.len() + 0x100, 0);
    }
    let str_off = body.len() as u64;
    body.extend_from_slice(&strtab);
    while body.len() % 8 != 0 { body.push(0) }
    let shoff = body.len() as u64;
    let sh = |name: u32, ty: u32, flags: u64, off: u64, size: u64, align: u64| {
        let mut v = Vec::new();
        w32(&mut v, name); w32(&mut v, ty); w64(&mut v, flags); w64(&mut v, 0); w64(&mut v, off); w64(&mut v, size);
        w32(&mut v, 0); w32(&mut v, 0); w64(&mut v, align); w64(&mut v, 0);
        v
    };
    let mut shdrs = sh(0, 0, 0, 0, 0, 0);
    shdrs.extend(sh(name_off[1], 1, 2 | 4, text_off, TEXT_LEN, 16));
    shdrs.extend(sh(name_off[2], 1, 2, ro_off, RODATA_LEN, 16));
    shdrs.extend(sh(name_off[3], 1, 2 | 1, data_off, data_len, 16));
    if lkm {
        shdrs.extend(sh(name_off[4], 1, 2, mi_off, modinfo.len() as u64, 1));
        shdrs.extend(sh(name_off[5], 1, 2 | 1, tm_off, 0x100, 16));
    }
    let shnum = names.len() as u16;
    shdrs.extend(sh(name_off[names.len() - 1], 3, 0, str_off, strtab.len() as u64, 1));
    let hdr = ehdr(1, 0, 0, 0, shoff, shnum, shnum - 1);
    body[..64].copy_from_slice(&hdr);
    body.extend(shdrs);
    body
}
