//! cwe_conf: conformance harness.  Generates inputs, calls the REAL cwe_checker code, records
//! ndjson traces for TLC.  It never decides a property.
mod cfgenc;
mod domenc;
mod enc;
mod guard;
mod irenc;
mod irgen;
mod latgen;
mod pigen;
mod pcodegen;
mod penc;
mod pblockgen;
mod elfgen;
mod cli;
mod par;
mod walkgen;
mod walkrun;
mod exprgen;
mod ivgen;
mod out;
mod props;
mod rng;

use out::Out;

fn usage() -> ! {
    eprintln!("usage: cwe_conf gen <Cxx> --seed N --tier quick|thorough --out DIR [--shards K]\n       cwe_conf replay <Cxx> <replay.json> --out DIR");
    std::process::exit(2)
}

fn main() {
    let args: Vec<String> = std::env::args().collect();
    if args.len() < 3 {
        usage();
    }
    // a panic of code under test is data: silence the default hook output
    // (CWE_CONF_DEBUG / VERIF_PANIC_TRACE / VERIF_DEBUG keep the default hook, to debug the harness itself)
    let keep_hook = ["CWE_CONF_DEBUG", "VERIF_PANIC_TRACE", "VERIF_DEBUG", "VERIF_SHOW_PANICS"].iter().any(|v| std::env::var_os(v).is_some());
    if !keep_hook {
        std::panic::set_hook(Box::new(|_| {}));
    }
    let mut seed = 1u64;
    let mut tier = "quick".to_string();
    let mut outdir = String::new();
    let mut shards = 8usize;
    let mut pos = Vec::new();
    let mut i = 3;
    while i < args.len() {
        match args[i].as_str() {
            "--seed" => { seed = args[i + 1].parse().unwrap(); i += 1 }
            "--tier" => { tier = args[i + 1].clone(); i += 1 }
            "--out" => { outdir = args[i + 1].clone(); i += 1 }
            "--shards" => { shards = args[i + 1].parse().unwrap(); i += 1 }
            other => pos.push(other.to_string()),
        }
        i += 1;
    }
    if outdir.is_empty() {
        usage();
    }
    let prop = args[2].as_str();
    match args[1].as_str() {
        "gen" => {
            let mut out = Out::new(&outdir, shards, seed, &tier);
            if !props::gen(prop, &mut out) {
                eprintln!("unknown property {}", prop);
                std::process::exit(2);
            }
            out.finish();
        }
        "replay" => {
            let text = std::fs::read_to_string(&pos[0]).expect("replay file");
            let rep: serde_json::Value = serde_json::from_str(&text).expect("replay json");
            let mut out = Out::new(&outdir, 1, seed, &tier);
            let run: Vec<serde_json::Value> = rep["run"].as_array().cloned().unwrap_or_default();
            match props::replay(prop, &run) {
                Some(events) => out.emit(events, true),
                None => { eprintln!("unknown property {}", prop); std::process::exit(2) }
            }
            out.finish();
        }
        _ => usage(),
    }
}
