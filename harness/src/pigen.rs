//! Seeded generator of SINGLE-FUNCTION loop-and-branch programs for property C13 (pointer inference
//! never excludes runtime values) and of initial register files for them.  It only generates
//! (coverage); it decides nothing.
//!
//! INPUT CLASS (the quantifier of C13; everything emitted stays inside it):
//! * one function `sub_00001000` with calling convention `__stdcall`, <= `max_blocks` blocks, no
//!   calls, no indirect jumps; every block ends in `Branch`, `CBranch + Branch` or `Return`;
//! * 8-byte registers RAX RBX RCX RDX RSI RDI R8 R9, stack pointer RSP, 1-byte flags ZF CF that
//!   only ever hold 0/1 (assigned from comparisons / boolean operations only; 0/1 at entry);
//! * well-sized integer expressions (no float, no `Unknown`), temporaries defined before use in the
//!   same block;
//! * memory accesses are (a) stack accesses `[RSP + c]` / `[p + c]` where p was assigned `RSP + c'`
//!   in the same straight-line sequence or is the reserved pointer of a stack-walk loop (all within
//!   a window of a few hundred bytes around the entry stack pointer), and (b) accesses to small
//!   ABSOLUTE addresses (constants / registers holding small constants, well away from the stack) -
//!   the latter exist to exercise the NULL-dereference clause of the property; parameter registers
//!   are never dereferenced;
//! * conditions are boolean-valued (comparisons, flags, BoolNegate/And/Or of those).
//!
//! SHAPES: counter loops with a constant bound (widening with hints), with a register bound, with
//! `!=` exit tests, down-counting loops, stack-walk loops, loops whose exit test is on another
//! register; while and do-while forms, nesting; if/else on signed / unsigned / equality comparisons
//! against constants, registers and register+constant (incl. a register against itself or against
//! itself plus a constant - both sides then carry the same abstract identifier); conditions through
//! a flag register, negated, conjunctions/disjunctions, the raw x86 `SF != OF` form, comparisons of
//! 4-byte subpieces; register arithmetic incl. subpiece / zero- and sign-extension / shifts /
//! multiplication / division by constants; pointers that are one of two small absolute constants
//! depending on a condition (possibly NULL) and are then dereferenced; registers holding one of two
//! constants (incl. wider than 4 bytes) that are then tested directly or through their low bytes; compound
//! conditions `a && b`, `a || b`, `!(..)` in both operand orders where one operand is decided by constants of
//! the block (known true / known false, also through a flag) and the other tests an unknown or
//! interval-valued register; stack spills and reloads at constant offsets across
//! branches, partial (1/2/4-byte) and overlapping / misaligned stores and loads, prologue/epilogue
//! stack-pointer adjustments, early returns.
#![allow(dead_code)]
use crate::enc::bv_i64;
use crate::irgen::{reg, tid};
use crate::rng::Rng;
use cwe_checker_lib::intermediate_representation::*;
use std::collections::BTreeMap;

pub const GPR: [&str; 8] = ["RAX", "RBX", "RCX", "RDX", "RSI", "RDI", "R8", "R9"];
pub const PARAMS: [&str; 6] = ["RDI", "RSI", "RDX", "RCX", "R8", "R9"];
pub const FLAGS: [&str; 2] = ["ZF", "CF"];
pub const SP: &str = "RSP";

#[derive(Clone)]
pub struct PiKnobs {
    pub max_blocks: usize,
    pub max_depth: usize,
    /// statements per sequence 1..=max_stmts
    pub max_stmts: usize,
    /// defs per straight-line piece 1..=max_defs
    pub max_defs: usize,
}
impl Default for PiKnobs {
    fn default() -> PiKnobs {
        PiKnobs { max_blocks: 10, max_depth: 2, max_stmts: 3, max_defs: 4 }
    }
}

// ------------------------------------------------------------------------------------------------
// expression builders
// ------------------------------------------------------------------------------------------------
fn v(name: &str) -> Expression {
    Expression::Var(reg(name))
}
fn tmp(name: &str, size: u64) -> Variable {
    Variable { name: name.to_string(), size: ByteSize::new(size), is_temp: true }
}
fn c(x: i64, size: u64) -> Expression {
    Expression::Const(bv_i64(x, size))
}
fn bin(op: BinOpType, l: Expression, r: Expression) -> Expression {
    Expression::BinOp { op, lhs: Box::new(l), rhs: Box::new(r) }
}
fn un(op: UnOpType, a: Expression) -> Expression {
    Expression::UnOp { op, arg: Box::new(a) }
}
fn cast(op: CastOpType, size: u64, a: Expression) -> Expression {
    Expression::Cast { op, size: ByteSize::new(size), arg: Box::new(a) }
}
fn subp(low: u64, size: u64, a: Expression) -> Expression {
    Expression::Subpiece { low_byte: ByteSize::new(low), size: ByteSize::new(size), arg: Box::new(a) }
}
fn plus(e: Expression, k: i64) -> Expression {
    if k == 0 {
        e
    } else if k > 0 {
        bin(BinOpType::IntAdd, e, c(k, 8))
    } else if k != i64::MIN && (k / 8) % 3 != 0 {
        // the two spellings of e - k: most offsets as a subtraction, some as addition of a negative constant
        bin(BinOpType::IntSub, e, c(-k, 8))
    } else {
        bin(BinOpType::IntAdd, e, c(k, 8))
    }
}
fn assign(var: &str, e: Expression) -> Def {
    Def::Assign { var: reg(var), value: e }
}

const SMALL: [i64; 22] = [0, 0, 1, 1, 2, 3, 4, 5, 7, 8, 10, 16, 31, 32, 64, 100, 127, 128, 255, 256, 1000, 4096];
const EDGE: [i64; 14] = [
    -1, -2, -8, -128, -1024, i64::MAX, i64::MIN, 0x7fff_ffff, 0x8000_0000, 0xffff_ffff, 0x1_0000_0000, 1023, 1024, -1023,
];
fn konst(rng: &mut Rng) -> i64 {
    match rng.below(10) {
        0..=6 => *rng.pick(&SMALL[..]),
        7 | 8 => *rng.pick(&EDGE[..]),
        _ => rng.next() as i64,
    }
}
fn small(rng: &mut Rng) -> i64 {
    *rng.pick(&SMALL[..])
}

// ------------------------------------------------------------------------------------------------
// statement tree
// ------------------------------------------------------------------------------------------------
#[derive(Clone, Debug)]
pub struct Cond {
    /// definitions placed at the end of the block that tests the condition (flag assignments)
    pub pre: Vec<Def>,
    pub expr: Expression,
}
#[derive(Clone, Debug)]
pub enum Stmt {
    Defs(Vec<Def>),
    If { cond: Cond, then: Vec<Stmt>, els: Vec<Stmt> },
    /// `do_while`: init; head: body; step; if cond goto head.   else: init; test: if cond { body; step; goto test }
    Loop { init: Vec<Def>, body: Vec<Stmt>, step: Vec<Def>, cond: Cond, do_while: bool },
    Return,
}

struct Gen<'a> {
    rng: &'a mut Rng,
    k: PiKnobs,
    /// registers that statements of the current region must not assign (loop counters / pointers)
    reserved: Vec<String>,
    /// number of blocks the tree generated so far will flatten to (upper estimate)
    blocks: usize,
    /// current offset of RSP relative to the entry RSP (the prologue may lower it)
    frame: i64,
    tmp_counter: u64,
    /// a register known to hold constants at this point: preferred as operand of conditions
    prefer: Option<String>,
}

impl<'a> Gen<'a> {
    fn dst(&mut self) -> String {
        for _ in 0..20 {
            let r = *self.rng.pick(&GPR[..]);
            if !self.reserved.iter().any(|x| x == r) {
                return r.to_string();
            }
        }
        "RAX".to_string()
    }
    fn src(&mut self) -> String {
        if let Some(p) = self.prefer.clone() {
            if self.rng.chance(3, 5) {
                return p;
            }
        }
        // parameter registers are read a little more often
        if self.rng.chance(1, 3) {
            self.rng.pick(&PARAMS[..]).to_string()
        } else {
            self.rng.pick(&GPR[..]).to_string()
        }
    }
    fn fresh_tmp(&mut self, size: u64) -> Variable {
        self.tmp_counter += 1;
        tmp(&format!("$U{}", self.tmp_counter), size)
    }
    /// a stack slot offset relative to the CURRENT stack pointer
    fn slot(&mut self) -> i64 {
        // slots of the own frame (at and above the lowered RSP, below the entry RSP), a few below RSP
        // (red zone) and the stack parameters / return address above the entry RSP
        let rel_entry: [i64; 12] = [-8, -16, -24, -32, -40, -48, -64, 0, 8, 16, 24, 32];
        let o = *self.rng.pick(&rel_entry[..]);
        o - self.frame
    }
    fn misalign(&mut self) -> i64 {
        match self.rng.below(8) {
            0 => 4,
            1 => 1,
            2 => 2,
            3 => -4,
            _ => 0,
        }
    }

    // ---------------------------------------------------------------- straight-line definitions
    fn arith(&mut self) -> Expression {
        use BinOpType::*;
        let a = self.src();
        match self.rng.below(16) {
            0 | 1 => c(konst(self.rng), 8),
            2 => v(&a),
            3 | 4 => plus(v(&a), small(self.rng) * if self.rng.chance(1, 3) { -1 } else { 1 }),
            5 => {
                let b = self.src();
                bin(*self.rng.pick(&[IntAdd, IntSub, IntAnd, IntOr, IntXOr, IntMult]), v(&a), v(&b))
            }
            6 => bin(*self.rng.pick(&[IntAnd, IntOr, IntXOr]), v(&a), c(*self.rng.pick(&[0xff, 0xfff, 7, -8, -16, 0xffff_ffff, 1, 0x7f]), 8)),
            7 => bin(IntMult, v(&a), c(*self.rng.pick(&[2, 3, 4, 8, 10, -1]), 8)),
            8 => bin(*self.rng.pick(&[IntLeft, IntRight, IntSRight]), v(&a), c(*self.rng.pick(&[1, 2, 3, 4, 8, 31, 32, 63]), 8)),
            9 => bin(*self.rng.pick(&[IntDiv, IntRem, IntSDiv, IntSRem]), v(&a), c(*self.rng.pick(&[2, 3, 4, 7, 8, 10, 16, -2]), 8)),
            10 => cast(CastOpType::IntZExt, 8, subp(0, 4, v(&a))),
            11 => cast(CastOpType::IntSExt, 8, subp(0, *self.rng.pick(&[1, 2, 4]), v(&a))),
            12 => cast(CastOpType::IntZExt, 8, subp(*self.rng.pick(&[1, 2, 4]), *self.rng.pick(&[1, 2, 4]), v(&a))),
            13 => un(*self.rng.pick(&[UnOpType::Int2Comp, UnOpType::IntNegate]), v(&a)),
            14 => cast(CastOpType::IntZExt, 8, bin(IntAdd, subp(0, 4, v(&a)), c(small(self.rng), 4))),
            _ => cast(CastOpType::IntZExt, 8, self.cmp_expr()),
        }
    }

    fn stack_store(&mut self, out: &mut Vec<Def>) {
        let off = self.slot() + self.misalign();
        let val = self.src();
        let addr = plus(v(SP), off);
        match self.rng.below(6) {
            0 => out.push(Def::Store { address: addr, value: subp(0, 4, v(&val)) }),
            1 => out.push(Def::Store { address: addr, value: subp(0, *self.rng.pick(&[1, 2]), v(&val)) }),
            2 => out.push(Def::Store { address: addr, value: c(konst(self.rng), 8) }),
            _ => out.push(Def::Store { address: addr, value: v(&val) }),
        }
    }
    fn stack_load(&mut self, out: &mut Vec<Def>) {
        let off = self.slot() + self.misalign();
        let d = self.dst();
        let addr = plus(v(SP), off);
        match self.rng.below(5) {
            0 => {
                let size = *self.rng.pick(&[1u64, 2, 4]);
                let t = self.fresh_tmp(size);
                out.push(Def::Load { var: t.clone(), address: addr });
                let op = if self.rng.chance(1, 2) { CastOpType::IntZExt } else { CastOpType::IntSExt };
                out.push(assign(&d, cast(op, 8, Expression::Var(t))));
            }
            _ => out.push(Def::Load { var: reg(&d), address: addr }),
        }
    }
    /// p := RSP + c ; accesses through p (and p + 8) in the same straight-line sequence
    fn pointer_piece(&mut self, out: &mut Vec<Def>) {
        let p = self.dst();
        let off = self.slot();
        out.push(assign(&p, plus(v(SP), off)));
        let n = 1 + self.rng.below(3);
        for _ in 0..n {
            let k = *self.rng.pick(&[0i64, 0, 8, -8, 4]);
            match self.rng.below(4) {
                0 => {
                    let mut d = self.dst();
                    if d == p {
                        d = if p == "RAX" { "RBX".to_string() } else { "RAX".to_string() };
                        if self.reserved.contains(&d) {
                            continue;
                        }
                    }
                    out.push(Def::Load { var: reg(&d), address: plus(v(&p), k) })
                }
                1 => {
                    // advance the pointer
                    out.push(assign(&p, plus(v(&p), *self.rng.pick(&[8i64, -8, 16]))));
                }
                _ => {
                    let s = self.src();
                    let value = if s == p { c(konst(self.rng), 8) } else { v(&s) };
                    out.push(Def::Store { address: plus(v(&p), k), value })
                }
            }
        }
        // the register keeps a stack address afterwards (it may be spilled, compared, ...)
    }
    /// access to a small absolute address (NULL-dereference clause)
    fn absolute_access(&mut self, out: &mut Vec<Def>) {
        let addr_consts: [i64; 12] = [0, 8, 16, 512, 1000, 1023, 1024, 1032, 2048, 4096, -8, -1024];
        let d = self.dst();
        let a = match self.rng.below(4) {
            0 => c(*self.rng.pick(&addr_consts[..]), 8),
            1 => {
                // through a register that is first given a small constant
                let r = self.dst();
                out.push(assign(&r, c(*self.rng.pick(&addr_consts[..]), 8)));
                plus(v(&r), *self.rng.pick(&[0i64, 8, 1024]))
            }
            _ => {
                // through whatever the register holds: only a register holding a small constant on
                // every path makes the access certain for the analysis; generated for registers that
                // were assigned constants (loop counters, merged constants).  To stay inside the input
                // class the register is masked to a small range first.
                let r = self.dst();
                let s = self.src();
                out.push(assign(&r, bin(BinOpType::IntAnd, v(&s), c(*self.rng.pick(&[0xff8i64, 0x1ff8, 0x7f8]), 8))));
                plus(v(&r), *self.rng.pick(&[0i64, 8, 1024, 4096]))
            }
        };
        if self.rng.chance(1, 2) {
            out.push(Def::Load { var: reg(&d), address: a });
        } else {
            let s = self.src();
            out.push(Def::Store { address: a, value: v(&s) });
        }
    }

    fn defs(&mut self) -> Vec<Def> {
        let n = 1 + self.rng.below(self.k.max_defs as u64);
        let mut out = Vec::new();
        for _ in 0..n {
            match self.rng.below(20) {
                0..=9 => {
                    let d = self.dst();
                    let e = self.arith();
                    out.push(assign(&d, e));
                }
                10..=12 => self.stack_store(&mut out),
                13..=15 => self.stack_load(&mut out),
                16 | 17 => self.pointer_piece(&mut out),
                18 => self.absolute_access(&mut out),
                _ => {
                    // flag from a comparison
                    let f = *self.rng.pick(&FLAGS[..]);
                    let e = self.cmp_expr();
                    out.push(assign(f, e));
                }
            }
        }
        out
    }

    // ---------------------------------------------------------------- conditions
    fn cmp_op(&mut self) -> BinOpType {
        use BinOpType::*;
        *self.rng.pick(&[IntEqual, IntNotEqual, IntLess, IntLessEqual, IntSLess, IntSLessEqual, IntEqual, IntNotEqual, IntSLess, IntLess])
    }
    /// a boolean-valued comparison expression
    fn cmp_expr(&mut self) -> Expression {
        use BinOpType::*;
        let mut op = self.cmp_op();
        let a = self.src();
        let b = self.src();
        let (l, r) = match self.rng.below(15) {
            0..=4 => (v(&a), c(konst(self.rng), 8)),
            5 => (c(konst(self.rng), 8), v(&a)),
            6 | 7 => (v(&a), v(&b)),
            8 => (plus(v(&a), small(self.rng)), v(&b)),
            9 | 10 => {
                // both sides derive from the same register (same abstract identifier for parameters and
                // stack addresses); mostly as (in)equality tests
                let a = if self.rng.chance(1, 2) { self.rng.pick(&PARAMS[..]).to_string() } else { a };
                if self.rng.chance(2, 3) {
                    op = if self.rng.chance(1, 2) { IntEqual } else { IntNotEqual };
                }
                let k = *self.rng.pick(&[0i64, 1, 1, 8, -1]);
                if self.rng.chance(1, 2) { (plus(v(&a), k), v(&a)) } else { (v(&a), plus(v(&a), k)) }
            }
            11 => (subp(0, 4, v(&a)), c(konst(self.rng), 4)),
            12 => (bin(IntSub, v(&a), c(small(self.rng), 8)), c(0, 8)),
            13 => (bin(IntAnd, v(&a), c(*self.rng.pick(&[1i64, 3, 7, 0xff]), 8)), c(*self.rng.pick(&[0i64, 1]), 8)),
            _ => {
                // raw x86 signed-less: SF != OF
                let k = c(konst(self.rng), 8);
                return bin(IntNotEqual, bin(IntSLess, bin(IntSub, v(&a), k.clone()), c(0, 8)), bin(IntSBorrow, v(&a), k));
            }
        };
        bin(op, l, r)
    }
    fn cond_from(&mut self, e: Expression) -> Cond {
        match self.rng.below(10) {
            0 | 1 => {
                let f = *self.rng.pick(&FLAGS[..]);
                Cond { pre: vec![assign(f, e)], expr: v(f) }
            }
            2 => {
                let f = *self.rng.pick(&FLAGS[..]);
                Cond { pre: vec![assign(f, e)], expr: un(UnOpType::BoolNegate, v(f)) }
            }
            3 => Cond { pre: vec![], expr: un(UnOpType::BoolNegate, e) },
            4 => {
                let e2 = self.cmp_expr();
                Cond { pre: vec![], expr: bin(*self.rng.pick(&[BinOpType::BoolAnd, BinOpType::BoolOr]), e, e2) }
            }
            _ => Cond { pre: vec![], expr: e },
        }
    }
    fn cond(&mut self) -> Cond {
        let e = self.cmp_expr();
        self.cond_from(e)
    }

    // ---------------------------------------------------------------- statements
    fn seq(&mut self, depth: usize) -> Vec<Stmt> {
        let n = 1 + self.rng.below(self.k.max_stmts as u64);
        let mut out = Vec::new();
        for _ in 0..n {
            let room = self.blocks + 4 <= self.k.max_blocks;
            let x = self.rng.below(10);
            if room && self.rng.chance(1, 12) {
                self.maybe_null_pointer(&mut out);
            } else if room && depth < self.k.max_depth && self.rng.chance(1, 5) {
                self.compound_known_test(&mut out, depth);
            } else if room && depth < self.k.max_depth && self.rng.chance(1, 8) {
                self.const_merge_test(&mut out, depth);
            } else if depth < self.k.max_depth && room && x < 3 {
                out.push(self.if_stmt(depth));
            } else if depth < self.k.max_depth && room && x < 6 {
                out.push(self.loop_stmt(depth));
            } else {
                out.push(Stmt::Defs(self.defs()));
            }
        }
        out
    }
    /// `p = cond ? c1 : c2; ... access [p + k]` with small absolute constants: after the join the address
    /// is a non-singleton set that may start or end inside the NULL window
    fn maybe_null_pointer(&mut self, out: &mut Vec<Stmt>) {
        let addr_consts: [i64; 12] = [0, 0, 8, 1000, 1016, 1024, 1024, 1032, 2048, 4096, -1024, -2048];
        let p = self.dst();
        let cond = self.cond();
        self.blocks += 3;
        let c1 = *self.rng.pick(&addr_consts[..]);
        let c2 = *self.rng.pick(&addr_consts[..]);
        out.push(Stmt::If { cond, then: vec![Stmt::Defs(vec![assign(&p, c(c1, 8))])], els: vec![Stmt::Defs(vec![assign(&p, c(c2, 8))])] });
        let k = *self.rng.pick(&[0i64, 0, 8, 24, -8]);
        let mut d = Vec::new();
        let other = self.dst();
        if self.rng.chance(1, 2) && other != p {
            d.push(Def::Load { var: reg(&other), address: plus(v(&p), k) });
        } else {
            let s = self.src();
            d.push(Def::Store { address: plus(v(&p), k), value: v(&s) });
        }
        out.push(Stmt::Defs(d));
    }
    /// A comparison of register `r`, which holds the constant `k` at this point, that is decided by
    /// constants: (expression, its truth value)
    fn decided_cmp(&mut self, r: &str, k: i64) -> (Expression, bool) {
        use BinOpType::*;
        let sm = k != i64::MAX && k != i64::MIN;
        match self.rng.below(if sm { 8 } else { 4 }) {
            0 => (bin(IntEqual, v(r), c(k, 8)), true),
            1 => (bin(IntNotEqual, v(r), c(k, 8)), false),
            2 => (bin(IntEqual, c(k, 8), v(r)), true),
            3 => (bin(IntSLessEqual, v(r), c(k, 8)), true),
            4 => (bin(IntEqual, v(r), c(k + 1, 8)), false),
            5 => (bin(IntNotEqual, v(r), c(k - 1, 8)), true),
            6 => (bin(IntSLess, v(r), c(k + 1, 8)), true),
            _ => (bin(IntSLess, c(k, 8), v(r)), false),
        }
    }
    /// `r = k; [f = decided comparison of r;] if ((decided) &&/|| (test of an unknown register)) ...`
    /// in both operand orders, plain or under BoolNegate: one operand of the compound condition is
    /// known true / known false from constants of the block, the other depends on a register the
    /// analysis knows nothing or only an interval about.  Both edges are executed by some initial state
    /// (the initial register files are placed at the tested constants, see `gen_inits`).
    fn compound_known_test(&mut self, out: &mut Vec<Stmt>, depth: usize) {
        use BinOpType::*;
        self.blocks += 3;
        let r = self.dst();
        let k = if self.rng.chance(2, 3) { small(self.rng) } else { konst(self.rng) };
        let mut pre = Vec::new();
        // the unknown operand: a register that is not `r`; now and then interval-valued (one of two constants)
        let mut u = self.src();
        for _ in 0..8 {
            if u != r {
                break;
            }
            u = self.src();
        }
        if u == r {
            u = if r == "RDI" { "RSI".to_string() } else { "RDI".to_string() };
        }
        let mut uc = konst(self.rng);
        if self.rng.chance(1, 4) && !self.reserved.contains(&u) {
            let (c1, c2) = (small(self.rng), small(self.rng) + 1 + self.rng.below(20) as i64);
            let cond = self.cond();
            self.blocks += 3;
            out.push(Stmt::If { cond, then: vec![Stmt::Defs(vec![assign(&u, c(c1, 8))])], els: vec![Stmt::Defs(vec![assign(&u, c(c2, 8))])] });
            uc = if self.rng.chance(1, 2) { c1 } else { c2 };
        }
        pre.push(assign(&r, c(k, 8)));
        let (mut known, _truth) = self.decided_cmp(&r, k);
        if self.rng.chance(1, 3) {
            // through a flag that is assigned in the same block
            let f = *self.rng.pick(&FLAGS[..]);
            pre.push(assign(f, known));
            known = v(f);
        } else if self.rng.chance(1, 8) {
            known = c(self.rng.below(2) as i64, 1);
        }
        let uop = *self.rng.pick(&[IntEqual, IntNotEqual, IntEqual, IntLess, IntSLess, IntSLessEqual, IntLessEqual]);
        let unknown = if self.rng.chance(1, 5) { bin(uop, c(uc, 8), v(&u)) } else { bin(uop, v(&u), c(uc, 8)) };
        let op = if self.rng.chance(1, 2) { BoolAnd } else { BoolOr };
        let mut e = if self.rng.chance(1, 2) { bin(op, known, unknown) } else { bin(op, unknown, known) };
        if self.rng.chance(1, 3) {
            e = un(UnOpType::BoolNegate, e);
        }
        out.push(Stmt::Defs(pre));
        let saved = self.reserved.clone();
        let then = self.seq(depth + 1);
        let els = if self.rng.chance(1, 2) { self.seq(depth + 1) } else { vec![] };
        self.reserved = saved;
        out.push(Stmt::If { cond: Cond { pre: vec![], expr: e }, then, els });
    }
    /// `a = cond ? c1 : c2; [a = a op k;] if (test on a) ...`: the tested register holds an ABSOLUTE
    /// non-singleton value (small, boundary and wider-than-4-byte constants), so the refinement of
    /// absolute intervals is exercised (most other registers are Top or relative to a parameter)
    fn const_merge_test(&mut self, out: &mut Vec<Stmt>, depth: usize) {
        use BinOpType::*;
        const WIDE: [i64; 10] = [5, 0x1_0000_0005, 0xffff_ffff, -1, 0x8000_0000, 0x7fff_ffff, 0x1_0000_0000, -0x8000_0000, 0x1234_5678_9abc, 0];
        let a = self.dst();
        let cond = self.cond();
        self.blocks += 6;
        let pickc = |g: &mut Gen| if g.rng.chance(1, 2) { *g.rng.pick(&WIDE[..]) } else { konst(g.rng) };
        let (c1, c2) = (pickc(self), pickc(self));
        out.push(Stmt::If { cond, then: vec![Stmt::Defs(vec![assign(&a, c(c1, 8))])], els: vec![Stmt::Defs(vec![assign(&a, c(c2, 8))])] });
        if self.rng.chance(1, 3) {
            let e = match self.rng.below(4) {
                0 => plus(v(&a), small(self.rng)),
                1 => bin(IntMult, v(&a), c(*self.rng.pick(&[2i64, 3, 4, -1]), 8)),
                2 => bin(IntAnd, v(&a), c(*self.rng.pick(&[0xffi64, 0xffff_ffff, -8, 0xfff]), 8)),
                _ => bin(IntSub, c(small(self.rng), 8), v(&a)),
            };
            out.push(Stmt::Defs(vec![assign(&a, e)]));
        }
        // the test: the usual comparison shapes on `a`, or a test of its low bytes
        let saved = self.reserved.clone();
        self.reserved.push(a.clone());
        self.prefer = Some(a.clone());
        let cond2 = if self.rng.chance(1, 2) {
            let size = *self.rng.pick(&[4u64, 4, 2, 1]);
            let low = subp(0, size, v(&a));
            let k = if self.rng.chance(2, 3) { if self.rng.chance(1, 2) { c1 } else { c2 } } else { konst(self.rng) };
            let op = self.cmp_op();
            let e = match self.rng.below(3) {
                0 => bin(op, low, c(k, size)),
                1 => bin(op, cast(CastOpType::IntSExt, 8, low), c(bv_i64(k, size).try_to_i64().unwrap_or(k), 8)),
                _ => bin(op, cast(CastOpType::IntZExt, 8, low), c(bv_i64(k, size).try_to_u64().unwrap_or(0) as i64, 8)),
            };
            self.cond_from(e)
        } else {
            self.cond()
        };
        self.prefer = None;
        let then = self.seq(depth + 1);
        let els = if self.rng.chance(1, 2) { self.seq(depth + 1) } else { vec![] };
        self.reserved = saved;
        out.push(Stmt::If { cond: cond2, then, els });
    }
    fn if_stmt(&mut self, depth: usize) -> Stmt {
        let cond = self.cond();
        self.blocks += 2;
        let mut then = self.seq(depth + 1);
        if self.rng.chance(1, 8) {
            then.push(Stmt::Return);
        }
        let els = if self.rng.chance(1, 2) {
            self.blocks += 1;
            self.seq(depth + 1)
        } else {
            vec![]
        };
        Stmt::If { cond, then, els }
    }
    fn loop_stmt(&mut self, depth: usize) -> Stmt {
        use BinOpType::*;
        self.blocks += 3;
        let do_while = self.rng.chance(1, 2);
        let kind = self.rng.below(10);
        let ctr = self.dst();
        let saved = self.reserved.clone();
        let (init, step, cond_expr): (Vec<Def>, Vec<Def>, Expression) = match kind {
            0..=3 => {
                // up-counting with a constant or register bound
                let c0 = *self.rng.pick(&[0i64, 0, 1, -1, 2, -8, 100, -5, -16]);
                let s = *self.rng.pick(&[1i64, 1, 1, 2, 4, 8, 3]);
                let n = 1 + self.rng.below(12) as i64;
                let bound_reg = self.src();
                let bound = match self.rng.below(4) {
                    0 if bound_reg != ctr => v(&bound_reg),
                    1 if bound_reg != ctr => plus(v(&bound_reg), small(self.rng)),
                    _ => c(c0 + s * n, 8),
                };
                let op = *self.rng.pick(&[IntLess, IntSLess, IntNotEqual, IntLessEqual, IntSLessEqual, IntSLess]);
                let e = if self.rng.chance(1, 5) {
                    // bound on the left: B > ctr
                    bin(if op == IntNotEqual { IntNotEqual } else { op }, bound, v(&ctr))
                } else {
                    bin(op, v(&ctr), bound)
                };
                (vec![assign(&ctr, c(c0, 8))], vec![assign(&ctr, plus(v(&ctr), s))], e)
            }
            4 | 5 => {
                // down-counting to zero
                let start_reg = self.src();
                let start = if self.rng.chance(1, 2) || start_reg == ctr { c(1 + self.rng.below(12) as i64, 8) } else { v(&start_reg) };
                let e = match self.rng.below(3) {
                    0 => bin(IntNotEqual, v(&ctr), c(0, 8)),
                    1 => bin(IntSLess, c(0, 8), v(&ctr)),
                    _ => bin(IntLess, c(0, 8), v(&ctr)),
                };
                (vec![assign(&ctr, start)], vec![assign(&ctr, plus(v(&ctr), -1))], e)
            }
            6 | 7 => {
                // stack walk: ctr is a pointer into the own frame
                let n = 1 + self.rng.below(6) as i64;
                let base = *self.rng.pick(&[-64i64, -48, -32, -16]) - self.frame;
                let e = match self.rng.below(3) {
                    0 => bin(IntNotEqual, v(&ctr), plus(v(SP), base + 8 * n)),
                    1 => bin(IntLess, v(&ctr), plus(v(SP), base + 8 * n)),
                    _ => bin(IntNotEqual, bin(IntSub, v(&ctr), plus(v(SP), base + 8 * n)), c(0, 8)),
                };
                (vec![assign(&ctr, plus(v(SP), base))], vec![assign(&ctr, plus(v(&ctr), 8))], e)
            }
            _ => {
                // exit test on a register the body may change; no dedicated counter
                let e = self.cmp_expr();
                (vec![], vec![], e)
            }
        };
        // the counter is normally not assigned in the body (now and then it is: still a legal program);
        // the pointer of a stack walk never is (its accesses must stay on the stack)
        if kind == 6 || kind == 7 || !self.rng.chance(1, 10) {
            self.reserved.push(ctr.clone());
        }
        let mut body = self.seq(depth + 1);
        if kind == 6 || kind == 7 {
            // access through the walking pointer
            let mut d = Vec::new();
            for _ in 0..(1 + self.rng.below(2)) {
                let other = self.dst();
                if self.rng.chance(1, 2) {
                    let s = self.src();
                    let value = if s == ctr { c(small(self.rng), 8) } else { v(&s) };
                    d.push(Def::Store { address: plus(v(&ctr), *self.rng.pick(&[0i64, 0, 8])), value });
                } else if other != ctr {
                    d.push(Def::Load { var: reg(&other), address: plus(v(&ctr), *self.rng.pick(&[0i64, 0, -8])) });
                }
            }
            body.insert(0, Stmt::Defs(d));
        }
        self.reserved = saved;
        // loop tests are not negated (a negated counter test runs away); stack walks use the plain or the
        // flag form only, so that the pointer stays inside the frame window
        let cond = if kind == 6 || kind == 7 {
            if self.rng.chance(1, 3) {
                let f = *self.rng.pick(&FLAGS[..]);
                Cond { pre: vec![assign(f, cond_expr)], expr: v(f) }
            } else {
                Cond { pre: vec![], expr: cond_expr }
            }
        } else {
            loop {
                let c = self.cond_from(cond_expr.clone());
                if !matches!(c.expr, Expression::UnOp { .. }) {
                    break c;
                }
            }
        };
        Stmt::Loop { init, body, step, cond, do_while }
    }
}

// ------------------------------------------------------------------------------------------------
// flattening to blocks
// ------------------------------------------------------------------------------------------------
enum Term_ {
    Open,
    Goto(usize),
    CGoto(Expression, usize, usize),
    Ret,
}
struct Flat {
    blocks: Vec<(Vec<Def>, Term_)>,
}
impl Flat {
    fn new_block(&mut self) -> usize {
        self.blocks.push((Vec::new(), Term_::Open));
        self.blocks.len() - 1
    }
    /// lower `stmts` starting in block `cur`; returns the open block control ends in (None after a return)
    fn lower(&mut self, stmts: &[Stmt], mut cur: usize) -> Option<usize> {
        for s in stmts {
            match s {
                Stmt::Defs(d) => self.blocks[cur].0.extend(d.iter().cloned()),
                Stmt::Return => {
                    self.blocks[cur].1 = Term_::Ret;
                    return None;
                }
                Stmt::If { cond, then, els } => {
                    self.blocks[cur].0.extend(cond.pre.iter().cloned());
                    let t = self.new_block();
                    let e = if els.is_empty() { None } else { Some(self.new_block()) };
                    let join = self.new_block();
                    self.blocks[cur].1 = Term_::CGoto(cond.expr.clone(), t, e.unwrap_or(join));
                    if let Some(end) = self.lower(then, t) {
                        self.blocks[end].1 = Term_::Goto(join);
                    }
                    if let Some(e) = e {
                        if let Some(end) = self.lower(els, e) {
                            self.blocks[end].1 = Term_::Goto(join);
                        }
                    }
                    cur = join;
                }
                Stmt::Loop { init, body, step, cond, do_while } => {
                    self.blocks[cur].0.extend(init.iter().cloned());
                    if *do_while {
                        let head = self.new_block();
                        self.blocks[cur].1 = Term_::Goto(head);
                        let exit = self.new_block();
                        if let Some(end) = self.lower(body, head) {
                            self.blocks[end].0.extend(step.iter().cloned());
                            self.blocks[end].0.extend(cond.pre.iter().cloned());
                            self.blocks[end].1 = Term_::CGoto(cond.expr.clone(), head, exit);
                        }
                        cur = exit;
                    } else {
                        let test = self.new_block();
                        self.blocks[cur].1 = Term_::Goto(test);
                        let bodyb = self.new_block();
                        let exit = self.new_block();
                        self.blocks[test].0.extend(cond.pre.iter().cloned());
                        self.blocks[test].1 = Term_::CGoto(cond.expr.clone(), bodyb, exit);
                        if let Some(end) = self.lower(body, bodyb) {
                            self.blocks[end].0.extend(step.iter().cloned());
                            self.blocks[end].1 = Term_::Goto(test);
                        }
                        cur = exit;
                    }
                }
            }
        }
        Some(cur)
    }
}

pub fn sub_tid() -> Tid {
    tid("sub_00001000", "00001000")
}
fn blk_tid(b: usize) -> Tid {
    let a = format!("{:08x}", 0x1000 + 0x10 * b as u64);
    tid(&format!("blk_{}", a), &a)
}
fn instr_tid(b: usize, n: usize) -> Tid {
    let a = format!("{:08x}", 0x1000 + 0x10 * b as u64);
    tid(&format!("instr_{}_{}", a, n), &a)
}

/// One single-function program of the input class.
pub fn gen_function(rng: &mut Rng, k: &PiKnobs) -> Term<Program> {
    let frame = *rng.pick(&[0i64, 0, 8, 16, 32, 64]);
    let mut g = Gen { rng, k: k.clone(), reserved: Vec::new(), blocks: 1, frame: -frame, tmp_counter: 0, prefer: None };
    let mut stmts = Vec::new();
    // prologue: optional push of a callee-saved register, frame allocation
    let mut pro = Vec::new();
    let push = g.rng.chance(1, 3);
    if push {
        pro.push(assign(SP, plus(v(SP), -8)));
        pro.push(Def::Store { address: v(SP), value: v("RBX") });
        g.frame -= 8;
    }
    if frame > 0 {
        pro.push(assign(SP, plus(v(SP), -frame)));
    }
    if !pro.is_empty() {
        stmts.push(Stmt::Defs(pro));
    }
    stmts.extend(g.seq(0));
    // epilogue
    let mut epi = Vec::new();
    if frame > 0 {
        epi.push(assign(SP, plus(v(SP), frame)));
    }
    if push {
        epi.push(Def::Load { var: reg("RBX"), address: v(SP) });
        epi.push(assign(SP, plus(v(SP), 8)));
    }
    if !epi.is_empty() {
        stmts.push(Stmt::Defs(epi));
    }
    stmts.push(Stmt::Return);
    let raw_ret = g.rng.chance(1, 2);

    let mut flat = Flat { blocks: Vec::new() };
    let first = flat.new_block();
    flat.lower(&stmts, first);
    let mut blocks = Vec::new();
    for (b, (defs, term)) in flat.blocks.into_iter().enumerate() {
        let mut defs: Vec<Term<Def>> = defs.into_iter().enumerate().map(|(n, d)| Term { tid: instr_tid(b, n), term: d }).collect();
        let nd = defs.len();
        let jmps = match term {
            Term_::Goto(t) => vec![Term { tid: instr_tid(b, nd), term: Jmp::Branch(blk_tid(t)) }],
            Term_::CGoto(e, t, f) => vec![
                Term { tid: instr_tid(b, nd), term: Jmp::CBranch { target: blk_tid(t), condition: e } },
                Term { tid: instr_tid(b, nd + 1), term: Jmp::Branch(blk_tid(f)) },
            ],
            Term_::Ret | Term_::Open => {
                if raw_ret {
                    // x86 RET: pop the return address
                    let t = tmp("$Uret", 8);
                    defs.push(Term { tid: instr_tid(b, nd), term: Def::Load { var: t.clone(), address: v(SP) } });
                    defs.push(Term { tid: instr_tid(b, nd + 1), term: assign(SP, plus(v(SP), 8)) });
                    vec![Term { tid: instr_tid(b, nd + 2), term: Jmp::Return(Expression::Var(t)) }]
                } else {
                    vec![Term { tid: instr_tid(b, nd), term: Jmp::Return(v("RAX")) }]
                }
            }
        };
        blocks.push(Term { tid: blk_tid(b), term: Blk { defs, jmps, indirect_jmp_targets: Vec::new() } });
    }
    let st = sub_tid();
    let sub = Term { tid: st.clone(), term: Sub { name: "f".to_string(), blocks, calling_convention: Some("__stdcall".to_string()) } };
    Term {
        tid: tid("prog_00001000", "00001000"),
        term: Program {
            subs: BTreeMap::from([(st.clone(), sub)]),
            extern_symbols: BTreeMap::new(),
            entry_points: [st].into_iter().collect(),
            address_base_offset: 0,
        },
    }
}

// ------------------------------------------------------------------------------------------------
// directed programs: minimal members of the input class for shapes that matter (regressions)
// ------------------------------------------------------------------------------------------------
fn build(blocks: Vec<(Vec<Def>, Term_)>) -> Term<Program> {
    let mut out = Vec::new();
    for (b, (defs, term)) in blocks.into_iter().enumerate() {
        let defs: Vec<Term<Def>> = defs.into_iter().enumerate().map(|(n, d)| Term { tid: instr_tid(b, n), term: d }).collect();
        let nd = defs.len();
        let jmps = match term {
            Term_::Goto(t) => vec![Term { tid: instr_tid(b, nd), term: Jmp::Branch(blk_tid(t)) }],
            Term_::CGoto(e, t, f) => vec![
                Term { tid: instr_tid(b, nd), term: Jmp::CBranch { target: blk_tid(t), condition: e } },
                Term { tid: instr_tid(b, nd + 1), term: Jmp::Branch(blk_tid(f)) },
            ],
            Term_::Ret | Term_::Open => vec![Term { tid: instr_tid(b, nd), term: Jmp::Return(v("RAX")) }],
        };
        out.push(Term { tid: blk_tid(b), term: Blk { defs, jmps, indirect_jmp_targets: Vec::new() } });
    }
    let st = sub_tid();
    let sub = Term { tid: st.clone(), term: Sub { name: "f".to_string(), blocks: out, calling_convention: Some("__stdcall".to_string()) } };
    Term {
        tid: tid("prog_00001000", "00001000"),
        term: Program {
            subs: BTreeMap::from([(st.clone(), sub)]),
            extern_symbols: BTreeMap::new(),
            entry_points: [st].into_iter().collect(),
            address_base_offset: 0,
        },
    }
}

/// Hand-written programs (name, program), each a few blocks.
pub fn directed_programs() -> Vec<(&'static str, Term<Program>)> {
    use BinOpType::*;
    let ret = || (vec![], Term_::Ret);
    vec![
        // a parameter register compared with itself plus a constant (same abstract identifier, no object)
        ("same-id-ne", build(vec![(vec![], Term_::CGoto(bin(IntNotEqual, v("RDX"), plus(v("RDX"), 8)), 1, 2)), ret(), ret()])),
        ("same-id-eq", build(vec![
            (vec![assign("RCX", plus(v("RDI"), 1)), assign("RAX", plus(v("RCX"), -1))], Term_::CGoto(bin(IntEqual, v("RAX"), v("RDI")), 1, 2)),
            ret(), ret()])),
        // counter with stride 3 and a negative start, unsigned exit test
        ("strided-negative-counter", build(vec![
            (vec![assign("RSI", c(-8, 8))], Term_::Goto(1)),
            (vec![assign("RSI", plus(v("RSI"), 3))], Term_::CGoto(bin(IntLess, c(13, 8), v("RSI")), 1, 2)),
            ret()])),
        // a value that does not fit into 4 bytes, tested through its low 4 bytes
        ("subpiece-test-of-wide-value", build(vec![
            (vec![], Term_::CGoto(bin(IntEqual, v("RDI"), c(0, 8)), 1, 2)),
            (vec![assign("RAX", c(5, 8))], Term_::Goto(3)),
            (vec![assign("RAX", c(0x1_0000_0005, 8))], Term_::Goto(3)),
            (vec![], Term_::CGoto(bin(IntEqual, subp(0, 4, v("RAX")), c(5, 4)), 4, 5)),
            ret(), ret()])),
        ("zext-subpiece-test-of-wide-constant", build(vec![
            (vec![assign("RBX", c(0xffff_ffff, 8))], Term_::Goto(1)),
            (vec![], Term_::CGoto(bin(IntEqual, cast(CastOpType::IntSExt, 8, subp(0, 4, v("RBX"))), c(-1, 8)), 2, 3)),
            ret(), ret()])),
        // compound conditions with one operand decided by constants of the block (both operand orders, both
        // edges executed: the initial register files are placed at the tested constants)
        ("and-known-true-rhs", build(vec![
            (vec![Def::Load { var: reg("RAX"), address: plus(v(SP), -16) }, assign("RBX", c(3, 8))],
             Term_::CGoto(bin(BoolAnd, bin(IntEqual, v("RAX"), c(0, 8)), bin(IntEqual, v("RBX"), c(3, 8))), 1, 2)),
            ret(), ret()])),
        ("and-known-true-lhs", build(vec![
            (vec![assign("RBX", c(3, 8)), assign("ZF", bin(IntEqual, v("RBX"), c(3, 8)))],
             Term_::CGoto(bin(BoolAnd, v("ZF"), bin(IntSLess, v("RSI"), c(10, 8))), 1, 2)),
            ret(), ret()])),
        ("or-known-false-lhs", build(vec![
            (vec![assign("RCX", c(7, 8))],
             Term_::CGoto(bin(BoolOr, bin(IntEqual, v("RCX"), c(8, 8)), bin(IntEqual, v("RDX"), c(100, 8))), 1, 2)),
            ret(), ret()])),
        ("or-known-false-rhs", build(vec![
            (vec![assign("RCX", c(7, 8))],
             Term_::CGoto(bin(BoolOr, bin(IntLess, v("R8"), c(16, 8)), bin(IntNotEqual, v("RCX"), c(7, 8))), 1, 2)),
            ret(), ret()])),
        ("not-and-known-true-rhs", build(vec![
            (vec![assign("RBX", c(-1, 8))],
             Term_::CGoto(un(UnOpType::BoolNegate, bin(BoolAnd, bin(IntNotEqual, v("R9"), c(5, 8)), bin(IntSLess, v("RBX"), c(0, 8)))), 1, 2)),
            ret(), ret()])),
        // pointer that is NULL or a valid absolute address, dereferenced after the join
        ("maybe-null", build(vec![
            (vec![], Term_::CGoto(bin(IntSLess, v("RSI"), c(0, 8)), 1, 2)),
            (vec![assign("RBX", c(0, 8))], Term_::Goto(3)),
            (vec![assign("RBX", c(1024, 8))], Term_::Goto(3)),
            (vec![Def::Load { var: reg("RAX"), address: v("RBX") }], Term_::Goto(4)),
            ret()])),
        // spill, branch, reload with a smaller and a misaligned access
        ("spill-reload", build(vec![
            (vec![assign(SP, plus(v(SP), -32)), Def::Store { address: plus(v(SP), 8), value: v("RDI") },
                  Def::Store { address: plus(v(SP), 16), value: c(7, 8) }], Term_::CGoto(bin(IntLess, v("RSI"), c(10, 8)), 1, 2)),
            (vec![Def::Store { address: plus(v(SP), 12), value: subp(0, 4, v("RSI")) }], Term_::Goto(2)),
            (vec![Def::Load { var: reg("RAX"), address: plus(v(SP), 8) }, Def::Load { var: reg("RBX"), address: plus(v(SP), 16) },
                  Def::Load { var: tmp("$U1", 4), address: plus(v(SP), 16) }, assign("RCX", cast(CastOpType::IntZExt, 8, Expression::Var(tmp("$U1", 4)))),
                  assign(SP, plus(v(SP), 32))], Term_::Ret)])),
    ]
}

// ------------------------------------------------------------------------------------------------
// initial register files
// ------------------------------------------------------------------------------------------------
fn collect_consts(e: &Expression, out: &mut Vec<i64>) {
    match e {
        Expression::Const(b) => {
            if let Ok(x) = b.try_to_i64() {
                out.push(x)
            }
        }
        Expression::BinOp { lhs, rhs, .. } => {
            collect_consts(lhs, out);
            collect_consts(rhs, out)
        }
        Expression::UnOp { arg, .. } | Expression::Cast { arg, .. } | Expression::Subpiece { arg, .. } => collect_consts(arg, out),
        _ => (),
    }
}
fn collect_tests(e: &Expression, out: &mut Vec<(String, i64)>) {
    if let Expression::BinOp { op, lhs, rhs } = e {
        use BinOpType::*;
        if matches!(op, IntEqual | IntNotEqual | IntLess | IntLessEqual | IntSLess | IntSLessEqual) {
            match (&**lhs, &**rhs) {
                (Expression::Var(x), Expression::Const(k)) | (Expression::Const(k), Expression::Var(x)) => {
                    if let Ok(k) = k.try_to_i64() {
                        if u64::from(x.size) == 8 {
                            out.push((x.name.clone(), k))
                        }
                    }
                }
                _ => (),
            }
        }
        collect_tests(lhs, out);
        collect_tests(rhs, out);
    } else if let Expression::UnOp { arg, .. } | Expression::Cast { arg, .. } | Expression::Subpiece { arg, .. } = e {
        collect_tests(arg, out)
    }
}
/// all (register, constant) pairs that a branch condition or a flag assignment compares directly
pub fn tests_of(sub: &Term<Sub>) -> Vec<(String, i64)> {
    let mut out = Vec::new();
    for b in &sub.term.blocks {
        for d in &b.term.defs {
            if let Def::Assign { value, .. } = &d.term {
                collect_tests(value, &mut out)
            }
        }
        for j in &b.term.jmps {
            if let Jmp::CBranch { condition, .. } = &j.term {
                collect_tests(condition, &mut out)
            }
        }
    }
    out.sort();
    out.dedup();
    out
}
/// all constants of the function (sign-extended to i64)
pub fn constants_of(sub: &Term<Sub>) -> Vec<i64> {
    let mut out = Vec::new();
    for b in &sub.term.blocks {
        for d in &b.term.defs {
            match &d.term {
                Def::Assign { value, .. } => collect_consts(value, &mut out),
                Def::Load { address, .. } => collect_consts(address, &mut out),
                Def::Store { address, value } => {
                    collect_consts(address, &mut out);
                    collect_consts(value, &mut out)
                }
            }
        }
        for j in &b.term.jmps {
            if let Jmp::CBranch { condition, .. } = &j.term {
                collect_consts(condition, &mut out)
            }
        }
    }
    out.sort();
    out.dedup();
    out
}

/// `n` initial register files (register name -> value) for a function: random, boundary and values at
/// the function's constants +-1 (in particular at the constants a register is compared with) and at the edges of the NULL window; several registers share a value now and then; RSP is a large aligned
/// address far away from every small absolute address; flags hold 0/1.
pub fn gen_inits(rng: &mut Rng, consts: &[i64], tests: &[(String, i64)], n: usize, register_set: &[Variable]) -> Vec<Vec<(String, u64, u64)>> {
    let mut out = Vec::new();
    for i in 0..n {
        let mut regs: Vec<(String, u64, u64)> = Vec::new();
        let style = if i == 0 { 0 } else { rng.below(4) };
        let mut last: u64 = 0;
        for r in register_set.iter().filter(|r| r.name != SP && u64::from(r.size) == 8) {
            let r = r.name.as_str();
            // a register that is compared with constants sits at one of them (or next to it) in every
            // second file, so that both edges of the test are executed
            let mine: Vec<i64> = tests.iter().filter(|(x, _)| x == r).map(|(_, k)| *k).collect();
            if style != 0 && !mine.is_empty() && rng.chance(1, 2) {
                let x = (*rng.pick(&mine)).wrapping_add(*rng.pick(&[0i64, 0, 1, -1])) as u64;
                last = x;
                regs.push((r.to_string(), x, 8));
                continue;
            }
            let x: u64 = match (style, rng.below(10)) {
                (0, _) => rng.next(),                                        // first file: fully random
                (_, 0) if !regs.is_empty() => last,                          // equal to the previous register
                (_, 1 | 2 | 3) if !consts.is_empty() => (*rng.pick(consts)).wrapping_add(rng.range(-1, 1)) as u64,
                (1, _) => rng.below(20),                                     // small (loops terminate)
                (_, 4) => *rng.pick(&EDGE[..]) as u64,
                // the edges of the NULL window (+-1024), also below arbitrary high bits (addresses are
                // often formed by masking a register)
                (_, 8) => {
                    let e = *rng.pick(&[1024i64, 1023, 1025, 1032, 1016, -1024, -1023, -1025, 0]) as u64;
                    if rng.chance(1, 2) { e } else { (rng.next() & !0xffffu64) | (e & 0xffff) }
                }
                (_, 5 | 6) => rng.below(40),
                (_, 7) => (rng.below(40) as i64).wrapping_neg() as u64,
                _ => rng.next(),
            };
            last = x;
            regs.push((r.to_string(), x, 8));
        }
        // stack pointer: 0x00007ffX_XXXX_X000 + small multiple of 8
        let spv = 0x0000_7ff0_0000_0000u64 + (rng.below(1 << 24) << 12) + 8 * rng.below(4);
        regs.push((SP.to_string(), spv, 8));
        for f in register_set.iter().filter(|r| u64::from(r.size) == 1) {
            regs.push((f.name.clone(), rng.below(2), 1));
        }
        out.push(regs);
    }
    out
}
