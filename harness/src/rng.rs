//! Small deterministic PRNG (SplitMix64) so that the harness needs no external crate
//! and every generated case is a function of (seed, property, index).
#[derive(Clone)]
pub struct Rng(pub u64);

impl Rng {
    pub fn new(seed: u64) -> Rng {
        Rng(seed ^ 0x9E37_79B9_7F4A_7C15)
    }
    pub fn fork(&mut self) -> Rng {
        Rng::new(self.next())
    }
    pub fn next(&mut self) -> u64 {
        self.0 = self.0.wrapping_add(0x9E37_79B9_7F4A_7C15);
        let mut z = self.0;
        z = (z ^ (z >> 30)).wrapping_mul(0xBF58_476D_1CE4_E5B9);
        z = (z ^ (z >> 27)).wrapping_mul(0x94D0_49BB_1331_11EB);
        z ^ (z >> 31)
    }
    /// uniform in 0..n (n > 0)
    pub fn below(&mut self, n: u64) -> u64 {
        self.next() % n
    }
    pub fn range(&mut self, lo: i64, hi: i64) -> i64 {
        lo + (self.below((hi - lo + 1) as u64) as i64)
    }
    pub fn chance(&mut self, num: u64, den: u64) -> bool {
        self.below(den) < num
    }
    pub fn pick<'a, T>(&mut self, xs: &'a [T]) -> &'a T {
        &xs[self.below(xs.len() as u64) as usize]
    }
    pub fn shuffle<T>(&mut self, xs: &mut [T]) {
        for i in (1..xs.len()).rev() {
            let j = self.below(i as u64 + 1) as usize;
            xs.swap(i, j);
        }
    }
}
