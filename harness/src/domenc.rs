//! Mechanical projections of abstract-domain values to the JSON encoding read by Interval.tla,
//! DataDom.tla, Taint.tla, AbsValue.tla, and the inverse constructions (used to build inputs and to
//! replay).  Every field has ONE JSON type (TLC refuses to compare values of different types):
//!
//! interval  {"w":n, "s":bv, "e":bv, "st":bv8, "lo":[]|[bv], "hi":[]|[bv], "d":bv8}
//!           s/e = start/end (little-endian byte arrays of w bytes), st = stride (u64 as 8 bytes),
//!           lo/hi = widening hints (absent = empty array), d = widening delay (u64 as 8 bytes)
//! datadom   {"w":n, "rel":[{"id":name,"off":interval}...], "abs":[]|[interval], "top":bool}
//! bvdomain  {"w":n, "top":bool, "v":bv|[]}
//! taint     {"w":n, "t":bool}
//! value     {"k":"iv","iv":interval} | {"k":"bvd","bvd":bvdomain} | {"k":"dd","dd":datadom} | {"k":"taint","taint":taint}
//!
//! The private fields of `IntervalDomain` are read and written through its serde representation
//! (the only way to observe the stride of a `Top`-like value or to construct widening hints/delays).
use crate::enc::{bv, bv_from_json};
use cwe_checker_lib::abstract_domain::*;
use cwe_checker_lib::analysis::taint::Taint;
use cwe_checker_lib::intermediate_representation::*;
use serde_json::{json, Value};
use std::collections::BTreeMap;

pub fn u64_bytes(x: u64) -> Value {
    Value::Array((0..8).map(|i| json!((x >> (8 * i)) & 0xff)).collect())
}
pub fn u64_from_bytes(v: &Value) -> u64 {
    v.as_array().unwrap().iter().enumerate().fold(0u64, |acc, (i, b)| acc | (b.as_u64().unwrap() << (8 * i)))
}

/// The raw components of an interval domain value.
#[derive(Clone, Debug)]
pub struct RawIv {
    pub start: Bitvector,
    pub end: Bitvector,
    pub stride: u64,
    pub lo: Option<Bitvector>,
    pub hi: Option<Bitvector>,
    pub delay: u64,
}

impl RawIv {
    pub fn width(&self) -> u64 {
        u64::from(ByteSize::from(apint::Width::width(&self.start)))
    }
    /// Build the value of the code under test with exactly these components.
    pub fn build(&self) -> IntervalDomain {
        serde_json::from_value(json!({
            "interval": {"start": serde_json::to_value(&self.start).unwrap(), "end": serde_json::to_value(&self.end).unwrap(), "stride": self.stride},
            "widening_upper_bound": self.hi.as_ref().map(|b| serde_json::to_value(b).unwrap()),
            "widening_lower_bound": self.lo.as_ref().map(|b| serde_json::to_value(b).unwrap()),
            "widening_delay": self.delay,
        }))
        .unwrap()
    }
    pub fn of(d: &IntervalDomain) -> RawIv {
        let v = serde_json::to_value(d).unwrap();
        let b = |x: &Value| -> Bitvector { serde_json::from_value(x.clone()).unwrap() };
        let ob = |x: &Value| -> Option<Bitvector> { if x.is_null() { None } else { Some(b(x)) } };
        RawIv {
            start: b(&v["interval"]["start"]),
            end: b(&v["interval"]["end"]),
            stride: v["interval"]["stride"].as_u64().unwrap(),
            lo: ob(&v["widening_lower_bound"]),
            hi: ob(&v["widening_upper_bound"]),
            delay: v["widening_delay"].as_u64().unwrap(),
        }
    }
    pub fn json(&self) -> Value {
        let ob = |x: &Option<Bitvector>| match x { Some(b) => json!([bv(b)]), None => json!([]) };
        json!({"w": self.width(), "s": bv(&self.start), "e": bv(&self.end), "st": u64_bytes(self.stride),
               "lo": ob(&self.lo), "hi": ob(&self.hi), "d": u64_bytes(self.delay)})
    }
    pub fn from_json(v: &Value) -> RawIv {
        let ob = |x: &Value| x.as_array().unwrap().first().map(bv_from_json);
        RawIv { start: bv_from_json(&v["s"]), end: bv_from_json(&v["e"]), stride: u64_from_bytes(&v["st"]),
                lo: ob(&v["lo"]), hi: ob(&v["hi"]), delay: u64_from_bytes(&v["d"]) }
    }
}

pub fn iv(d: &IntervalDomain) -> Value {
    RawIv::of(d).json()
}
pub fn iv_from_json(v: &Value) -> IntervalDomain {
    RawIv::from_json(v).build()
}

// ---- identifiers: a register name stands for the abstract identifier "value of that register at time t"
pub fn id(name: &str) -> AbstractIdentifier {
    AbstractIdentifier::new(Tid::new("t"), AbstractLocation::Register(Variable { name: name.to_string(), size: ByteSize::new(8), is_temp: false }))
}
pub fn id_name(i: &AbstractIdentifier) -> String {
    match i.get_location() {
        AbstractLocation::Register(v) => v.name.clone(),
        other => format!("{}", other),
    }
}

pub type Data = DataDomain<IntervalDomain>;

pub fn dd(d: &Data) -> Value {
    dd_with(d, &id_name)
}
pub fn dd_with(d: &Data, name: &dyn Fn(&AbstractIdentifier) -> String) -> Value {
    let rel: Vec<Value> = d.get_relative_values().iter().map(|(i, off)| json!({"id": name(i), "off": iv(off)})).collect();
    let abs = match d.get_absolute_value() { Some(a) => json!([iv(a)]), None => json!([]) };
    json!({"w": u64::from(d.bytesize()), "rel": rel, "abs": abs, "top": d.contains_top()})
}
pub fn dd_from_json(v: &Value) -> Data {
    let mut d = Data::new_empty(ByteSize::new(v["w"].as_u64().unwrap()));
    let rel: BTreeMap<AbstractIdentifier, IntervalDomain> =
        v["rel"].as_array().unwrap().iter().map(|r| (id(r["id"].as_str().unwrap()), iv_from_json(&r["off"]))).collect();
    d.set_relative_values(rel);
    d.set_absolute_value(v["abs"].as_array().unwrap().first().map(iv_from_json));
    if v["top"].as_bool().unwrap() {
        d.set_contains_top_flag();
    }
    d
}

pub fn bvd(d: &BitvectorDomain) -> Value {
    match d {
        BitvectorDomain::Value(b) => json!({"w": u64::from(d.bytesize()), "top": false, "v": bv(b)}),
        BitvectorDomain::Top(s) => json!({"w": u64::from(*s), "top": true, "v": []}),
    }
}
pub fn bvd_from_json(v: &Value) -> BitvectorDomain {
    if v["top"].as_bool().unwrap() {
        BitvectorDomain::Top(ByteSize::new(v["w"].as_u64().unwrap()))
    } else {
        BitvectorDomain::Value(bv_from_json(&v["v"]))
    }
}

pub fn taint(t: &Taint) -> Value {
    match t {
        Taint::Tainted(s) => json!({"w": u64::from(*s), "t": true}),
        Taint::Top(s) => json!({"w": u64::from(*s), "t": false}),
    }
}
pub fn taint_from_json(v: &Value) -> Taint {
    let s = ByteSize::new(v["w"].as_u64().unwrap());
    if v["t"].as_bool().unwrap() { Taint::Tainted(s) } else { Taint::Top(s) }
}
