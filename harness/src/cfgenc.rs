//! Projection of the interprocedural CFG (`analysis::graph::Graph`) to the encoding of
//! spec/Cfg.tla: nodes `{k, blk, sub, blk2, sub2}` in node-index order, edges
//! `{k, s, d, jmp, untaken}` with 1-based indices into the node array, entry nodes `{sub, n}`.
//! Mechanical; absent TIDs are "".
#![allow(dead_code)]
use cwe_checker_lib::analysis::graph::{get_entry_nodes_of_subs, Edge, Graph, Node};
use petgraph::visit::EdgeRef;
use serde_json::{json, Value};

pub fn node(n: &Node) -> Value {
    match n {
        Node::BlkStart(b, s) => json!({"k": "BlkStart", "blk": b.tid.to_string(), "sub": s.tid.to_string(), "blk2": "", "sub2": ""}),
        Node::BlkEnd(b, s) => json!({"k": "BlkEnd", "blk": b.tid.to_string(), "sub": s.tid.to_string(), "blk2": "", "sub2": ""}),
        Node::CallSource { source, target } => json!({"k": "CallSource", "blk": source.0.tid.to_string(), "sub": source.1.tid.to_string(),
            "blk2": target.0.tid.to_string(), "sub2": target.1.tid.to_string()}),
        Node::CallReturn { call, return_ } => json!({"k": "CallReturn", "blk": call.0.tid.to_string(), "sub": call.1.tid.to_string(),
            "blk2": return_.0.tid.to_string(), "sub2": return_.1.tid.to_string()}),
    }
}

pub fn edge_fields(e: &Edge) -> (&'static str, String, String) {
    match e {
        Edge::Block => ("Block", String::new(), String::new()),
        Edge::Jump(j, u) => ("Jump", j.tid.to_string(), u.map(|x| x.tid.to_string()).unwrap_or_default()),
        Edge::Call(j) => ("Call", j.tid.to_string(), String::new()),
        Edge::ExternCallStub(j) => ("ExternCallStub", j.tid.to_string(), String::new()),
        Edge::CrCallStub => ("CrCallStub", String::new(), String::new()),
        Edge::CrReturnStub => ("CrReturnStub", String::new(), String::new()),
        Edge::CallCombine(j) => ("CallCombine", j.tid.to_string(), String::new()),
        Edge::ReturnCombine(j) => ("ReturnCombine", j.tid.to_string(), String::new()),
    }
}

/// (nodes, edges, entries)
pub fn graph(g: &Graph) -> (Value, Value, Value) {
    let nodes: Vec<Value> = g.node_indices().map(|i| node(&g[i])).collect();
    let edges: Vec<Value> = g
        .edge_references()
        .map(|e| {
            let (k, j, u) = edge_fields(e.weight());
            json!({"k": k, "s": e.source().index() + 1, "d": e.target().index() + 1, "jmp": j, "untaken": u})
        })
        .collect();
    let mut entries: Vec<(String, usize)> = get_entry_nodes_of_subs(g).into_iter().map(|(t, n)| (t.to_string(), n.index() + 1)).collect();
    entries.sort();
    let entries: Vec<Value> = entries.into_iter().map(|(t, n)| json!({"sub": t, "n": n})).collect();
    (Value::Array(nodes), Value::Array(edges), Value::Array(entries))
}
