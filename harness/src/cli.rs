//! Runs the REAL `cwe_checker` binary (built from /repo with the hook guard) on generated inputs
//! and projects what it did (exit status, stdout warnings, hook events) to events for TLC.
#![allow(dead_code)]
use crate::elfgen;
use crate::pcodegen::{self, Knobs};
use crate::rng::Rng;
use serde_json::{json, Value};
use std::io::Read;
use std::process::{Command, Stdio};
use std::time::{Duration, Instant};

pub struct CliRun {
    pub exit: i64,
    pub timed_out: bool,
    pub stdout: String,
    pub stderr: String,
}

pub fn bin_path() -> String {
    std::env::var("CWE_CHECKER_BIN").expect("CWE_CHECKER_BIN not set")
}
pub fn config_path(lkm: bool) -> String {
    let dir = std::env::var("CWE_CHECKER_SRC").unwrap_or_else(|_| "/repo/src".to_string());
    format!("{}/{}", dir, if lkm { "lkm_config.json" } else { "config.json" })
}

pub fn run_cli(args: &[String], timeout_s: u64) -> CliRun {
    let mut child = Command::new(bin_path())
        .args(args)
        .stdin(Stdio::null())
        .stdout(Stdio::piped())
        .stderr(Stdio::piped())
        .spawn()
        .expect("spawn cwe_checker");
    let mut so = child.stdout.take().unwrap();
    let mut se = child.stderr.take().unwrap();
    let t1 = std::thread::spawn(move || { let mut s = Vec::new(); let _ = so.read_to_end(&mut s); String::from_utf8_lossy(&s).to_string() });
    let t2 = std::thread::spawn(move || { let mut s = Vec::new(); let _ = se.read_to_end(&mut s); String::from_utf8_lossy(&s).to_string() });
    let start = Instant::now();
    let mut timed_out = false;
    let status = loop {
        match child.try_wait().unwrap() {
            Some(st) => break st,
            None => {
                if start.elapsed() > Duration::from_secs(timeout_s) {
                    let _ = child.kill();
                    timed_out = true;
                    break child.wait().unwrap();
                }
                std::thread::sleep(Duration::from_millis(5));
            }
        }
    };
    CliRun { exit: status.code().map(|c| c as i64).unwrap_or(-1), timed_out, stdout: t1.join().unwrap(), stderr: t2.join().unwrap() }
}

fn cps(s: &str) -> Vec<i64> {
    s.chars().map(|c| c as i64).collect()
}
/// Order-preserving flat key of a warning under the derived `Ord` of `CweWarning`
/// (strings end with -1, string lists with -2, lists of lists with -3).
fn flat_key(w: &Value) -> Vec<i64> {
    let mut k = Vec::new();
    let s = |k: &mut Vec<i64>, v: &Value| { k.extend(cps(v.as_str().unwrap_or(""))); k.push(-1) };
    let l = |k: &mut Vec<i64>, v: &Value| { for x in v.as_array().cloned().unwrap_or_default() { k.extend(cps(x.as_str().unwrap_or(""))); k.push(-1) } k.push(-2) };
    s(&mut k, &w["name"]);
    s(&mut k, &w["version"]);
    l(&mut k, &w["addresses"]);
    l(&mut k, &w["tids"]);
    l(&mut k, &w["symbols"]);
    for inner in w["other"].as_array().cloned().unwrap_or_default() {
        l(&mut k, &inner);
    }
    k.push(-3);
    s(&mut k, &w["description"]);
    k
}

const FIELDS: [&str; 7] = ["name", "version", "addresses", "tids", "symbols", "other", "description"];

/// Project the `--json --quiet` stdout.  `json_ok` is false if stdout is not a JSON array of objects
/// with exactly the seven string / list fields.
pub fn project_stdout(stdout: &str) -> (bool, Vec<Value>) {
    let parsed: Result<Value, _> = serde_json::from_str(stdout);
    let arr = match parsed {
        Ok(Value::Array(a)) => a,
        _ => return (false, Vec::new()),
    };
    let mut out = Vec::new();
    let mut ok = true;
    for w in arr {
        let o = match w.as_object() { Some(o) => o, None => { ok = false; continue } };
        let shape = FIELDS.iter().all(|f| o.contains_key(*f)) && o.len() == 7
            && w["name"].is_string() && w["version"].is_string() && w["description"].is_string()
            && w["addresses"].is_array() && w["tids"].is_array() && w["symbols"].is_array() && w["other"].is_array();
        if !shape { ok = false; continue }
        out.push(json!({"name": w["name"], "version": w["version"], "addresses": w["addresses"], "tids": w["tids"],
                        "symbols": w["symbols"], "n_other": w["other"].as_array().unwrap().len(), "key": flat_key(&w),
                        "digest": format!("{:016x}", fxhash(&w.to_string()))}));
    }
    (ok, out)
}

pub fn fxhash(s: &str) -> u64 {
    let mut h: u64 = 0xcbf29ce484222325;
    for b in s.bytes() { h ^= b as u64; h = h.wrapping_mul(0x100000001b3); }
    h
}

/// Hook events from stderr, normalised to one record shape.
pub fn project_hook(stderr: &str) -> (Vec<Value>, String) {
    let mut evs = Vec::new();
    let mut rest = String::new();
    for line in stderr.lines() {
        if let Some(j) = line.strip_prefix("VERIF-EVENT ") {
            let v: Value = serde_json::from_str(j).unwrap_or(Value::Null);
            let d = &v["data"];
            evs.push(json!({
                "ev": v["ev"].as_str().unwrap_or("?"),
                "modules": d.get("modules").cloned().unwrap_or(json!([])),
                "lkm": d.get("lkm").and_then(|x| x.as_bool()).unwrap_or(false),
                "partial": d.get("partial").and_then(|x| x.as_bool()).unwrap_or(false),
                "module": d.get("module").and_then(|x| x.as_str()).unwrap_or(""),
                "n": d.get("warnings").and_then(|x| x.as_i64()).or(d.as_i64()).unwrap_or(-1),
            }));
        } else if rest.len() < 600 {
            rest.push_str(line);
            rest.push('\n');
        }
    }
    (evs, rest)
}

/// Write project.json + binary for one generated input; returns (pcode path, binary path).
pub fn materialize(dir: &str, id: &str, rng: &mut Rng, knobs: &Knobs, kind: &str) -> (String, String) {
    // replay files carry their input files (use_files): never regenerate over them
    if std::env::var_os("VERIF_USE_FILES").is_some() && std::path::Path::new(&format!("{}/{}.pcode.json", dir, id)).exists() {
        return (format!("{}/{}.pcode.json", dir, id), format!("{}/{}.elf", dir, id));
    }
    std::fs::create_dir_all(dir).unwrap();
    let spec = pcodegen::gen_funcs(rng, knobs);
    let (project, _end) = pcodegen::layout(&spec);
    let (ro, _) = pcodegen::rodata();
    let mut data = Vec::new();
    for i in 0..16u64 { data.extend_from_slice(&(i * 3).to_le_bytes()); }
    let elf = match kind {
        "lkm" => elfgen::rel(&ro, &data, true),
        "rel" => elfgen::rel(&ro, &data, false),
        _ => elfgen::exec(&ro, &data),
    };
    let pj = format!("{}/{}.pcode.json", dir, id);
    let bp = format!("{}/{}.elf", dir, id);
    std::fs::write(&pj, serde_json::to_string(&project).unwrap()).unwrap();
    std::fs::write(&bp, elf).unwrap();
    (pj, bp)
}

pub const ALL_MODULES: [&str; 19] = [
    "CWE78", "CWE119", "CWE134", "CWE190", "CWE215", "CWE243", "CWE252", "CWE332", "CWE337", "CWE367", "CWE416",
    "CWE426", "CWE467", "CWE476", "CWE560", "CWE676", "CWE782", "CWE789", "Memory",
];

/// One CLI invocation -> one event.  `partial`: None = no --partial flag.
pub fn invoke(pj: &str, bp: &str, lkm: bool, partial: Option<&str>, timeout_s: u64) -> Value {
    let mut args: Vec<String> = vec!["--pcode-raw".into(), pj.into(), "--config".into(), config_path(lkm), "--json".into(), "--quiet".into()];
    if let Some(p) = partial {
        args.push("--partial".into());
        args.push(p.into());
    }
    args.push(bp.into());
    let run = run_cli(&args, timeout_s);
    let (json_ok, warnings) = project_stdout(&run.stdout);
    let (hook, rest) = project_hook(&run.stderr);
    json!({"ev": "cli", "pcode": pj, "binary": bp, "lkm_input": lkm, "has_partial": partial.is_some(),
           "partial": partial.unwrap_or("").split(',').filter(|s| !s.is_empty()).collect::<Vec<_>>(),
           "partial_raw": partial.unwrap_or(""),
           "exit": run.exit, "timed_out": run.timed_out, "json_ok": json_ok, "warnings": warnings, "hook": hook,
           "stderr": rest, "stdout_digest": format!("{:016x}", fxhash(&run.stdout)), "stdout_len": run.stdout.len()})
}

pub fn module_versions() -> Value {
    let run = run_cli(&["--module-versions".to_string()], 60);
    let mut list = Vec::new();
    for line in run.stdout.lines().skip(1) {
        // "NAME": "VERSION"
        let parts: Vec<&str> = line.split('"').collect();
        if parts.len() >= 4 {
            list.push(json!({"name": parts[1], "version": parts[3]}));
        } else {
            list.push(json!({"name": line, "version": "?"}));
        }
    }
    json!({"ev": "versions", "exit": run.exit, "header": run.stdout.lines().next().unwrap_or(""), "list": list})
}
