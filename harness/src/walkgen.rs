//! Seeded generator of small multi-function IR projects for the walker / checker properties
//! C14–C17 (function signatures, NULL-dereference taint, call-site and reachability checkers).
//! It only GENERATES (coverage); it never decides anything.
//!
//! The programs are WELL-FORMED NORMALISED in the sense of `spec/Cfg.tla` (`WellFormed`): unique
//! TIDs, jump targets / indirect hints / return sites are blocks of the same function, call targets
//! are functions or extern symbols, a block ends in 0, 1 or 2 jumps (two = conditional branch
//! followed by Branch / BranchInd / Return).  What the blocks compute (defs, conditions, call
//! targets, indirect-call targets) is supplied by a [`Hooks`] implementation per property.
#![allow(dead_code)]
use crate::irenc::mk_tid;
use crate::rng::Rng;
use cwe_checker_lib::intermediate_representation::*;
use std::collections::{BTreeMap, BTreeSet};

pub fn var(name: &str, size: u64) -> Variable {
    Variable { name: name.to_string(), size: ByteSize::new(size), is_temp: false }
}
/// pick one of the names
pub fn pick_str<'a>(rng: &mut Rng, xs: &[&'a str]) -> &'a str {
    xs[rng.below(xs.len() as u64) as usize]
}
pub fn reg(name: &str) -> Variable {
    var(name, 8)
}
pub fn evar(name: &str) -> Expression {
    Expression::Var(reg(name))
}
pub fn econst(x: i64) -> Expression {
    Expression::Const(crate::enc::bv_i64(x, 8))
}
pub fn ebin(op: BinOpType, l: Expression, r: Expression) -> Expression {
    Expression::BinOp { op, lhs: Box::new(l), rhs: Box::new(r) }
}
pub fn sp_off(off: i64) -> Expression {
    ebin(BinOpType::IntAdd, evar("RSP"), econst(off))
}
pub fn reg_arg(name: &str) -> Arg {
    Arg::Register { expr: evar(name), data_type: None }
}
fn float_sub(name: &str) -> Expression {
    Expression::Subpiece { low_byte: ByteSize::new(0), size: ByteSize::new(8), arg: Box::new(Expression::Var(var(name, 64))) }
}

/// The System-V like standard convention of the generated projects (mirrors `CallingConvention::mock_x64`,
/// with fewer float registers).
pub fn cconv_std() -> CallingConvention {
    CallingConvention {
        name: "__stdcall".to_string(),
        integer_parameter_register: ["RDI", "RSI", "RDX", "RCX", "R8", "R9"].iter().map(|n| reg(n)).collect(),
        float_parameter_register: vec![float_sub("ZMM0"), float_sub("ZMM1")],
        integer_return_register: vec![reg("RAX"), reg("RDX")],
        float_return_register: vec![float_sub("ZMM0")],
        callee_saved_register: ["RBP", "RBX", "RSP", "R12", "R13"].iter().map(|n| reg(n)).collect(),
    }
}
/// A second convention ("__fastalt"): other parameter registers, RSI callee-saved, one return register.
pub fn cconv_alt() -> CallingConvention {
    CallingConvention {
        name: "__fastalt".to_string(),
        integer_parameter_register: ["RCX", "RDX", "RBX"].iter().map(|n| reg(n)).collect(),
        float_parameter_register: vec![],
        integer_return_register: vec![reg("RAX")],
        float_return_register: vec![],
        callee_saved_register: ["RBP", "RSI", "RSP", "R12", "RDI"].iter().map(|n| reg(n)).collect(),
    }
}
pub const ALL_REGS: [&str; 14] = ["RAX", "RBX", "RCX", "RDX", "RSI", "RDI", "RBP", "RSP", "R8", "R9", "R12", "R13", "R10", "R11"];

pub fn datatype_props() -> DatatypeProperties {
    DatatypeProperties {
        char_size: ByteSize::new(1), double_size: ByteSize::new(8), float_size: ByteSize::new(4),
        integer_size: ByteSize::new(4), long_double_size: ByteSize::new(16), long_long_size: ByteSize::new(8),
        long_size: ByteSize::new(8), pointer_size: ByteSize::new(8), short_size: ByteSize::new(2),
    }
}

pub fn mk_project(program: Program, cconvs: Vec<CallingConvention>) -> Project {
    let mut regs: BTreeSet<Variable> = ALL_REGS.iter().map(|n| reg(n)).collect();
    regs.insert(var("ZMM0", 64));
    regs.insert(var("ZMM1", 64));
    regs.insert(var("ZF", 1));
    regs.insert(var("CF", 1));
    Project {
        program: Term { tid: Tid::new("prog_00001000"), term: program },
        cpu_architecture: "x86_64".to_string(),
        stack_pointer_register: reg("RSP"),
        calling_conventions: cconvs.into_iter().map(|c| (c.name.clone(), c)).collect(),
        register_set: regs,
        datatype_properties: datatype_props(),
        runtime_memory_image: RuntimeMemoryImage::empty(true),
    }
}

pub fn mk_extern(name: &str, params: Vec<Arg>, rets: Vec<Arg>, noret: bool, cconv: Option<&str>) -> ExternSymbol {
    ExternSymbol {
        tid: Tid::new(format!("extern_{}", name)),
        addresses: vec![],
        name: name.to_string(),
        calling_convention: cconv.map(|s| s.to_string()),
        parameters: params,
        return_values: rets,
        no_return: noret,
        has_var_args: false,
    }
}

/// Shape weights of the skeleton.
#[derive(Clone)]
pub struct Knobs {
    pub subs: (u64, u64),
    pub blocks: (u64, u64),
    pub w_branch: u64,
    pub w_cbranch: u64,
    pub w_cbranch_ret: u64,
    pub w_return: u64,
    pub w_ext_call: u64,
    pub w_int_call: u64,
    pub w_callind: u64,
    pub w_branchind: u64,
    pub w_nojump: u64,
    pub w_callother: u64,
    pub w_single_cbranch: u64,
    /// chance (in 1/100) that a call has no return site
    pub p_no_ret: u64,
    /// chance (in 1/100) that a sub is empty (no blocks); never the first sub
    pub p_empty_sub: u64,
    /// chance (in 1/100) that a branch target is biased forward (fewer loops)
    pub p_forward: u64,
    /// names of the conventions subs may be annotated with ("" = None)
    pub sub_cconvs: Vec<String>,
    /// chance (in 1/100) that a jump target / return site is simply the next block (straight-line chains)
    pub p_chain: u64,
    /// chance (num, den) that the second jump after a conditional branch is an indirect jump
    pub p_cbranch_ind: (u64, u64),
    /// minimal number of target hints of an indirect jump (at most 2 are generated)
    pub min_hints: u64,
    /// chance (num, den) that a call to an extern symbol is the SECOND jump of its block, after a
    /// conditional branch (`[CBranch; Call]`, a conditionally executed call such as ARM `blne f`).
    /// OFF by default ((0, 1) draws nothing): the shape is outside Cfg!WellFormed.
    pub p_cond_call: (u64, u64),
    /// shuffle the LISTING order of the non-entry blocks of every function (the entry block stays
    /// first, TIDs and control flow are unchanged), so that listing order and execution order are
    /// independent.  OFF by default (draws nothing).
    pub shuffle_blocks: bool,
}
impl Default for Knobs {
    fn default() -> Knobs {
        Knobs {
            subs: (1, 3), blocks: (1, 5), w_branch: 20, w_cbranch: 25, w_cbranch_ret: 5, w_return: 12, w_ext_call: 25,
            w_int_call: 10, w_callind: 4, w_branchind: 4, w_nojump: 2, w_callother: 1, w_single_cbranch: 1,
            p_no_ret: 10, p_empty_sub: 4, p_forward: 60, sub_cconvs: vec!["".to_string()], p_chain: 0,
            p_cbranch_ind: (1, 8), min_hints: 0, p_cond_call: (0, 1), shuffle_blocks: false,
        }
    }
}

/// Where a block sits; handed to the hooks.
pub struct BlkCtx {
    pub sub: usize,
    pub blk: usize,
    pub n_subs: usize,
    pub n_blks: usize,
}

/// What a property's generator decides about the content of the skeleton.
pub trait Hooks {
    /// defs of a block (TIDs are assigned by the generator)
    fn defs(&mut self, rng: &mut Rng, ctx: &BlkCtx) -> Vec<Def>;
    /// condition of a conditional branch
    fn cond(&mut self, rng: &mut Rng, ctx: &BlkCtx) -> Expression;
    /// index of the extern symbol an extern call in this block calls
    fn pick_extern(&mut self, rng: &mut Rng, ctx: &BlkCtx, externs: &[ExternSymbol]) -> usize {
        let _ = ctx;
        rng.below(externs.len() as u64) as usize
    }
    /// target expression of indirect calls / jumps, value of returns
    fn ind_target(&mut self, rng: &mut Rng, ctx: &BlkCtx) -> Expression {
        let _ = (rng, ctx);
        evar("R11")
    }
    fn ret_expr(&mut self, rng: &mut Rng, ctx: &BlkCtx) -> Expression {
        let _ = (rng, ctx);
        econst(0)
    }
}

pub struct Skeleton {
    pub program: Program,
}

/// Generate a program over the given extern symbols.
pub fn gen_program(rng: &mut Rng, k: &Knobs, externs: &[ExternSymbol], hooks: &mut dyn Hooks) -> Program {
    let n_subs = rng.range(k.subs.0 as i64, k.subs.1 as i64) as usize;
    // plan block counts first so that calls can be generated for every sub
    let mut n_blks: Vec<usize> = (0..n_subs).map(|_| rng.range(k.blocks.0 as i64, k.blocks.1 as i64) as usize).collect();
    for s in 1..n_subs {
        if rng.chance(k.p_empty_sub, 100) {
            n_blks[s] = 0;
        }
    }
    let sub_tid = |s: usize| mk_tid(&format!("sub_{:08x}", 0x1000 * (s + 1)), &format!("{:08x}", 0x1000 * (s + 1)));
    let blk_addr = |s: usize, b: usize| 0x1000 * (s + 1) + 0x40 * b;
    let blk_tid = |s: usize, b: usize| mk_tid(&format!("blk_{:08x}", blk_addr(s, b)), &format!("{:08x}", blk_addr(s, b)));
    let mut subs = BTreeMap::new();
    for s in 0..n_subs {
        let mut blocks = Vec::new();
        for b in 0..n_blks[s] {
            let ctx = BlkCtx { sub: s, blk: b, n_subs, n_blks: n_blks[s] };
            let base = blk_addr(s, b);
            let mut instr = 0usize;
            let next_tid = |instr: &mut usize| {
                let a = base + *instr;
                *instr += 1;
                mk_tid(&format!("instr_{:08x}_0", a), &format!("{:08x}", a))
            };
            let defs: Vec<Term<Def>> = hooks.defs(rng, &ctx).into_iter().map(|d| Term { tid: next_tid(&mut instr), term: d }).collect();
            let pick_target = |rng: &mut Rng| -> Tid {
                let nb = n_blks[s];
                if b + 1 < nb && rng.chance(k.p_chain, 100) {
                    return blk_tid(s, b + 1);
                }
                let t = if rng.chance(k.p_forward, 100) && b + 1 < nb { rng.range(b as i64 + 1, nb as i64 - 1) as usize } else { rng.below(nb as u64) as usize };
                blk_tid(s, t)
            };
            let ret_site = |rng: &mut Rng| -> Option<Tid> {
                if rng.chance(k.p_no_ret, 100) { None } else { Some(pick_target(rng)) }
            };
            let w = [k.w_branch, k.w_cbranch, k.w_cbranch_ret, k.w_return, if externs.is_empty() { 0 } else { k.w_ext_call }, k.w_int_call,
                     k.w_callind, k.w_branchind, k.w_nojump, k.w_callother, k.w_single_cbranch];
            let total: u64 = w.iter().sum();
            let mut x = rng.below(total);
            let mut kind = 0;
            for (i, wi) in w.iter().enumerate() {
                if x < *wi { kind = i; break; }
                x -= wi;
            }
            let mut jmps: Vec<Term<Jmp>> = Vec::new();
            let mut ind: Vec<Tid> = Vec::new();
            match kind {
                0 => jmps.push(Term { tid: next_tid(&mut instr), term: Jmp::Branch(pick_target(rng)) }),
                1 => {
                    let c = hooks.cond(rng, &ctx);
                    jmps.push(Term { tid: next_tid(&mut instr), term: Jmp::CBranch { target: pick_target(rng), condition: c } });
                    if rng.chance(k.p_cbranch_ind.0, k.p_cbranch_ind.1) {
                        let n = k.min_hints + rng.below(3 - k.min_hints);
                        for _ in 0..n { ind.push(pick_target(rng)); }
                        let e = hooks.ind_target(rng, &ctx);
                        jmps.push(Term { tid: next_tid(&mut instr), term: Jmp::BranchInd(e) });
                    } else {
                        jmps.push(Term { tid: next_tid(&mut instr), term: Jmp::Branch(pick_target(rng)) });
                    }
                }
                2 => {
                    let c = hooks.cond(rng, &ctx);
                    jmps.push(Term { tid: next_tid(&mut instr), term: Jmp::CBranch { target: pick_target(rng), condition: c } });
                    let e = hooks.ret_expr(rng, &ctx);
                    jmps.push(Term { tid: next_tid(&mut instr), term: Jmp::Return(e) });
                }
                3 => {
                    let e = hooks.ret_expr(rng, &ctx);
                    jmps.push(Term { tid: next_tid(&mut instr), term: Jmp::Return(e) })
                }
                4 => {
                    if k.p_cond_call.0 > 0 && rng.chance(k.p_cond_call.0, k.p_cond_call.1) {
                        let c = hooks.cond(rng, &ctx);
                        jmps.push(Term { tid: next_tid(&mut instr), term: Jmp::CBranch { target: pick_target(rng), condition: c } });
                    }
                    let i = hooks.pick_extern(rng, &ctx, externs);
                    let r = ret_site(rng);
                    jmps.push(Term { tid: next_tid(&mut instr), term: Jmp::Call { target: externs[i].tid.clone(), return_: r } });
                }
                5 => {
                    let t = rng.below(n_subs as u64) as usize;
                    let r = ret_site(rng);
                    jmps.push(Term { tid: next_tid(&mut instr), term: Jmp::Call { target: sub_tid(t), return_: r } });
                }
                6 => {
                    let e = hooks.ind_target(rng, &ctx);
                    let r = ret_site(rng);
                    jmps.push(Term { tid: next_tid(&mut instr), term: Jmp::CallInd { target: e, return_: r } });
                }
                7 => {
                    let n = rng.below(3);
                    for _ in 0..n { ind.push(pick_target(rng)); }
                    let e = hooks.ind_target(rng, &ctx);
                    jmps.push(Term { tid: next_tid(&mut instr), term: Jmp::BranchInd(e) });
                }
                8 => {}
                9 => {
                    let r = ret_site(rng);
                    jmps.push(Term { tid: next_tid(&mut instr), term: Jmp::CallOther { description: "other".to_string(), return_: r } });
                }
                _ => {
                    let c = hooks.cond(rng, &ctx);
                    jmps.push(Term { tid: next_tid(&mut instr), term: Jmp::CBranch { target: pick_target(rng), condition: c } });
                }
            }
            blocks.push(Term { tid: blk_tid(s, b), term: Blk { defs, jmps, indirect_jmp_targets: ind } });
        }
        if k.shuffle_blocks && blocks.len() > 2 {
            rng.shuffle(&mut blocks[1..]);
        }
        let cc = rng.pick(&k.sub_cconvs).clone();
        subs.insert(sub_tid(s), Term {
            tid: sub_tid(s),
            term: Sub { name: format!("fn{}", s), blocks, calling_convention: if cc.is_empty() { None } else { Some(cc) } },
        });
    }
    Program {
        subs,
        extern_symbols: externs.iter().map(|e| (e.tid.clone(), e.clone())).collect(),
        entry_points: BTreeSet::new(),
        address_base_offset: 0,
    }
}

/// Rebuild a project from the JSON encoding of `irenc::project` (used by the replay paths).
pub mod dec {
    use super::*;
    use serde_json::Value;
    pub fn s(v: &Value) -> String {
        v.as_str().unwrap_or("").to_string()
    }
    fn tid_with_addr(id: &str, addr: &str) -> Tid {
        mk_tid(id, addr)
    }
    /// address part of our TIDs: the hex digits after the first '_' (instr_XXXXXXXX_n, blk_XXXXXXXX, sub_XXXXXXXX)
    pub fn tid(id: &str) -> Tid {
        let parts: Vec<&str> = id.split('_').collect();
        if parts.len() >= 2 && ["instr", "blk", "sub"].contains(&parts[0]) {
            tid_with_addr(id, parts[1])
        } else {
            Tid::new(id)
        }
    }
    pub fn variable(v: &Value) -> Variable {
        Variable { name: s(&v["n"]), size: ByteSize::new(v["s"].as_u64().unwrap()), is_temp: v["t"].as_bool().unwrap() }
    }
    pub fn expr(v: &Value) -> Expression {
        match v["k"].as_str().unwrap() {
            "var" => Expression::Var(variable(&v["v"])),
            "const" => Expression::Const(crate::enc::bv_from_json(&v["c"])),
            "bin" => Expression::BinOp { op: crate::props::c01::parse(v["op"].as_str().unwrap()), lhs: Box::new(expr(&v["l"])), rhs: Box::new(expr(&v["r"])) },
            "un" => Expression::UnOp { op: crate::props::c01::parse(v["op"].as_str().unwrap()), arg: Box::new(expr(&v["a"])) },
            "cast" => Expression::Cast { op: crate::props::c01::parse(v["op"].as_str().unwrap()), size: ByteSize::new(v["s"].as_u64().unwrap()), arg: Box::new(expr(&v["a"])) },
            "sub" => Expression::Subpiece { low_byte: ByteSize::new(v["low"].as_u64().unwrap()), size: ByteSize::new(v["s"].as_u64().unwrap()), arg: Box::new(expr(&v["a"])) },
            _ => Expression::Unknown { description: "unknown".to_string(), size: ByteSize::new(v["s"].as_u64().unwrap()) },
        }
    }
    fn opt_tid(v: &Value) -> Option<Tid> {
        let x = s(v);
        if x.is_empty() { None } else { Some(tid(&x)) }
    }
    pub fn def(v: &Value) -> Term<Def> {
        let t = tid(&s(&v["tid"]));
        let term = match v["k"].as_str().unwrap() {
            "assign" => Def::Assign { var: variable(&v["v"]), value: expr(&v["e"]) },
            "load" => Def::Load { var: variable(&v["v"]), address: expr(&v["a"]) },
            _ => Def::Store { address: expr(&v["a"]), value: expr(&v["e"]) },
        };
        Term { tid: t, term }
    }
    pub fn jmp(v: &Value) -> Term<Jmp> {
        let t = tid(&s(&v["tid"]));
        let term = match v["k"].as_str().unwrap() {
            "branch" => Jmp::Branch(tid(&s(&v["t"]))),
            "cbranch" => Jmp::CBranch { target: tid(&s(&v["t"])), condition: expr(&v["c"]) },
            "branchind" => Jmp::BranchInd(expr(&v["e"])),
            "call" => Jmp::Call { target: tid(&s(&v["t"])), return_: opt_tid(&v["ret"]) },
            "callind" => Jmp::CallInd { target: expr(&v["e"]), return_: opt_tid(&v["ret"]) },
            "return" => Jmp::Return(expr(&v["e"])),
            _ => Jmp::CallOther { description: "other".to_string(), return_: opt_tid(&v["ret"]) },
        };
        Term { tid: t, term }
    }
    pub fn arg(v: &Value) -> Arg {
        match v["k"].as_str().unwrap() {
            "reg" => Arg::Register { expr: expr(&v["e"]), data_type: None },
            _ => Arg::Stack { address: expr(&v["a"]), size: ByteSize::new(v["s"].as_u64().unwrap()), data_type: None },
        }
    }
    fn opt_str(v: &Value) -> Option<String> {
        let x = s(v);
        if x.is_empty() { None } else { Some(x) }
    }
    pub fn project(v: &Value) -> Project {
        let p = &v["program"];
        let mut subs = BTreeMap::new();
        for sv in p["subs"].as_array().unwrap() {
            let blocks = sv["blocks"].as_array().unwrap().iter().map(|b| Term {
                tid: tid(&s(&b["tid"])),
                term: Blk {
                    defs: b["defs"].as_array().unwrap().iter().map(def).collect(),
                    jmps: b["jmps"].as_array().unwrap().iter().map(jmp).collect(),
                    indirect_jmp_targets: b["ind"].as_array().unwrap().iter().map(|t| tid(&s(t))).collect(),
                },
            }).collect();
            let t = tid(&s(&sv["tid"]));
            subs.insert(t.clone(), Term { tid: t, term: Sub { name: s(&sv["name"]), blocks, calling_convention: opt_str(&sv["cconv"]) } });
        }
        let mut externs = BTreeMap::new();
        for e in p["externs"].as_array().unwrap() {
            let t = tid(&s(&e["tid"]));
            externs.insert(t.clone(), ExternSymbol {
                tid: t, addresses: vec![], name: s(&e["name"]), calling_convention: opt_str(&e["cconv"]),
                parameters: e["params"].as_array().unwrap().iter().map(arg).collect(),
                return_values: e["rets"].as_array().unwrap().iter().map(arg).collect(),
                no_return: e["noret"].as_bool().unwrap(), has_var_args: e["varargs"].as_bool().unwrap(),
            });
        }
        let cconvs = v["cconvs"].as_array().unwrap().iter().map(|c| CallingConvention {
            name: s(&c["name"]),
            integer_parameter_register: c["params"].as_array().unwrap().iter().map(variable).collect(),
            float_parameter_register: c["fparams"].as_array().unwrap().iter().map(expr).collect(),
            integer_return_register: c["rets"].as_array().unwrap().iter().map(variable).collect(),
            float_return_register: c["frets"].as_array().unwrap().iter().map(expr).collect(),
            callee_saved_register: c["saved"].as_array().unwrap().iter().map(variable).collect(),
        }).collect();
        let mut pr = mk_project(Program { subs, extern_symbols: externs, entry_points: BTreeSet::new(), address_base_offset: 0 }, cconvs);
        pr.stack_pointer_register = variable(&v["sp"]);
        pr.register_set = v["regs"].as_array().unwrap().iter().map(variable).collect();
        pr.cpu_architecture = s(&v["arch"]);
        pr
    }
}
