//! C16: call-site checkers CWE676 / CWE782 / CWE426 / CWE332 report exactly the specified call sites.
//! One case = (random program with a random extern table, one checker, random configuration) ->
//! the warnings of the real `check_cwe`.  The expected warning bag is computed by TLC from
//! spec/Checkers.tla.
use crate::irenc;
use crate::out::Out;
use crate::rng::Rng;
use crate::walkgen::*;
use crate::walkrun::{run_checker, warning, Needs};
use cwe_checker_lib::intermediate_representation::*;
use serde_json::{json, Value};

/// 20-name vocabulary; contains every name a configuration may mention (and "system"/"ioctl",
/// which CWE426/CWE782 hard-code).
pub const VOCAB: [&str; 20] = [
    "system", "ioctl", "srand", "rand", "setuid", "setgid", "setresuid", "seteuid", "strcpy", "gets", "sprintf", "memcpy",
    "alloca", "scanf", "strlen", "srandom", "random", "arc4random", "puts", "atoi",
];

/// Trivial block contents; extern calls pick their target with the given per-name weights
/// (default weight 2) so that the symbols a checker watches occur together often enough.
pub struct PlainHooks(pub &'static [(&'static str, u64)]);
impl Hooks for PlainHooks {
    fn pick_extern(&mut self, rng: &mut Rng, _ctx: &BlkCtx, externs: &[ExternSymbol]) -> usize {
        let w: Vec<u64> = externs.iter().map(|e| self.0.iter().find(|(n, _)| *n == e.name).map(|x| x.1).unwrap_or(2)).collect();
        let mut x = rng.below(w.iter().sum());
        for (i, wi) in w.iter().enumerate() {
            if x < *wi {
                return i;
            }
            x -= wi;
        }
        0
    }
    fn defs(&mut self, rng: &mut Rng, _ctx: &BlkCtx) -> Vec<Def> {
        let n = rng.below(3);
        (0..n)
            .map(|_| Def::Assign { var: reg(pick_str(rng, &["RAX", "RBX", "RCX", "RDI"])), value: if rng.chance(1, 2) { econst(rng.range(0, 9)) } else { evar(pick_str(rng, &["RAX", "RSI", "RDI"])) } })
            .collect()
    }
    fn cond(&mut self, rng: &mut Rng, _ctx: &BlkCtx) -> Expression {
        ebin(BinOpType::IntEqual, evar(pick_str(rng, &["RAX", "RBX"])), econst(0))
    }
}

/// random subset of the vocabulary as extern table
pub fn extern_table(rng: &mut Rng, vocab: &[&str], p_num: u64, p_den: u64) -> Vec<ExternSymbol> {
    let mut v = Vec::new();
    for name in vocab {
        if rng.chance(p_num, p_den) {
            let np = rng.below(3) as usize;
            let params = ["RDI", "RSI", "RDX"][..np].iter().map(|r| reg_arg(r)).collect();
            v.push(mk_extern(name, params, vec![reg_arg("RAX")], false, None));
        }
    }
    v
}

fn random_names(rng: &mut Rng, vocab: &[&str], max: u64, dups: bool) -> Vec<String> {
    let n = rng.below(max + 1);
    let mut v: Vec<String> = Vec::new();
    for _ in 0..n {
        let s = rng.pick(vocab).to_string();
        if dups || !v.contains(&s) {
            v.push(s);
        }
    }
    v
}

pub fn knobs_calls() -> Knobs {
    Knobs { subs: (1, 3), blocks: (1, 5), w_ext_call: 60, w_int_call: 6, w_branch: 12, w_cbranch: 10, w_return: 8,
            // a third of the extern calls are conditionally executed calls: second jump after a CBranch
            p_cond_call: (1, 3),
            // listing order of the blocks independent of the execution order
            shuffle_blocks: true, ..Knobs::default() }
}

/// Execute one recorded case on the real code.
pub fn exec(checker: &str, project: &Project, config: &Value) -> Value {
    let r = run_checker(project, checker, config, Needs::Nothing);
    let (warnings, panic) = match r {
        Ok(w) => (w.iter().map(warning).collect::<Vec<_>>(), String::new()),
        Err(p) => (vec![], p),
    };
    json!({"ev": "c16", "checker": checker, "config": config, "warnings": warnings, "panic": panic})
}

pub fn gen(out: &mut Out, _sub: &str) {
    let mut rng = Rng::new(out.seed ^ 0xC16);
    let n = out.size(400, 15_000);
    for _ in 0..n {
        let mut r = rng.fork();
        let dens = *r.pick(&[1u64, 2, 3]);
        let externs = extern_table(&mut r, &VOCAB, dens, 4);
        let program = gen_program(&mut r, &knobs_calls(), &externs, &mut PlainHooks(&[("system", 12), ("ioctl", 6), ("setuid", 6), ("setgid", 5), ("strcpy", 4)]));
        let project = mk_project(program, vec![cconv_std()]);
        let pj = irenc::project(&project);
        let ncalls = project.program.term.subs.values().flat_map(|s| s.term.blocks.iter()).flat_map(|b| b.term.jmps.iter())
            .filter(|j| matches!(j.term, Jmp::Call { .. })).count();
        // CWE676: random symbol list (duplicates allowed, names absent from the binary, empty list)
        let c676 = json!({"symbols": random_names(&mut r, &VOCAB, 8, true), "pairs": []});
        // CWE782: no configuration
        let c782 = json!({"symbols": [], "pairs": []});
        // CWE426: privilege-changing symbols
        let c426 = json!({"symbols": random_names(&mut r, &VOCAB[..10], 4, true), "pairs": []});
        // CWE332: (initializer, generator) pairs without duplicate pairs
        let mut pairs: Vec<Vec<String>> = Vec::new();
        for _ in 0..r.below(4) {
            let a = r.pick(&VOCAB[..8]).to_string();
            let b = r.pick(&VOCAB[..8]).to_string();
            if a != b && !pairs.iter().any(|p| (p[0] == a && p[1] == b) || (p[0] == b && p[1] == a)) {
                pairs.push(vec![a, b]);
            }
        }
        let c332 = json!({"symbols": [], "pairs": pairs});
        let mut evs: Vec<Value> = vec![json!({"ev": "reset", "project": pj})];
        evs.extend([("CWE676", c676), ("CWE782", c782), ("CWE426", c426), ("CWE332", c332)].iter().map(|(checker, cfg)| exec(checker, &project, cfg)));
        let nontrivial = ncalls > 1 && evs[1..].iter().any(|ev| ev["warnings"].as_array().map(|w| !w.is_empty()).unwrap_or(false));
        out.emit(evs, nontrivial);
    }
}

/// A case is `[reset{project}, one event per checker]`; re-executes every checker event on the real code.
pub fn replay(run: &[Value], _sub: &str) -> Vec<Value> {
    let project = dec::project(&run[0]["project"]);
    let mut evs = vec![json!({"ev": "reset", "project": irenc::project(&project)})];
    evs.extend(run[1..].iter().map(|e| exec(e["checker"].as_str().unwrap(), &project, &e["config"])));
    evs
}
