//! C19: global memory queries (`RuntimeMemoryImage::read`, `read_string_until_null_terminator`,
//! `is_global_memory_address`, `is_address_writeable`, `is_interval_readable/_writeable`,
//! `get_ro_data_pointer_at_address`) against the loaded image.
//!
//! A case = one `reset` event with the image AS THE REAL CODE HOLDS IT (projection of the public
//! fields `memory_segments`, `is_little_endian`) followed by `q` events, one per query call.  Images
//! are built through every public route: struct literals / serde, `new_from_bare_metal`, and
//! `RuntimeMemoryImage::new` on generated ELF files (ET_EXEC/ET_DYN program headers, ET_REL section
//! headers - the kernel-module route that produces adjacent segments), optionally shifted with
//! `add_global_memory_offset`.  Nothing is decided here: spec/trace/T_C19.tla judges every result.
use crate::enc::*;
use crate::out::{catch, Out};
use crate::rng::Rng;
use cwe_checker_lib::intermediate_representation::*;
use cwe_checker_lib::utils::binary::{BareMetalConfig, MemorySegment};
use serde_json::{json, Value};
use std::panic::AssertUnwindSafe;

// ---------------------------------------------------------------------------------------------
// projection
// ---------------------------------------------------------------------------------------------
fn addr8(a: u64) -> Value {
    bv(&Bitvector::from_u64(a))
}

fn reset_event(img: &RuntimeMemoryImage, via: &str) -> Value {
    let segs: Vec<Value> = img
        .memory_segments
        .iter()
        .map(|s| {
            json!({"base": addr8(s.base_address), "bytes": s.bytes, "r": s.read_flag, "w": s.write_flag, "x": s.execute_flag})
        })
        .collect();
    json!({"ev": "reset", "via": via, "le": img.is_little_endian, "segs": segs})
}

fn image_from_reset(ev: &Value) -> RuntimeMemoryImage {
    let segs = ev["segs"]
        .as_array()
        .unwrap()
        .iter()
        .map(|s| MemorySegment {
            bytes: s["bytes"].as_array().unwrap().iter().map(|b| b.as_u64().unwrap() as u8).collect(),
            base_address: bv_from_json(&s["base"]).try_to_u64().unwrap(),
            read_flag: s["r"].as_bool().unwrap(),
            write_flag: s["w"].as_bool().unwrap(),
            execute_flag: s["x"].as_bool().unwrap(),
        })
        .collect();
    RuntimeMemoryImage { memory_segments: segs, is_little_endian: ev["le"].as_bool().unwrap(), is_lkm: false }
}

// ---------------------------------------------------------------------------------------------
// one query call on the real code
// ---------------------------------------------------------------------------------------------
/// `input`: {"q", "addr": bv, "size": n, "end": bv8}.  Returns the full event.
fn exec_query(img: &RuntimeMemoryImage, input: &Value) -> Value {
    let q = input["q"].as_str().unwrap().to_string();
    let addr = bv_from_json(&input["addr"]);
    let size = input["size"].as_u64().unwrap();
    let end = bv_from_json(&input["end"]).try_to_u64().unwrap();
    let a64 = addr.try_to_u64().unwrap();
    // feature tag (counted / matched by known findings, never used to decide)
    let at_seg_end = img.memory_segments.iter().any(|s| s.base_address.wrapping_add(s.bytes.len() as u64) == a64);
    let at_seg_base = img.memory_segments.iter().any(|s| s.base_address == a64);
    let mut k = "error".to_string();
    let mut v: Vec<u8> = Vec::new();
    let mut b = false;
    let mut i: i64 = -1;
    let mut panic = String::new();
    let img = AssertUnwindSafe(img);
    match q.as_str() {
        "read" => match catch(|| img.read(&addr, ByteSize::new(size)).map_err(|_| ())) {
            Ok(Ok(Some(val))) => {
                k = "value".into();
                v = bv(&val).as_array().unwrap().iter().map(|x| x.as_u64().unwrap() as u8).collect();
            }
            Ok(Ok(None)) => k = "unknown".into(),
            Ok(Err(())) => {}
            Err(p) => { k = "panic".into(); panic = p }
        },
        "global" => match catch(|| img.is_global_memory_address(&addr)) {
            Ok(r) => { k = "ok".into(); b = r }
            Err(p) => { k = "panic".into(); panic = p }
        },
        "string" => match catch(|| img.read_string_until_null_terminator(&addr).map(|s| s.as_bytes().to_vec()).map_err(|_| ())) {
            Ok(Ok(s)) => { k = "ok".into(); v = s }
            Ok(Err(())) => {}
            Err(p) => { k = "panic".into(); panic = p }
        },
        "writable" => match catch(|| img.is_address_writeable(&addr).map_err(|_| ())) {
            Ok(Ok(r)) => { k = "ok".into(); b = r }
            Ok(Err(())) => {}
            Err(p) => { k = "panic".into(); panic = p }
        },
        "ireadable" | "iwritable" => {
            let r = if q == "ireadable" {
                catch(|| img.is_interval_readable(a64, end).map_err(|_| ()))
            } else {
                catch(|| img.is_interval_writeable(a64, end).map_err(|_| ()))
            };
            match r {
                Ok(Ok(r)) => { k = "ok".into(); b = r }
                Ok(Err(())) => {}
                Err(p) => { k = "panic".into(); panic = p }
            }
        }
        "ropointer" => match catch(|| img.get_ro_data_pointer_at_address(&addr).map(|(s, idx)| (s.to_vec(), idx)).map_err(|_| ())) {
            Ok(Ok((s, idx))) => { k = "ok".into(); v = s; i = idx as i64 }
            Ok(Err(())) => {}
            Err(p) => { k = "panic".into(); panic = p }
        },
        other => panic!("unknown query kind {}", other),
    }
    json!({"ev": "q", "q": q, "addr": input["addr"], "size": size, "end": input["end"],
           "k": k, "v": v, "b": b, "i": i, "panic": panic, "at_seg_end": at_seg_end, "at_seg_base": at_seg_base})
}

// ---------------------------------------------------------------------------------------------
// layouts
// ---------------------------------------------------------------------------------------------
#[derive(Clone)]
struct SegPlan {
    base: u64,
    bytes: Vec<u8>,
    r: bool,
    w: bool,
    x: bool,
}

fn content(rng: &mut Rng, len: usize) -> Vec<u8> {
    let style = rng.below(6);
    let mut v = Vec::with_capacity(len);
    while v.len() < len {
        match style {
            // text with frequent NULs
            0 | 1 => v.push(if rng.chance(1, 5) { 0 } else { *rng.pick(b"abcxyz%d s5.l-0AZ~!") }),
            // arbitrary bytes, NULs rare
            2 => v.push(if rng.chance(1, 8) { 0 } else { rng.below(256) as u8 }),
            // UTF-8 text: multi-byte sequences may be cut by the segment end
            3 => {
                let c = *rng.pick(&['a', 'ä', 'ß', '€', '漢', '😀', '\u{7ff}', '\u{800}', '\u{ffff}', '\u{10000}', '\u{10ffff}', '\u{d7ff}', '\u{e000}', '\0']);
                let mut buf = [0u8; 4];
                for b in c.encode_utf8(&mut buf).as_bytes() {
                    if v.len() < len { v.push(*b) }
                }
            }
            // no NUL at all
            4 => { let m = if rng.chance(1, 2) { 126 } else { 255 }; v.push(1 + rng.below(m) as u8) }
            // ill-formed UTF-8 candidates next to well-formed ones
            _ => v.push(*rng.pick(&[0u8, 0x41, 0x7f, 0x80, 0xbf, 0xc0, 0xc1, 0xc2, 0xdf, 0xe0, 0xa0, 0x9f, 0xed, 0xef, 0xf0, 0x90, 0x8f, 0xf4, 0xf5, 0xff])),
        }
    }
    v
}

fn seg_len(rng: &mut Rng) -> usize {
    match rng.below(20) {
        0 => 0,
        1..=4 => 1 + rng.below(3) as usize,
        5..=15 => 3 + rng.below(10) as usize,
        16..=18 => 12 + rng.below(12) as usize,
        _ => 24 + rng.below(20) as usize,
    }
}

/// Disjoint segments in ascending address order starting near `start`; gap 0 = adjacent.
fn plan_segments(rng: &mut Rng, n: usize, start: u64, allow_empty: bool) -> Vec<SegPlan> {
    let mut segs = Vec::new();
    let mut next = start;
    for _ in 0..n {
        let gap = match rng.below(10) {
            0..=4 => 0,
            5 => 1,
            6 => 2,
            7 => 3,
            8 => 4 + rng.below(12),
            _ => 16 + rng.below(4000),
        };
        let mut len = seg_len(rng);
        if len == 0 && !allow_empty {
            len = 1;
        }
        let base = next + gap;
        segs.push(SegPlan { base, bytes: content(rng, len), r: rng.chance(4, 5), w: rng.chance(1, 3), x: rng.chance(1, 3) });
        next = base + len as u64;
    }
    segs
}

fn start_address(rng: &mut Rng, max32: bool) -> u64 {
    let regions32: [u64; 8] = [0, 1, 2, 0x40, 0xf8, 0x1000, 0xfff0, 0x7fff_fff0];
    let regions64: [u64; 6] = [
        0xffff_ffe0,                // segments straddling 2^32
        0x1_0000_0000,
        0x7fff_ffff_ffff_ffe0,      // straddling the sign boundary
        0xffff_ffff_8000_0000,      // kernel space
        0xffff_ffff_ffff_0000,
        0x0000_7f12_3456_7000,
    ];
    if max32 || rng.chance(3, 5) {
        *rng.pick(&regions32) + if rng.chance(1, 3) { rng.below(9) } else { 0 }
    } else {
        *rng.pick(&regions64) + if rng.chance(1, 3) { rng.below(9) } else { 0 }
    }
}

fn image_from_plan(rng: &mut Rng, plan: &[SegPlan], le: bool) -> RuntimeMemoryImage {
    let mut segs: Vec<MemorySegment> = plan
        .iter()
        .map(|p| MemorySegment { bytes: p.bytes.clone(), base_address: p.base, read_flag: p.r, write_flag: p.w, execute_flag: p.x })
        .collect();
    rng.shuffle(&mut segs);   // the order of the list must not matter
    RuntimeMemoryImage { memory_segments: segs, is_little_endian: le, is_lkm: false }
}

// ---------------------------------------------------------------------------------------------
// minimal ELF writer (only what RuntimeMemoryImage::new reads)
// ---------------------------------------------------------------------------------------------
struct W {
    b: Vec<u8>,
    le: bool,
    c64: bool,
}
impl W {
    fn u16(&mut self, x: u16) { if self.le { self.b.extend(x.to_le_bytes()) } else { self.b.extend(x.to_be_bytes()) } }
    fn u32(&mut self, x: u32) { if self.le { self.b.extend(x.to_le_bytes()) } else { self.b.extend(x.to_be_bytes()) } }
    fn u64(&mut self, x: u64) { if self.le { self.b.extend(x.to_le_bytes()) } else { self.b.extend(x.to_be_bytes()) } }
    /// address/offset-sized word
    fn word(&mut self, x: u64) { if self.c64 { self.u64(x) } else { self.u32(x as u32) } }
    fn header(&mut self, e_type: u16, phoff: u64, phnum: u16, shoff: u64, shnum: u16, shstrndx: u16) {
        self.b.extend([0x7f, b'E', b'L', b'F', if self.c64 { 2 } else { 1 }, if self.le { 1 } else { 2 }, 1, 0]);
        self.b.extend([0u8; 8]);
        self.u16(e_type);
        self.u16(if self.c64 { 62 } else { 40 });
        self.u32(1);
        self.word(0);
        self.word(phoff);
        self.word(shoff);
        self.u32(0);
        self.u16(if self.c64 { 64 } else { 52 });
        self.u16(if self.c64 { 56 } else { 32 });
        self.u16(phnum);
        self.u16(if self.c64 { 64 } else { 40 });
        self.u16(shnum);
        self.u16(shstrndx);
    }
    fn phdr(&mut self, p_type: u32, flags: u32, off: u64, vaddr: u64, filesz: u64, memsz: u64) {
        if self.c64 {
            self.u32(p_type); self.u32(flags); self.u64(off); self.u64(vaddr); self.u64(vaddr); self.u64(filesz); self.u64(memsz); self.u64(1);
        } else {
            self.u32(p_type); self.u32(off as u32); self.u32(vaddr as u32); self.u32(vaddr as u32); self.u32(filesz as u32); self.u32(memsz as u32); self.u32(flags); self.u32(1);
        }
    }
    #[allow(clippy::too_many_arguments)]
    fn shdr(&mut self, name: u32, sh_type: u32, flags: u64, addr: u64, off: u64, size: u64, align: u64) {
        self.u32(name); self.u32(sh_type); self.word(flags); self.word(addr); self.word(off); self.word(size);
        self.u32(0); self.u32(0); self.word(align); self.word(0);
    }
}

/// ET_EXEC / ET_DYN with one PT_LOAD per planned segment (plus a PT_NOTE that must be ignored).
/// A trailing run of zero bytes of a segment may be expressed as p_memsz > p_filesz.
fn elf_exec(rng: &mut Rng, plan: &[SegPlan], le: bool, c64: bool) -> Vec<u8> {
    let ehsize = if c64 { 64 } else { 52 };
    let phent = if c64 { 56 } else { 32 };
    let mut order: Vec<usize> = (0..plan.len()).collect();
    rng.shuffle(&mut order);
    let phnum = plan.len() + 1;
    let mut w = W { b: Vec::new(), le, c64 };
    w.header(if rng.chance(1, 2) { 2 } else { 3 }, ehsize, phnum as u16, 0, 0, 0);
    let mut off = ehsize + phent * phnum as u64;
    let mut data: Vec<u8> = Vec::new();
    w.phdr(4, 4, 0, 0, 0, 0); // PT_NOTE, empty
    for &i in &order {
        let p = &plan[i];
        let mut filesz = p.bytes.len();
        if rng.chance(1, 2) {
            while filesz > 0 && p.bytes[filesz - 1] == 0 { filesz -= 1 }
        }
        let flags = (p.x as u32) | ((p.w as u32) << 1) | ((p.r as u32) << 2);
        w.phdr(1, flags, off, p.base, filesz as u64, p.bytes.len() as u64);
        data.extend(&p.bytes[..filesz]);
        off += filesz as u64;
    }
    w.b.extend(data);
    w.b
}

/// ET_REL: one SHF_ALLOC section per planned segment, laid out by the loader itself
/// (`from_elf_sections`: concatenation respecting sh_addralign).  Only lengths, contents and flags of
/// the plan are used.  Non-loaded sections (no SHF_ALLOC, size 0) are interleaved.
fn elf_rel(rng: &mut Rng, plan: &[SegPlan], le: bool, c64: bool, lkm: bool) -> Vec<u8> {
    let ehsize: u64 = if c64 { 64 } else { 52 };
    struct S { name: String, ty: u32, flags: u64, data: Vec<u8>, size: u64, align: u64 }
    let mut secs: Vec<S> = vec![S { name: String::new(), ty: 0, flags: 0, data: vec![], size: 0, align: 0 }];
    for (i, p) in plan.iter().enumerate() {
        if rng.chance(1, 4) {
            // not loaded: no SHF_ALLOC
            secs.push(S { name: format!(".dbg{}", i), ty: 1, flags: 0, data: content(rng, 5), size: 5, align: 1 });
        }
        if rng.chance(1, 6) {
            // not loaded: empty
            secs.push(S { name: format!(".e{}", i), ty: 1, flags: 2, data: vec![], size: 0, align: 1 });
        }
        let nobits = p.bytes.iter().all(|b| *b == 0) && rng.chance(1, 2);
        let flags = 2 | (p.w as u64) | ((p.x as u64) << 2);
        let align = *rng.pick(&[0u64, 1, 1, 1, 1, 2, 4, 3]);
        let name = if lkm && i == 0 { ".modinfo".to_string() } else if lkm && i == 1 { ".gnu.linkonce.this_module".to_string() } else { format!(".s{}", i) };
        secs.push(S { name, ty: if nobits { 8 } else { 1 }, flags, data: if nobits { vec![] } else { p.bytes.clone() }, size: p.bytes.len() as u64, align });
    }
    let mut strtab = vec![0u8];
    let mut names = Vec::new();
    for s in &secs {
        names.push(strtab.len() as u32);
        strtab.extend(s.name.as_bytes());
        strtab.push(0);
    }
    let shstr_name = strtab.len() as u32;
    strtab.extend(b".shstrtab\0");
    let mut w = W { b: Vec::new(), le, c64 };
    let data_len: u64 = secs.iter().map(|s| s.data.len() as u64).sum::<u64>() + strtab.len() as u64;
    let shoff = ehsize + data_len;
    w.header(1, 0, 0, shoff, secs.len() as u16 + 1, secs.len() as u16);
    let mut offs = Vec::new();
    for s in &secs {
        offs.push(w.b.len() as u64);
        w.b.extend(&s.data);
    }
    let stroff = w.b.len() as u64;
    w.b.extend(&strtab);
    assert_eq!(w.b.len() as u64, shoff);
    for (i, s) in secs.iter().enumerate() {
        if i == 0 {
            w.shdr(0, 0, 0, 0, 0, 0, 0);
        } else {
            w.shdr(names[i], s.ty, s.flags, 0, offs[i], s.size, s.align);
        }
    }
    w.shdr(shstr_name, 3, 0, 0, stroff, strtab.len() as u64, 1);
    w.b
}

/// Build one image through a randomly chosen public route.  Returns (route name, image) or None
/// if the route refused the input (counted, not an event).
fn build_image(rng: &mut Rng) -> Option<(String, RuntimeMemoryImage)> {
    let le = rng.chance(1, 2);
    let n = match rng.below(12) { 0 => 1, 1..=4 => 2, 5..=9 => 3, _ => 4 };
    match rng.below(10) {
        // struct literals, sometimes through a serde round trip
        0..=3 => {
            if rng.chance(1, 40) {
                return Some(("empty".into(), RuntimeMemoryImage::empty(le)));
            }
            let start = start_address(rng, false);
            let plan = plan_segments(rng, n, start, true);
            let mut img = image_from_plan(rng, &plan, le);
            let mut via = "struct";
            if rng.chance(1, 3) {
                img = serde_json::from_value(serde_json::to_value(&img).unwrap()).unwrap();
                via = "serde";
            }
            Some((via.into(), img))
        }
        // bare metal: flash (content = binary) + RAM (zeroes), often adjacent
        4 | 5 => {
            let start = start_address(rng, true);
            let mut plan = plan_segments(rng, 2, start, true);
            // plan[0] = flash, plan[1] = ram (either order in the address space)
            if rng.chance(1, 2) { plan.swap(0, 1) }
            let hex = |x: u64, rng: &mut Rng| if rng.chance(1, 2) { format!("0x{:x}", x) } else { format!("{:X}", x) };
            let cfg = BareMetalConfig {
                processor_id: format!("ARM:{}:32:Cortex", if le { "LE" } else { "BE" }),
                flash_base_address: hex(plan[0].base, rng),
                ram_base_address: hex(plan[1].base, rng),
                ram_size: hex(plan[1].bytes.len() as u64, rng),
            };
            let bin = plan[0].bytes.clone();
            match catch(move || RuntimeMemoryImage::new_from_bare_metal(&bin, &cfg).ok()) {
                Ok(Some(img)) => Some(("bare_metal".into(), img)),
                _ => None,
            }
        }
        // executable / shared object: PT_LOAD segments
        6 | 7 => {
            let c64 = rng.chance(1, 2);
            let start = start_address(rng, !c64);
            let plan = plan_segments(rng, n, start, false);
            let bin = elf_exec(rng, &plan, le, c64);
            match catch(move || RuntimeMemoryImage::new(&bin).ok()) {
                Ok(Some(img)) => Some((format!("elf_exec{}", if c64 { 64 } else { 32 }), img)),
                _ => None,
            }
        }
        // relocatable object / kernel module: sections concatenated by the loader, then shifted
        _ => {
            let c64 = rng.chance(1, 2);
            let plan = plan_segments(rng, n, 0, false);
            let lkm = rng.chance(1, 2);
            let bin = elf_rel(rng, &plan, le, c64, lkm);
            match catch(move || RuntimeMemoryImage::new(&bin).ok()) {
                Ok(Some(mut img)) => {
                    if rng.chance(2, 3) {
                        let off = start_address(rng, !c64);
                        img.add_global_memory_offset(off);
                    }
                    Some((format!("elf_rel{}{}", if c64 { 64 } else { 32 }, if img.is_lkm { "_lkm" } else { "" }), img))
                }
                _ => None,
            }
        }
    }
}

// ---------------------------------------------------------------------------------------------
// queries
// ---------------------------------------------------------------------------------------------
fn addr_value(rng: &mut Rng, a: u64) -> Value {
    // an address below 2^32 is sometimes given as a 4-byte constant (32-bit targets)
    if a <= u32::MAX as u64 && rng.chance(1, 2) {
        bv(&Bitvector::from_u32(a as u32))
    } else {
        addr8(a)
    }
}

fn queries(rng: &mut Rng, img: &RuntimeMemoryImage) -> Vec<Value> {
    let mut addrs: Vec<u64> = Vec::new();
    let mut ends: Vec<u64> = Vec::new();
    for s in &img.memory_segments {
        let len = s.bytes.len() as u64;
        ends.push(s.base_address.wrapping_add(len));
        // all addresses base-2 .. base+len+2 (wrapping below 0 is a legal, unmapped address)
        for d in 0..(len + 5) {
            addrs.push(s.base_address.wrapping_add(d).wrapping_sub(2));
        }
        // where a 16-byte read starts to fit / stops fitting
        for d in [16u64, 17, 15, 9, 8, 7] {
            addrs.push(s.base_address.wrapping_add(len).wrapping_sub(d));
        }
    }
    for _ in 0..3 {
        addrs.push(rng.next());
        addrs.push(rng.below(1 << 33));
    }
    addrs.push(0);
    addrs.push(u64::MAX);
    addrs.sort();
    addrs.dedup();
    ends.sort();
    let mut evs = Vec::new();
    let inp = |q: &str, a: Value, size: u64, end: u64| json!({"q": q, "addr": a, "size": size, "end": addr8(end)});
    for &a in &addrs {
        for size in [1u64, 2, 4, 8] {
            evs.push(inp("read", addr_value(rng, a), size, 0));
        }
        if rng.chance(1, 3) {
            let size = *rng.pick(&[3u64, 5, 6, 7, 16]);
            evs.push(inp("read", addr_value(rng, a), size, 0));
        }
        // is_global_memory_address: the constant's width is the read size
        for size in [1u64, 2, 4, 8] {
            if size == 8 || a < (1u64 << (8 * size)) {
                evs.push(inp("global", bv(&bv_u64(a, size)), size, 0));
            }
        }
        evs.push(inp("string", addr_value(rng, a), 0, 0));
        evs.push(inp("writable", addr_value(rng, a), 0, 0));
        evs.push(inp("ropointer", addr_value(rng, a), 0, 0));
        // intervals [a, end) with a <= end: around a, around every segment end
        let mut es: Vec<u64> = vec![a, a.saturating_add(1), a.saturating_add(rng.below(64))];
        // the two nearest segment ends at or behind a (the own segment's end and the next one)
        for &e in ends.iter().filter(|e| **e >= a).take(2) {
            for d in [-1i64, 0, 1] {
                es.push(e.wrapping_add(d as u64));
            }
        }
        es.sort();
        es.dedup();
        for e in es {
            if e >= a {
                evs.push(inp(if rng.chance(1, 2) { "ireadable" } else { "iwritable" }, addr8(a), 0, e));
            }
        }
    }
    evs
}

fn has_adjacent(img: &RuntimeMemoryImage) -> bool {
    img.memory_segments.iter().any(|s| {
        !s.bytes.is_empty()
            && img.memory_segments.iter().any(|t| !t.bytes.is_empty() && t.base_address == s.base_address.wrapping_add(s.bytes.len() as u64))
    })
}

pub fn gen(out: &mut Out, _sub: &str) {
    let mut rng = Rng::new(out.seed ^ 0xC19);
    let layouts = out.size(120, 3000);
    let mut refused = 0u64;
    let mut routes: std::collections::BTreeMap<String, u64> = Default::default();
    let mut adjacent = 0u64;
    let mut done = 0;
    while done < layouts {
        let mut r = rng.fork();
        let Some((via, img)) = build_image(&mut r) else { refused += 1; continue };
        *routes.entry(via.clone()).or_default() += 1;
        let adj = has_adjacent(&img);
        adjacent += adj as u64;
        let mut evs = vec![reset_event(&img, &via)];
        for q in queries(&mut r, &img) {
            evs.push(exec_query(&img, &q));
        }
        out.emit(evs, adj);
        done += 1;
    }
    out.extra.insert("routes".into(), json!(routes));
    out.extra.insert("layouts_with_adjacent_segments".into(), json!(adjacent));
    out.extra.insert("constructor_refusals".into(), json!(refused));
}

pub fn replay(run: &[Value], _sub: &str) -> Vec<Value> {
    let mut out = Vec::new();
    let mut img = RuntimeMemoryImage::empty(true);
    for ev in run {
        if ev["ev"] == "reset" {
            img = image_from_reset(ev);
            out.push(reset_event(&img, ev["via"].as_str().unwrap_or("replay")));
        } else {
            out.push(exec_query(&img, ev));
        }
    }
    out
}
