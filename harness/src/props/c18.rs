//! C18: constant-argument checkers (`cwe_560::check_cwe`, `cwe_467::check_cwe`).
//!
//! Generates one-call blocks that compute the call's parameter(s) from constants alone (chains of
//! add/sub/and/or/xor/shift/extension/subpiece steps, copies through registers and temporaries, a stack
//! store followed by a load of the same slot and size; register and stack parameter conventions),
//! runs the REAL checkers and records the number of warnings.  TLC (spec/trace/T_C18.tla) runs the block
//! in the IR reference semantics and decides.  Nothing here decides anything.
use crate::enc::*;
use crate::irenc;
use crate::irenc::mk_tid;
use crate::exprgen::*;
use crate::out::{catch, Out};
use crate::rng::Rng;
use cwe_checker_lib::analysis::graph::get_program_cfg;
use cwe_checker_lib::checkers::{cwe_467, cwe_560};
use cwe_checker_lib::intermediate_representation::*;
use cwe_checker_lib::pipeline::AnalysisResults;
use serde_json::{json, Value};

const BLK: &str = "blk_1000";

#[derive(serde::Serialize, serde::Deserialize, Clone)]
pub struct Input {
    pub checker: String,
    pub defs: Vec<Term<Def>>,
    pub symbol: ExternSymbol,
    /// inputs-only feature: some add/sub/mult/shift-left step of the (only) parameter chain overflows
    /// the signed range of its width
    #[serde(default)]
    pub ovf_chain: bool,
}

fn interesting(rng: &mut Rng) -> i64 {
    match rng.below(24) {
        0 => 0,
        1 => 0o22,
        2 => 0o177,
        3 => 0o200,
        4 => 0o176,
        5 => 0o666,
        6 => 0o776,
        7 => 0o777,
        8 => 0o1000,
        9 => 0o644,
        10 => 7,
        11 => 8,
        12 => 9,
        13 => 4,
        14 => 16,
        15 => 0x1_0000_0008,
        16 => -1,
        17 => 0x100 + 8,
        18 => 0x1_0000_01ff,
        19 => 0x80,
        _ => rng.range(0, 0o2000),
    }
}

/// value of the low `size` bytes of x as a signed number
fn sext(x: i64, size: u64) -> i128 {
    if size >= 8 {
        x as i128
    } else {
        let bits = 8 * size as u32;
        let m = (x as i128) & ((1i128 << bits) - 1);
        if m >> (bits - 1) & 1 == 1 { m - (1i128 << bits) } else { m }
    }
}
/// does the mathematical result r leave the signed range of `size` bytes?  The analyzer's interval domain
/// deliberately gives up (Top) on signed overflow of add/sub/mul/shift-left, also for constants, so such
/// computations are outside the input class "constant that the block computes" (modelled deviation).
fn sovf(r: i128, size: u64) -> bool {
    let bits = 8 * size.min(8) as u32;
    r < -(1i128 << (bits - 1)) || r > (1i128 << (bits - 1)) - 1
}

struct Gen<'a> {
    rng: &'a mut Rng,
    defs: Vec<Term<Def>>,
    ntemp: u64,
    /// this event's (single) parameter chain gets a step that overflows in the signed sense
    allow_ovf: bool,
    /// such a step was emitted
    ovf: bool,
}

impl<'a> Gen<'a> {
    fn push(&mut self, d: Def) {
        let n = self.defs.len();
        self.defs.push(Term { tid: mk_tid(&format!("instr_1000_{}", n), "1000"), term: d });
    }
    fn holder(&mut self, size: u64) -> Variable {
        if size == 8 && self.rng.chance(2, 3) {
            reg(*self.rng.pick(&["RAX", "RBX", "RCX", "RBP"]), 8)
        } else {
            self.ntemp += 1;
            tmp(&format!("$U{}_{}", self.ntemp, size), size)
        }
    }
    /// emit defs that leave the constant `want` (truncated to `size` bytes) in a variable; returns it
    fn chain(&mut self, want: i64, size: u64) -> Variable {
        use BinOpType::*;
        let mask = |x: i64| -> i64 {
            if size >= 8 {
                x
            } else {
                x & ((1i64 << (8 * size)) - 1)
            }
        };
        // start value and random steps
        let mut cur_val = mask(if self.rng.chance(1, 2) { interesting(self.rng) } else { self.rng.range(0, 0o2000) });
        let mut cur = self.holder(size);
        self.push(Def::Assign { var: cur.clone(), value: cst(cur_val, size) });
        let steps = self.rng.below(4);
        for _ in 0..steps {
            let c = mask(if self.rng.chance(1, 2) { self.rng.range(0, 0o1000) } else { interesting(self.rng) });
            let next = self.holder(size);
            let mut pick = self.rng.below(9);
            let k_shift = self.rng.below(4) as i64;
            // steps that would overflow in the signed sense become plain copies (unless this chain is an
            // overflow chain: the analyzer's interval domain gives up on signed overflow, known finding)
            let overflows = match pick {
                0 => sovf(sext(cur_val, size) + sext(c, size), size),
                1 => sovf(sext(cur_val, size) - sext(c, size), size),
                5 => sovf(sext(cur_val, size) * (1i128 << k_shift), size),
                _ => false,
            };
            if overflows && self.allow_ovf {
                self.ovf = true;
            } else if overflows {
                pick = 8;
            }
            match pick {
                0 => {
                    self.push(Def::Assign { var: next.clone(), value: bin(IntAdd, var(&cur), cst(c, size)) });
                    cur_val = mask(cur_val.wrapping_add(c));
                }
                1 => {
                    self.push(Def::Assign { var: next.clone(), value: bin(IntSub, var(&cur), cst(c, size)) });
                    cur_val = mask(cur_val.wrapping_sub(c));
                }
                2 => {
                    self.push(Def::Assign { var: next.clone(), value: bin(IntAnd, var(&cur), cst(c, size)) });
                    cur_val = mask(cur_val & c);
                }
                3 => {
                    self.push(Def::Assign { var: next.clone(), value: bin(IntOr, cst(c, size), var(&cur)) });
                    cur_val = mask(cur_val | c);
                }
                4 => {
                    self.push(Def::Assign { var: next.clone(), value: bin(IntXOr, var(&cur), cst(c, size)) });
                    cur_val = mask(cur_val ^ c);
                }
                5 => {
                    let k = k_shift;
                    let asz = if self.rng.chance(1, 3) { 1 } else { size };
                    self.push(Def::Assign { var: next.clone(), value: bin(IntLeft, var(&cur), cst(k, asz)) });
                    cur_val = mask(cur_val.wrapping_shl(k as u32));
                }
                6 => {
                    let k = self.rng.below(4) as i64;
                    self.push(Def::Assign { var: next.clone(), value: bin(IntRight, var(&cur), cst(k, size)) });
                    cur_val = mask(((mask(cur_val) as u64) >> k) as i64);
                }
                7 => {
                    // spill and reload: same slot, same size
                    let off = -8 * self.rng.range(1, 6);
                    let a = bin(IntAdd, var(&sp_var()), cst(off, 8));
                    self.push(Def::Store { address: a.clone(), value: var(&cur) });
                    self.push(Def::Load { var: next.clone(), address: a });
                }
                _ => {
                    self.push(Def::Assign { var: next.clone(), value: var(&cur) });
                }
            }
            cur = next;
        }
        if self.allow_ovf {
            // one step that certainly overflows the signed range of `size` bytes
            let bits = 8 * size.min(8) as u32;
            let (smin, smax) = (-(1i128 << (bits - 1)), (1i128 << (bits - 1)) - 1);
            if (-1..=1).contains(&sext(cur_val, size)) {
                let next = self.holder(size);
                self.push(Def::Assign { var: next.clone(), value: bin(IntAdd, var(&cur), cst(0x10, size)) });
                cur_val = mask(cur_val.wrapping_add(0x10));
                cur = next;
            }
            let sv = sext(cur_val, size);
            let next = self.holder(size);
            match self.rng.below(4) {
                0 => {
                    let k = (bits - 1) as i64;
                    self.push(Def::Assign { var: next.clone(), value: bin(IntLeft, var(&cur), cst(k, size)) });
                    cur_val = mask(cur_val.wrapping_shl(k as u32));
                }
                1 => {
                    let c = smax as i64;
                    self.push(Def::Assign { var: next.clone(), value: bin(IntMult, var(&cur), cst(c, size)) });
                    cur_val = mask(cur_val.wrapping_mul(c));
                }
                _ if sv > 0 => {
                    let r = self.rng.range(0, (sv - 1).min(0o1000) as i64) as i128;
                    let c = (smax - sv + 1 + r) as i64;
                    self.push(Def::Assign { var: next.clone(), value: bin(IntAdd, var(&cur), cst(c, size)) });
                    cur_val = mask(cur_val.wrapping_add(c));
                }
                _ => {
                    let r = self.rng.range(0, (-2 - sv).min(0o1000) as i64) as i128;
                    let c = (sv - smin + 1 + r) as i64;
                    self.push(Def::Assign { var: next.clone(), value: bin(IntSub, var(&cur), cst(c, size)) });
                    cur_val = mask(cur_val.wrapping_sub(c));
                }
            }
            self.ovf = true;
            cur = next;
        }
        // final adjustment to the wanted value (the harness only needs the value to steer towards the
        // thresholds; the specification recomputes everything)
        if self.rng.chance(3, 4) {
            let next = self.holder(size);
            let want = mask(want);
            let delta = mask(want.wrapping_sub(cur_val));
            let delta2 = mask(cur_val.wrapping_sub(want));
            let mut how = self.rng.below(3);
            if self.allow_ovf {
                how = 2;
            } else if (how == 0 && sovf(sext(cur_val, size) + sext(delta, size), size)) || (how == 1 && sovf(sext(cur_val, size) - sext(delta2, size), size)) {
                how = 2;
            }
            match how {
                0 => self.push(Def::Assign { var: next.clone(), value: bin(IntAdd, var(&cur), cst(delta, size)) }),
                1 => self.push(Def::Assign { var: next.clone(), value: bin(IntSub, var(&cur), cst(delta2, size)) }),
                _ => self.push(Def::Assign { var: next.clone(), value: bin(IntXOr, var(&cur), cst(mask(cur_val ^ want), size)) }),
            }
            cur = next;
        }
        cur
    }
    /// bring a constant into parameter `arg`
    fn set_param(&mut self, arg: &Arg, want: i64) {
        match arg {
            Arg::Register { expr, .. } => {
                let (target, psize) = match expr {
                    Expression::Var(v) => (v.clone(), u64::from(v.size)),
                    Expression::Subpiece { size, arg, .. } => match &**arg {
                        Expression::Var(v) => (v.clone(), u64::from(*size)),
                        _ => unreachable!(),
                    },
                    _ => unreachable!(),
                };
                let full = u64::from(target.size);
                // compute at the parameter's size and extend, or at the register's size
                if psize < full && self.rng.chance(1, 2) {
                    let v = self.chain(want, psize);
                    let op = if self.rng.chance(1, 2) { CastOpType::IntZExt } else { CastOpType::IntSExt };
                    self.push(Def::Assign { var: target, value: cast(op, full, var(&v)) });
                } else if self.rng.chance(1, 6) {
                    // wide computation, then the low half through a subpiece and back
                    let v = self.chain(want, full);
                    self.push(Def::Assign { var: target, value: cast(CastOpType::IntZExt, full, subpiece(0, 4, var(&v))) });
                } else {
                    let v = self.chain(want, full);
                    self.push(Def::Assign { var: target, value: var(&v) });
                }
            }
            Arg::Stack { address, size, .. } => {
                let v = self.chain(want, u64::from(*size));
                self.push(Def::Store { address: address.clone(), value: var(&v) });
            }
        }
    }
}

impl<'a> Gen<'a> {
    fn store_const(&mut self, off: i64, val: i64, size: u64) {
        let a = if off < 0 && self.rng.chance(1, 2) {
            bin(BinOpType::IntSub, var(&sp_var()), cst(-off, 8))
        } else {
            bin(BinOpType::IntAdd, var(&sp_var()), cst(off, 8))
        };
        // the constant directly or through a register / temporary
        if self.rng.chance(1, 2) {
            self.push(Def::Store { address: a, value: cst(val, size) });
        } else {
            let h = self.holder(size);
            self.push(Def::Assign { var: h.clone(), value: cst(val, size) });
            self.push(Def::Store { address: a, value: var(&h) });
        }
    }
    /// Stack-slot shapes: several locals at different offsets, a larger slot, a LATER store that starts
    /// strictly inside it / overlaps it partially, then a load of the original slot or of a sub-range.
    /// Every byte is a constant, so the parameter is a constant; the specification judges it by its true
    /// value.  The constants are steered (mechanically, by the recipes below) so that a load that no
    /// longer corresponds to one stored element has a true value that needs NO warning, while the stale
    /// value of the overwritten element would need one.  Returns the parameter the value ends up in.
    fn slot_scenario(&mut self, umask: bool, regname: &str, stack_off: i64) -> Arg {
        let size: u64 = if self.rng.chance(2, 3) { 8 } else { 4 };
        let o = -8 * self.rng.range(2, 5); // the slot [o, o+size)
        // locals below (and sometimes above) the slot; the lowest one is the "first" element of the region
        let ndecoy = 1 + self.rng.below(3) as i64;
        let mut order: Vec<i64> = (1..=ndecoy).collect();
        self.rng.shuffle(&mut order);
        let big_first = self.rng.chance(1, 3);
        // stale value of the slot: would need a warning
        let (stale, small_val, small_size, d): (i64, i64, u64, i64) = if umask {
            match self.rng.below(3) {
                0 => (0x2ff, 1, 1, 1),                                                  // true value 0o777
                _ => (0x100 * self.rng.range(1, 3) + self.rng.range(0, 127), 0, *self.rng.pick(&[1, 2, 3]), 1), // true value <= 0o177
            }
        } else {
            let s = *self.rng.pick(&[1u64, 2, 4]);
            let d = self.rng.range(1, size as i64 - 1);
            (*self.rng.pick(&[8i64, 8, 8, 0x108, 16]), *self.rng.pick(&[1i64, 2, 0xff, 8]), s, d)
        };
        if big_first {
            self.store_const(o, stale, size);
        }
        for j in order {
            let dsz = *self.rng.pick(&[4u64, 8, 2]);
            let v = interesting(self.rng);
            self.store_const(o - 8 * j, v, dsz);
        }
        if !big_first {
            self.store_const(o, stale, size);
        }
        if o + 16 <= -8 && self.rng.chance(1, 3) {
            let v = interesting(self.rng);
            self.store_const(o + 8, v, 8);
        }
        let recipe = self.rng.below(10);
        let (load_off, load_size): (i64, u64) = match recipe {
            0..=5 => {
                // later store strictly inside the slot (or running over its end); reload the whole slot
                self.store_const(o + d, small_val, small_size);
                (o, size)
            }
            6 | 7 => {
                // later, equally sized store overlapping the slot from below; reload the whole slot.
                // Its upper half becomes the lower half of the slot: zero for umask (true value stays
                // small: the slot's own upper half is zero), non-zero otherwise
                let half = (size / 2) as i64;
                let upper: i64 = if umask { 0 } else { 3 };
                let v = (upper << (8 * half)) | 0x55;
                self.store_const(o - half, v, size);
                (o, size)
            }
            _ => {
                // later store inside the slot, then a load of exactly that sub-range (any value: exact)
                let sub = if size == 8 { 4 } else { 2 };
                let v = if umask { interesting(self.rng) } else { *self.rng.pick(&[8i64, 8, 4, 16, 0x108]) };
                self.store_const(o + sub as i64, v, sub);
                (o + sub as i64, sub)
            }
        };
        // load and pass on
        let t = self.holder(load_size);
        let a = bin(BinOpType::IntAdd, var(&sp_var()), cst(load_off, 8));
        self.push(Def::Load { var: t.clone(), address: a });
        if self.rng.chance(1, 3) {
            let arg = Arg::Stack { address: bin(BinOpType::IntAdd, var(&sp_var()), cst(stack_off, 8)), size: ByteSize::new(load_size), data_type: None };
            if let Arg::Stack { address, .. } = &arg {
                self.push(Def::Store { address: address.clone(), value: var(&t) });
            }
            arg
        } else if load_size == 8 {
            self.push(Def::Assign { var: reg(regname, 8), value: var(&t) });
            Arg::from_var(reg(regname, 8), None)
        } else {
            self.push(Def::Assign { var: reg(regname, 8), value: cast(CastOpType::IntZExt, 8, var(&t)) });
            Arg::Register { expr: subpiece(0, load_size, var(&reg(regname, 8))), data_type: None }
        }
    }
}

fn param(rng: &mut Rng, regname: &str, stack_off: i64) -> Arg {
    match rng.below(6) {
        0 | 1 | 2 => Arg::from_var(reg(regname, 8), None),
        3 => Arg::Register { expr: subpiece(0, 4, var(&reg(regname, 8))), data_type: None },
        4 => Arg::Stack { address: bin(BinOpType::IntAdd, var(&sp_var()), cst(stack_off, 8)), size: ByteSize::new(4), data_type: None },
        _ => Arg::Stack { address: bin(BinOpType::IntAdd, var(&sp_var()), cst(stack_off, 8)), size: ByteSize::new(8), data_type: None },
    }
}

pub fn gen_input(seed: u64, idx: u64) -> Input {
    let mut rng = Rng::new(seed.wrapping_mul(0x1_0000_01B3).wrapping_add(idx).wrapping_add(0xC18));
    let umask = rng.chance(1, 2);
    let nparams = if umask { 1 } else { 1 + rng.below(3) as usize };
    let name = if umask { "umask" } else { *rng.pick(&["malloc", "memmove"]) };
    // which parameter (if any) comes out of a stack-slot scenario
    let slot_param = if rng.chance(2, 5) { Some(rng.below(nparams as u64) as usize) } else { None };
    let mut params: Vec<Arg> = Vec::new();
    // about 1 in 10 single-parameter chains contains a step that overflows in the signed sense
    let allow_ovf = nparams == 1 && slot_param.is_none() && rng.chance(1, 10);
    let mut g = Gen { rng: &mut rng, defs: vec![], ntemp: 0, allow_ovf, ovf: false };
    for i in 0..nparams {
        let regname = ["RDI", "RSI", "RDX"][i];
        if slot_param == Some(i) {
            let p = g.slot_scenario(umask, regname, 8 * i as i64);
            params.push(p);
            continue;
        }
        let p = param(g.rng, regname, 8 * i as i64);
        params.push(p.clone());
        // a parameter is sometimes left to the caller's caller (not computed in this block)
        if i > 0 && g.rng.chance(1, 4) {
            continue;
        }
        let want = if umask || g.rng.chance(1, 2) {
            interesting(g.rng)
        } else {
            *g.rng.pick(&[8i64, 8, 4, 16, 7, 9, 0x1_0000_0008, 0x108])
        };
        g.set_param(&p, want);
    }
    let ovf_chain = g.ovf;
    let defs = g.defs;
    let symbol = mk_extern(name, "a000", params, false);
    Input { checker: if umask { "CWE560".into() } else { "CWE467".into() }, defs, symbol, ovf_chain }
}

fn build(input: &Input) -> Project {
    let call = Term {
        tid: mk_tid("instr_1000_j0", "1000"),
        term: Jmp::Call { target: input.symbol.tid.clone(), return_: Some(mk_tid("blk_1010", "1010")) },
    };
    let ret = Term { tid: mk_tid("instr_1010_j0", "1010"), term: Jmp::Return(var(&reg("RBX", 8))) };
    let sub = Term {
        tid: mk_tid("sub_1000", "1000"),
        term: Sub {
            name: "f".into(),
            blocks: vec![
                Term { tid: mk_tid(BLK, "1000"), term: Blk { defs: input.defs.clone(), jmps: vec![call], indirect_jmp_targets: vec![] } },
                Term { tid: mk_tid("blk_1010", "1010"), term: Blk { defs: vec![], jmps: vec![ret], indirect_jmp_targets: vec![] } },
            ],
            calling_convention: None,
        },
    };
    mk_project(vec![sub], vec![input.symbol.clone()])
}

pub fn exec(input: &Input, seed: u64, idx: u64) -> Value {
    let project = build(input);
    let res = catch(std::panic::AssertUnwindSafe(|| {
        let graph = get_program_cfg(&project.program);
        let ar = AnalysisResults::new(&[], &graph, &project);
        let (_logs, warnings) = if input.checker == "CWE560" {
            cwe_560::check_cwe(&ar, &Value::Null)
        } else {
            cwe_467::check_cwe(&ar, &json!({"symbols": ["malloc", "memmove"]}))
        };
        warnings.len() as u64
    }));
    let (warned, panic) = match res {
        Ok(n) => (n as i64, String::new()),
        Err(m) => (-1, if m.is_empty() { "panic".to_string() } else { m }),
    };
    let mut rng = Rng::new(seed.wrapping_mul(77).wrapping_add(idx).wrapping_add(0x18));
    let inits = crate::props::c10::gen_inits(&mut rng, 2);
    let blk = &project.program.term.subs[&mk_tid("sub_1000", "1000")].term.blocks[0];
    json!({"ev": "c18", "checker": input.checker, "symbol": input.symbol.name, "blk": irenc::blk(blk),
           "params": input.symbol.parameters.iter().map(irenc::arg).collect::<Vec<_>>(),
           "sp": irenc::var(&project.stack_pointer_register),
           "physregs": project.register_set.iter().map(irenc::var).collect::<Vec<_>>(),
           "ptr": u64::from(project.get_pointer_bytesize()),
           "initA": inits[0], "initB": inits[1], "seedA": (seed + idx) % 60000, "seedB": (seed + idx + 7919) % 60000,
           "warned": warned, "panic": panic, "ovf_chain": input.ovf_chain,
           "input": serde_json::to_string(input).unwrap()})
}

pub fn gen(out: &mut Out, _sub: &str) {
    let n = out.size(1200, 20000);
    let seed = out.seed;
    for idx in 0..n {
        let input = gen_input(seed, idx);
        let nontrivial = input.defs.len() >= 3;
        let ev = exec(&input, seed, idx);
        out.emit(vec![ev], nontrivial);
    }
}

pub fn replay(run: &[Value], _sub: &str) -> Vec<Value> {
    let mut out = Vec::new();
    for (i, ev) in run.iter().enumerate() {
        if let Some(Ok(input)) = ev["input"].as_str().map(serde_json::from_str::<Input>) {
            let mut e = exec(&input, 0, i as u64);
            for k in ["initA", "initB", "seedA", "seedB"] {
                e[k] = ev[k].clone();
            }
            out.push(e);
        }
    }
    out
}
