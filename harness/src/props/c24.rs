//! C24: `analysis::callgraph::{get_program_callgraph, find_call_sequences_to_target}`.
//! One event per program: the program and, for every ordered pair (s, t) of its functions, the
//! returned set of call TIDs.  spec/trace/T_C24.tla compares with spec/Callgraph.tla.
use crate::irenc;
use crate::irgen::{self, Knobs, RawKnobs};
use crate::out::{catch, Out};
use crate::rng::Rng;
use cwe_checker_lib::analysis::callgraph::{find_call_sequences_to_target, get_program_callgraph};
use cwe_checker_lib::intermediate_representation::*;
use serde_json::{json, Value};
use std::collections::BTreeMap;

pub fn exec(prog: &Term<Program>, origin: &str) -> (Value, bool) {
    let subs: Vec<Tid> = prog.term.subs.keys().cloned().collect();
    let mut queries = Vec::new();
    let mut sizes = std::collections::BTreeSet::new();
    for s in &subs {
        for t in &subs {
            let (p2, s2, t2) = (prog.clone(), s.clone(), t.clone());
            let res = catch(move || {
                let cg = get_program_callgraph(&p2);
                find_call_sequences_to_target(&cg, &s2, &t2).iter().map(|x| x.to_string()).collect::<Vec<String>>()
            });
            match res {
                Ok(calls) => {
                    sizes.insert(calls.len());
                    queries.push(json!({"s": s.to_string(), "t": t.to_string(), "calls": calls, "panic": ""}))
                }
                Err(msg) => queries.push(json!({"s": s.to_string(), "t": t.to_string(), "calls": [], "panic": msg})),
            }
        }
    }
    // feature tag (counted only): the queries of this program have at least three different result sizes
    // (so some result is neither empty nor "all calls")
    let nt = sizes.len() >= 3;
    (json!({"ev": "cg", "origin": origin, "program": irenc::program(&prog.term), "queries": queries,
            "serde": irgen::program_to_string(prog)}), nt)
}

pub fn replay(run: &[Value], _sub: &str) -> Vec<Value> {
    run.iter()
        .map(|e| exec(&irgen::program_from_string(e["serde"].as_str().unwrap()), e["origin"].as_str().unwrap_or("replay")).0)
        .collect()
}

/// the program whose function u has one block per edge (u, v) of `edges`, calling v
fn graph_program(n: usize, edges: &[(usize, usize)]) -> Term<Program> {
    let mut subs = BTreeMap::new();
    for u in 0..n {
        let mut blocks = vec![];
        for (b, (_, v)) in edges.iter().filter(|(a, _)| *a == u).enumerate() {
            let a = format!("{:08x}", 0x1000 * (u as u64 + 1) + 0x10 * b as u64);
            blocks.push(Term {
                tid: irgen::blk_tid(u, b),
                term: Blk {
                    defs: vec![],
                    jmps: vec![Term { tid: irgen::tid(&format!("instr_{}_0", a), &a), term: Jmp::Call { target: irgen::sub_tid(*v), return_: None } }],
                    indirect_jmp_targets: vec![],
                },
            });
        }
        let st = irgen::sub_tid(u);
        subs.insert(st.clone(), Term { tid: st, term: Sub { name: format!("f{}", u), blocks, calling_convention: None } });
    }
    Term {
        tid: irgen::tid("prog_00001000", "00001000"),
        term: Program { subs, extern_symbols: BTreeMap::new(), entry_points: Default::default(), address_base_offset: 0 },
    }
}

pub fn gen(out: &mut Out, _sub: &str) {
    let mut rng = Rng::new(out.seed ^ 0xC24);
    let mut nq = 0usize;
    let n = out.size(400, 6000);
    for i in 0..n {
        let mut r = rng.fork();
        let mut k = Knobs::default();
        k.min_subs = 2;
        k.max_subs = if i % 3 == 0 { 4 } else { 8 };
        k.max_blocks = if i % 3 == 1 { 2 } else { 4 };
        k.max_defs = 0;
        // call-heavy; sparse and dense graphs
        k.w_call_internal = if i % 2 == 0 { 30 } else { 12 };
        k.w_call_extern = 6;
        k.w_callind = 6;
        k.w_branch = 6;
        k.w_cbranch_branch = 6;
        // conditionally executed calls: the call is the SECOND jump of its block
        k.w_cbranch_call_internal = 10;
        k.w_cbranch_call_extern = 2;
        k.w_cbranch_callind = 2;
        k.pct_empty_sub = 10;
        let mut prog = irgen::gen_program(&mut r, &k);
        if i % 4 == 3 {
            // some calls to targets that are no function of the program
            let rk = RawKnobs { dangling_jumps: 0, dangling_calls: 3, dangling_rets: 0, dangling_hints: 0, shared_listed: 0, shared_reached: 0,
                                dup_blocks: 0, dup_defs: 0, dup_jmps: 0 };
            irgen::make_raw(&mut r, &mut prog, &rk);
        }
        let (ev, nt) = exec(&prog, "random");
        nq += ev["queries"].as_array().unwrap().len();
        out.emit(vec![ev], nt);
    }
    // random graphs given by edge lists with parallel edges (denser than the IR generator gives)
    let m = out.size(150, 3000);
    for _ in 0..m {
        let nf = 2 + rng.below(7) as usize;
        let ne = rng.below(2 * nf as u64 + 1) as usize;
        let edges: Vec<(usize, usize)> = (0..ne).map(|_| (rng.below(nf as u64) as usize, rng.below(nf as u64) as usize)).collect();
        let (ev, nt) = exec(&graph_program(nf, &edges), "edges");
        nq += ev["queries"].as_array().unwrap().len();
        out.emit(vec![ev], nt);
    }
    if !out.quick() {
        // exhaustive: all 2^9 call graphs on 3 functions, all 9 ordered pairs each
        for mask in 0..512u32 {
            let edges: Vec<(usize, usize)> = (0..9).filter(|b| mask & (1 << b) != 0).map(|b| (b / 3, b % 3)).collect();
            let (ev, nt) = exec(&graph_program(3, &edges), "exhaustive3");
            nq += ev["queries"].as_array().unwrap().len();
            out.emit(vec![ev], nt);
        }
        out.extra.insert("exhaustive_3_function_graphs".into(), json!(512));
    }
    out.extra.insert("queries".into(), json!(nq));
}
