//! X06: the use-after-free / double-free checker (checkers/cwe_416) as an object-state machine.
//! One case = random one- or two-function project -> the (name, TID) pairs of the warnings the REAL
//! `cwe_416::check_cwe` reports (graph -> function signatures -> pointer inference -> check, exactly
//! as the pipeline runs them: `walkrun::run_checker_staged`).  TLC decides with spec/UafWalk.tla.
//!
//! Generator class (spec/UafWalk.tla states it; the trace specification re-checks it per event and
//! accepts an event outside of it vacuously): one function `f` and optionally one callee `g`
//! (only f calls g); heap pointers live in a pool of 8-byte registers and in 8-byte stack slots
//! at negative constant offsets; data registers (R10, R11) never receive a pointer; stores through
//! a pointer store data only; every conditional branch tests a flag that the same block sets to an
//! unknown value (so the pointer inference cannot prune a branch); calls follow the x86-64 stack
//! discipline (RSP := RSP - 8 before a call, RSP := RSP + 8 (+ frame) before a return) or, for a
//! non-x86 architecture name, leave RSP alone; extern symbols come from a fixed table of libc
//! names for which the function-signature analysis has a stub.
use crate::irenc::{self, mk_tid};
use crate::out::Out;
use crate::rng::Rng;
use crate::walkgen::{cconv_std, dec, ebin, econst, evar, mk_extern, mk_project, pick_str, reg, reg_arg, var};
use crate::walkrun::{run_checker_staged, Needs};
use cwe_checker_lib::intermediate_representation::*;
use serde_json::{json, Value};
use std::collections::{BTreeMap, BTreeSet};

/// registers that may hold a heap pointer
const PP: [&str; 5] = ["RAX", "RBX", "R12", "RDI", "RSI"];
/// data registers: never assigned from a pointer register
const DP: [&str; 2] = ["R10", "R11"];

/// The extern table: (name, number of register parameters, has return register).
const EXT: [(&str, usize, bool); 11] = [
    ("malloc", 1, true), ("calloc", 2, true), ("strdup", 1, true), ("free", 1, false), ("fclose", 1, true), ("puts", 1, true),
    ("strlen", 1, true), ("memcmp", 3, true), ("putchar", 1, true), ("getpid", 0, true), ("exit", 1, false),
];
const PARAM_REGS: [&str; 3] = ["RDI", "RSI", "RDX"];

fn externs(r: &mut Rng) -> Vec<ExternSymbol> {
    let mut v = Vec::new();
    for (name, np, ret) in EXT {
        let always = ["malloc", "free"].contains(&name);
        if always || r.chance(3, 4) {
            v.push(mk_extern(name, PARAM_REGS[..np].iter().map(|x| reg_arg(x)).collect(), if ret { vec![reg_arg("RAX")] } else { vec![] }, name == "exit", None));
        }
    }
    v
}

/// Where a pointer is kept across calls: a callee-saved register or a local stack slot (in the callee also the
/// parameter registers, which hold the caller's pointers).
#[derive(Clone, Copy, PartialEq, Debug)]
pub enum Keep {
    Reg(&'static str),
    Slot(i64),
}

struct FnGen<'a> {
    r: &'a mut Rng,
    s: usize,
    n_blks: usize,
    x86: bool,
    frame: i64,
    callee: Option<Tid>,
    externs: &'a [ExternSymbol],
    max_defs: u64,
    /// generation-time guess (straight-line order) of the places that hold a heap pointer, freed or not
    known: Vec<Keep>,
    /// the previous block ended in an allocation call that returns to this block
    pending_rax: bool,
    /// planted skeleton (most programs): the entry block allocates, the next one keeps the pointer in `.1`, block `.0`
    /// releases it (free, or a call of the callee), the blocks behind it prefer `.1` for their uses.  Everything else
    /// (control flow, the other blocks, noise) stays random.
    plan: Option<(usize, Keep)>,
}

fn sub_tid(s: usize) -> Tid {
    mk_tid(&format!("sub_{:08x}", 0x1000 * (s + 1)), &format!("{:08x}", 0x1000 * (s + 1)))
}
fn blk_addr(s: usize, b: usize) -> usize {
    0x1000 * (s + 1) + 0x40 * b
}
fn blk_tid(s: usize, b: usize) -> Tid {
    mk_tid(&format!("blk_{:08x}", blk_addr(s, b)), &format!("{:08x}", blk_addr(s, b)))
}
fn sp_add(c: i64) -> Def {
    Def::Assign { var: reg("RSP"), value: ebin(BinOpType::IntAdd, evar("RSP"), econst(c)) }
}
fn plus(name: &str, c: i64) -> Expression {
    if c == 0 { evar(name) } else { ebin(BinOpType::IntAdd, evar(name), econst(c)) }
}

impl<'a> FnGen<'a> {
    /// a place that probably holds a pointer
    fn known(&mut self) -> Keep {
        if let Some((_, k)) = self.plan {
            if self.r.chance(1, 2) { return k; }
        }
        if !self.known.is_empty() && self.r.chance(85, 100) { self.known[self.r.below(self.known.len() as u64) as usize] } else { self.keeper() }
    }
    fn learn(&mut self, k: Keep) {
        if !self.known.contains(&k) { self.known.push(k); }
    }
    fn keeper(&mut self) -> Keep {
        let x = self.r.below(100);
        if self.s == 1 {
            match x { 0..=39 => Keep::Reg("RDI"), 40..=59 => Keep::Reg("RSI"), 60..=79 => Keep::Reg("RBX"), 80..=89 => Keep::Reg("R12"), _ => Keep::Slot(-16) }
        } else {
            match x { 0..=39 => Keep::Reg("RBX"), 40..=64 => Keep::Reg("R12"), 65..=84 => Keep::Slot(-16), _ => Keep::Slot(-24) }
        }
    }
    /// address of the local slot with the absolute offset `abs` (sp = -frame at the body defs)
    fn slot(&self, abs: i64) -> Expression {
        plus("RSP", abs + self.frame)
    }
    /// defs that bring the kept pointer into a register; returns the register
    fn fetch(&mut self, k: Keep, defs: &mut Vec<Def>, into: Option<&'static str>) -> &'static str {
        match (k, into) {
            (Keep::Reg(r), None) => r,
            (Keep::Reg(r), Some(t)) => { if r != t { defs.push(Def::Assign { var: reg(t), value: evar(r) }); } t }
            (Keep::Slot(o), t) => { let t = t.unwrap_or("RAX"); defs.push(Def::Load { var: reg(t), address: self.slot(o) }); t }
        }
    }
    fn keep_from(&mut self, k: Keep, src: Expression, defs: &mut Vec<Def>) {
        match k {
            Keep::Reg(r) => defs.push(Def::Assign { var: reg(r), value: src }),
            Keep::Slot(o) => defs.push(Def::Store { address: self.slot(o), value: src }),
        }
    }
    fn data_val(&mut self) -> Expression {
        match self.r.below(3) {
            0 => econst(self.r.range(0, 64)),
            _ => evar(pick_str(self.r, &DP)),
        }
    }
    /// one action of a block body (one or two defs)
    fn action(&mut self, defs: &mut Vec<Def>) {
        let off = 8 * self.r.range(0, 2);
        match self.r.below(100) {
            // use: load or store through a kept pointer
            0..=29 => {
                let k = self.known();
                let p = self.fetch(k, defs, None);
                if self.r.chance(3, 5) { defs.push(Def::Load { var: reg(pick_str(self.r, &DP)), address: plus(p, off) }) } else { let v = self.data_val(); defs.push(Def::Store { address: plus(p, off), value: v }) }
            }
            // keep the return value of the last call / a transient pointer
            30..=36 => {
                let k = self.keeper();
                let src = if self.r.chance(4, 5) { "RAX" } else { pick_str(self.r, &PP) };
                self.keep_from(k, evar(src), defs);
            }
            // copy between keepers, possibly with an offset
            37..=57 => {
                let (k1, k2) = (self.known(), self.keeper());
                self.learn(k2);
                let p = self.fetch(k1, defs, None);
                let e = if self.r.chance(1, 4) { plus(p, 8 * self.r.range(1, 3)) } else { evar(p) };
                if k1 != k2 || !matches!(e, Expression::Var(_)) { self.keep_from(k2, e, defs); }
            }
            // forget a pointer
            58..=59 => { let k = self.known(); self.known.retain(|x| *x != k); self.keep_from(k, econst(0), defs); }
            // a transient copy
            60..=72 => {
                let k = self.known();
                let t = pick_str(self.r, &["RDI", "RSI", "RAX"]);
                self.fetch(k, defs, Some(t));
            }
            73..=76 => { let (a, b) = (pick_str(self.r, &PP), pick_str(self.r, &PP)); defs.push(Def::Assign { var: reg(a), value: evar(b) }) }
            77..=95 => {
                let d = pick_str(self.r, &DP);
                let v = match self.r.below(3) {
                    0 => econst(self.r.range(0, 99)),
                    1 => ebin(BinOpType::IntAdd, evar(pick_str(self.r, &DP)), econst(self.r.range(1, 9))),
                    _ => ebin(BinOpType::IntXOr, evar(pick_str(self.r, &DP)), evar(pick_str(self.r, &DP))),
                };
                defs.push(Def::Assign { var: reg(d), value: v })
            }
            // a pointer register loaded from the heap: an untracked value
            _ => { let k = self.known(); let p = self.fetch(k, defs, None); defs.push(Def::Load { var: reg(pick_str(self.r, &PP)), address: plus(p, off) }) }
        }
    }
    fn target(&mut self, b: usize) -> Tid {
        let nb = self.n_blks;
        if b + 1 < nb && self.r.chance(50, 100) {
            return blk_tid(self.s, b + 1);
        }
        let mut t = if self.r.chance(60, 100) && b + 1 < nb { self.r.range(b as i64 + 1, nb as i64 - 1) as usize } else { self.r.below(nb as u64) as usize };
        if t == 0 && self.frame != 0 && nb > 1 {
            // the entry block allocates the frame: jumping back to it would unbalance the stack pointer
            t = 1 + self.r.below(nb as u64 - 1) as usize;
        }
        blk_tid(self.s, t)
    }
    fn ret_defs(&self) -> Vec<Def> {
        let c = self.frame + if self.x86 { 8 } else { 0 };
        if c != 0 { vec![sp_add(c)] } else { vec![] }
    }
    /// parameter registers of a call are loaded from kept pointers (most of the time)
    fn call_prep(&mut self, params: usize, defs: &mut Vec<Def>) {
        for (i, p) in PARAM_REGS[..params.min(2)].iter().enumerate() {
            if self.r.chance(7, 8) {
                // of two parameters the first one is more often some OTHER pointer
                let k = if params >= 2 && i == 0 && self.r.chance(2, 5) { self.keeper() } else { self.known() };
                self.fetch(k, defs, Some(p));
            }
        }
        if self.x86 {
            defs.push(sp_add(-8));
        }
    }
    fn pick_extern(&mut self) -> usize {
        let weight = |n: &str| match n {
            "malloc" => 18, "calloc" => 4, "strdup" => 4, "free" => 34, "fclose" => 7, "puts" => 12, "strlen" => 5, "memcmp" => 9, "putchar" => 3, "getpid" => 3, _ => 2,
        };
        let total: u64 = self.externs.iter().map(|e| weight(&e.name)).sum();
        let mut x = self.r.below(total);
        for (i, e) in self.externs.iter().enumerate() {
            if x < weight(&e.name) { return i; }
            x -= weight(&e.name);
        }
        0
    }
    fn gen(&mut self) -> Term<Sub> {
        let mut blocks = Vec::new();
        for b in 0..self.n_blks {
            let mut defs: Vec<Def> = Vec::new();
            if b == 0 && self.frame != 0 {
                defs.push(sp_add(-self.frame));
            }
            if self.pending_rax && self.r.chance(9, 10) {
                let k = match self.plan { Some((_, k)) if b == 1 => k, _ => self.keeper() };
                self.learn(k);
                self.keep_from(k, evar("RAX"), &mut defs);
            }
            self.pending_rax = false;
            let n = self.r.below(self.max_defs + 1);
            for _ in 0..n {
                self.action(&mut defs);
            }
            let last = b + 1 == self.n_blks;
            let w_int = if self.callee.is_some() { 18 } else { 0 };
            let w_cret = if self.x86 || self.frame != 0 { 0 } else { 4 };
            let w = [10u64, 22, w_cret, 7, 46, w_int, 2];
            let total: u64 = w.iter().sum();
            let mut x = self.r.below(total);
            let mut kind = 0;
            for (i, wi) in w.iter().enumerate() {
                if x < *wi { kind = i; break; }
                x -= wi;
            }
            if last && self.r.chance(4, 5) {
                kind = 3;
            }
            let alloc_first = b == 0 && self.s == 0 && !last && (self.plan.is_some() || self.r.chance(3, 5));
            let release = matches!(self.plan, Some((j, _)) if j == b);
            if alloc_first {
                kind = 4;
            }
            if release {
                kind = if self.s == 0 && self.callee.is_some() && self.r.chance(1, 3) { 5 } else { 4 };
            }
            // behind the release: hand the (dangling) pointer to the callee every now and then
            let follow_up = matches!(self.plan, Some((j, _)) if j + 1 == b) && self.s == 0 && self.callee.is_some() && !last && self.r.chance(1, 3);
            if follow_up {
                kind = 5;
            }
            let mut jmps: Vec<Jmp> = Vec::new();
            match kind {
                0 => jmps.push(Jmp::Branch(self.target(b))),
                1 | 2 => {
                    defs.push(Def::Assign { var: var("ZF", 1), value: Expression::Unknown { description: "flag".to_string(), size: ByteSize::new(1) } });
                    jmps.push(Jmp::CBranch { target: self.target(b), condition: Expression::Var(var("ZF", 1)) });
                    if kind == 1 { jmps.push(Jmp::Branch(self.target(b))) } else { jmps.push(Jmp::Return(econst(0))) }
                }
                3 => {
                    if self.r.chance(1, 3) {
                        let k = self.keeper();
                        self.fetch(k, &mut defs, Some("RAX"));
                    }
                    defs.extend(self.ret_defs());
                    jmps.push(Jmp::Return(econst(0)));
                }
                4 => {
                    let i = if alloc_first { self.externs.iter().position(|e| e.name == "malloc").unwrap() }
                            else if release { self.externs.iter().position(|e| e.name == "free").unwrap() } else { self.pick_extern() };
                    let e = self.externs[i].clone();
                    let np = if ["malloc", "calloc", "putchar", "exit"].contains(&e.name.as_str()) { 0 } else { e.parameters.len() };
                    self.call_prep(np, &mut defs);
                    let ret = if e.no_return || self.r.chance(3, 100) { None } else if !last && (alloc_first || self.r.chance(4, 5)) { Some(blk_tid(self.s, b + 1)) } else { Some(self.target(b)) };
                    self.pending_rax = ["malloc", "calloc", "strdup"].contains(&e.name.as_str()) && ret == Some(blk_tid(self.s, b + 1));
                    jmps.push(Jmp::Call { target: e.tid.clone(), return_: ret });
                }
                5 => {
                    self.call_prep(2, &mut defs);
                    let ret = if self.r.chance(4, 100) { None } else if !last && self.r.chance(4, 5) { Some(blk_tid(self.s, b + 1)) } else { Some(self.target(b)) };
                    // the callee may hand back a pointer
                    self.pending_rax = self.r.chance(1, 3) && ret == Some(blk_tid(self.s, b + 1));
                    jmps.push(Jmp::Call { target: self.callee.clone().unwrap(), return_: ret });
                }
                _ => {}
            }
            let base = blk_addr(self.s, b);
            let mut instr = 0usize;
            let mut next_tid = || {
                let a = base + instr;
                instr += 1;
                mk_tid(&format!("instr_{:08x}_0", a), &format!("{:08x}", a))
            };
            let defs: Vec<Term<Def>> = defs.into_iter().map(|d| Term { tid: next_tid(), term: d }).collect();
            let jmps: Vec<Term<Jmp>> = jmps.into_iter().map(|j| Term { tid: next_tid(), term: j }).collect();
            blocks.push(Term { tid: blk_tid(self.s, b), term: Blk { defs, jmps, indirect_jmp_targets: vec![] } });
        }
        Term { tid: sub_tid(self.s), term: Sub { name: format!("fn{}", self.s), blocks, calling_convention: None } }
    }
}

/// sizes: (max blocks of f, max blocks of g, max body defs per block)
pub fn gen_project(r: &mut Rng, sizes: (u64, u64, u64)) -> Project {
    let externs = externs(r);
    let x86 = r.chance(3, 4);
    let two = r.chance(3, 5);
    let mut subs = BTreeMap::new();
    for s in 0..(if two { 2 } else { 1 }) {
        let n_blks = if s == 0 { r.range(3, sizes.0 as i64) } else { r.range(1, sizes.1 as i64) } as usize;
        let frame = if n_blks >= 2 && r.chance(1, 3) { 32 } else { 0 };
        let known = if s == 1 { vec![Keep::Reg("RDI"), Keep::Reg("RSI")] } else { vec![] };
        let plan = if s == 0 && n_blks >= 4 && r.chance(4, 5) {
            let k = match r.below(10) { 0..=4 => Keep::Reg("RBX"), 5..=6 => Keep::Reg("R12"), 7..=8 => Keep::Slot(-16), _ => Keep::Slot(-24) };
            Some((r.range(1, n_blks as i64 - 2) as usize, k))
        } else if s == 1 && r.chance(1, 2) {
            Some((r.below(n_blks as u64) as usize, if r.chance(3, 4) { Keep::Reg("RDI") } else { Keep::Reg("RSI") }))
        } else { None };
        let mut g = FnGen { r, s, n_blks, x86, frame, callee: if s == 0 && two { Some(sub_tid(1)) } else { None }, externs: &externs, max_defs: sizes.2, known, pending_rax: false, plan };
        let sub = g.gen();
        subs.insert(sub.tid.clone(), sub);
    }
    let program = Program { subs, extern_symbols: externs.iter().map(|e| (e.tid.clone(), e.clone())).collect(), entry_points: BTreeSet::new(), address_base_offset: 0 };
    let mut p = mk_project(program, vec![cconv_std()]);
    if !x86 {
        p.cpu_architecture = "aarch64".to_string();
    }
    p
}

pub fn gen_config(r: &mut Rng) -> Value {
    let d: Vec<&str> = match r.below(10) {
        0..=4 => vec!["free"],
        5 | 6 => vec!["free", "fclose"],
        7 => vec!["free", "realloc"],
        8 => vec!["fclose"],
        _ => vec![],
    };
    json!({"dealloc": d, "full_path": r.chance(1, 2)})
}

pub fn real_config(config: &Value) -> Value {
    json!({"deallocation_symbols": config["dealloc"], "always_include_full_path_to_free_site": config["full_path"]})
}

pub fn exec(project: &Project, config: &Value) -> Value {
    let r = run_checker_staged(project, "CWE416", &real_config(config), Needs::PointerInference);
    let (reported, stage, panic) = match r {
        Ok(ws) => {
            let set: BTreeSet<(String, String)> = ws.iter().map(|w| (w.name.clone(), w.tids.first().cloned().unwrap_or_default())).collect();
            (set.into_iter().map(|(n, t)| json!({"name": n, "tid": t})).collect::<Vec<_>>(), "", String::new())
        }
        Err((stage, p)) => (vec![], stage, p.lines().next().unwrap_or("").to_string()),
    };
    json!({"ev": "x06", "project": irenc::project(project), "config": config, "reported": reported, "stage": stage, "panic": panic})
}

/// spec -> impl: the hand-written scenarios TLC printed while checking mc/MC_UafWalk (one JSON object per line:
/// name, project, config, expect, exact) are run through the real checker; `expect` / `exact` / `name` are copied into
/// the event for T_X06.
fn gen_scenarios(out: &mut Out) {
    let path = std::env::var("VERIF_X06_SCENARIOS").expect("VERIF_X06_SCENARIOS");
    let text = std::fs::read_to_string(&path).expect("scenario file");
    for line in text.lines() {
        if line.trim().is_empty() { continue }
        let sc: Value = serde_json::from_str(line).expect("scenario json");
        let mut ev = exec(&dec::project(&sc["project"]), &sc["config"]);
        for k in ["name", "expect", "exact"] {
            ev[k] = sc[k].clone();
        }
        let nt = !ev["reported"].as_array().unwrap().is_empty();
        out.emit(vec![ev], nt);
    }
}

pub fn gen(out: &mut Out, sub: &str) {
    if sub == "mc" {
        return gen_scenarios(out);
    }
    let mut rng = Rng::new(out.seed ^ 0x0A06);
    let n = out.size(4000, 40_000);
    let seeds: Vec<Rng> = (0..n).map(|_| rng.fork()).collect();
    let evs = crate::par::map(seeds, 4, |mut r| {
        let project = gen_project(&mut r, (6, 4, 4));
        let config = gen_config(&mut r);
        exec(&project, &config)
    });
    let (mut n416, mut n415, mut prereq) = (0u64, 0u64, 0u64);
    for ev in evs {
        let rep = ev["reported"].as_array().unwrap();
        let a = rep.iter().filter(|w| w["name"] == "CWE416").count() as u64;
        let b = rep.iter().filter(|w| w["name"] == "CWE415").count() as u64;
        n416 += a;
        n415 += b;
        if ev["stage"] == "fnsig" || ev["stage"] == "pi" {
            prereq += 1;
        }
        out.emit(vec![ev], a + b > 0);
    }
    out.extra.insert("reported_cwe416".into(), json!(n416));
    out.extra.insert("reported_cwe415".into(), json!(n415));
    out.extra.insert("prerequisite_analysis_panics".into(), json!(prereq));
}

pub fn replay(run: &[Value], _sub: &str) -> Vec<Value> {
    run.iter()
        .map(|e| {
            let mut ev = exec(&dec::project(&e["project"]), &e["config"]);
            // a replayed hand-written scenario keeps its hand-derived expectation
            for k in ["name", "expect", "exact"] {
                if !e[k].is_null() {
                    ev[k] = e[k].clone();
                }
            }
            ev
        })
        .collect()
}
