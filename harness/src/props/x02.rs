//! X02 (extended coverage): expression-level rewriting and the expression utilities.
//!   Expression::substitute_trivial_operations  (trivial_operation_substitution.rs, every rule)
//!   Expression::substitute_input_var, input_vars, recursion_depth, bytesize  (expression.rs)
//!   Expression::plus, plus_const  (expression/builder.rs)
//! The harness ENUMERATES EXPRESSION SHAPES - every rule of the file instantiated with all operator
//! combinations it matches and its near-misses (constants 0, 1, -1, 2, max, min; both operand orders;
//! nested two levels; sizes 1, 2, 4, 8 (16 through Piece) with mixed-size Piece / Subpiece / ZExt /
//! SExt chains) - calls the REAL code and records (input, output) together with the valuations on
//! which TLC evaluates both sides: `mode = "exhaustive1"` (all variables one byte wide: TLC enumerates
//! ALL valuations itself) or `mode = "list"` (boundary crossed with boundary, relations between the
//! variables and the constants of the shape, random).  Nothing is decided here: spec/ExprRewrite.tla
//! evaluated by TLC (spec/trace/T_X02.tla) is the oracle.
//!
//! Input class (= ExprRewrite!InClass): well-sized expressions over variables and constants with the
//! integer / boolean operations, boolean connectives on 1-byte operands, one size per variable name.
//! Flags are the variables p, q, r (and ZF, CF, SF, OF in the random expressions): list-mode
//! valuations give them 0 or 1.
use crate::enc::{bv, bv_from_json, bv_i64};
use crate::exprgen::{bin, cast, cst, reg, subpiece, tmp, un, var, Ctx, ExprGen, Ty};
use crate::irenc;
use crate::out::{catch, Out};
use crate::rng::Rng;
use cwe_checker_lib::intermediate_representation::*;
use serde_json::{json, Map, Value};
use std::collections::BTreeSet;

use BinOpType::*;

pub const ALL_BIN: [BinOpType; 26] = [
    Piece, IntEqual, IntNotEqual, IntLess, IntSLess, IntLessEqual, IntSLessEqual, IntAdd, IntSub, IntCarry, IntSCarry,
    IntSBorrow, IntXOr, IntAnd, IntOr, IntLeft, IntRight, IntSRight, IntMult, IntDiv, IntRem, IntSDiv, IntSRem, BoolXOr,
    BoolAnd, BoolOr,
];
const CMP6: [BinOpType; 6] = [IntEqual, IntNotEqual, IntLess, IntSLess, IntLessEqual, IntSLessEqual];
const BOOL3: [BinOpType; 3] = [BoolXOr, BoolAnd, BoolOr];
const UN3: [UnOpType; 3] = [UnOpType::IntNegate, UnOpType::Int2Comp, UnOpType::BoolNegate];
const CAST4: [CastOpType; 4] = [CastOpType::IntZExt, CastOpType::IntSExt, CastOpType::PopCount, CastOpType::LzCount];
const SIZES: [u64; 4] = [1, 2, 4, 8];
const FLAG_NAMES: [&str; 7] = ["p", "q", "r", "ZF", "CF", "SF", "OF"];

fn is_bool_op(op: BinOpType) -> bool {
    matches!(op, BoolXOr | BoolAnd | BoolOr)
}
fn one_byte_result(op: BinOpType) -> bool {
    matches!(op, IntEqual | IntNotEqual | IntLess | IntSLess | IntLessEqual | IntSLessEqual | IntCarry | IntSCarry | IntSBorrow | BoolXOr | BoolAnd | BoolOr)
}

// ------------------------------------------------------------------------------------------------
// decoding of the recorded JSON (replay)
// ------------------------------------------------------------------------------------------------
fn parse<T: serde::de::DeserializeOwned>(s: &Value) -> T {
    serde_json::from_value(Value::String(s.as_str().unwrap().to_string())).unwrap()
}
fn var_from_json(v: &Value) -> Variable {
    Variable { name: v["n"].as_str().unwrap().to_string(), size: ByteSize::new(v["s"].as_u64().unwrap()), is_temp: v["t"].as_bool().unwrap() }
}
pub fn expr_from_json(e: &Value) -> Expression {
    match e["k"].as_str().unwrap() {
        "var" => Expression::Var(var_from_json(&e["v"])),
        "const" => Expression::Const(bv_from_json(&e["c"])),
        "bin" => Expression::BinOp { op: parse(&e["op"]), lhs: Box::new(expr_from_json(&e["l"])), rhs: Box::new(expr_from_json(&e["r"])) },
        "un" => Expression::UnOp { op: parse(&e["op"]), arg: Box::new(expr_from_json(&e["a"])) },
        "cast" => Expression::Cast { op: parse(&e["op"]), size: ByteSize::new(e["s"].as_u64().unwrap()), arg: Box::new(expr_from_json(&e["a"])) },
        "sub" => Expression::Subpiece {
            low_byte: ByteSize::new(e["low"].as_u64().unwrap()),
            size: ByteSize::new(e["s"].as_u64().unwrap()),
            arg: Box::new(expr_from_json(&e["a"])),
        },
        _ => Expression::Unknown { description: "unknown".to_string(), size: ByteSize::new(e["s"].as_u64().unwrap()) },
    }
}

// ------------------------------------------------------------------------------------------------
// calling the real code
// ------------------------------------------------------------------------------------------------
fn vars_json(vs: &[&Variable]) -> Value {
    Value::Array(vs.iter().map(|v| irenc::var(v)).collect())
}
/// (bytesize, input_vars, recursion_depth) of the real code
fn utils(e: &Expression) -> Result<(u64, Value, u64), String> {
    let e = e.clone();
    catch(move || (u64::from(e.bytesize()), vars_json(&e.input_vars()), e.recursion_depth()))
}
fn rewrite(e: &Expression) -> Result<Expression, String> {
    let mut r = e.clone();
    catch(move || {
        r.substitute_trivial_operations();
        r
    })
}

/// One `rw` event: e, r = rewrite(e), r2 = rewrite(r) and what the utilities say about e and r.
fn exec_rw(fam: &str, e: &Expression, mode: &str, vals: Value) -> Value {
    let mut ev = Map::new();
    ev.insert("ev".into(), json!("rw"));
    ev.insert("fam".into(), json!(fam));
    ev.insert("e".into(), irenc::expr(e));
    ev.insert("mode".into(), json!(mode));
    ev.insert("vals".into(), vals);
    let mut panic = String::new();
    let r = match rewrite(e) {
        Ok(r) => r,
        Err(p) => {
            panic = format!("substitute_trivial_operations: {}", p);
            e.clone()
        }
    };
    let r2 = match rewrite(&r) {
        Ok(x) => x,
        Err(p) => {
            if panic.is_empty() {
                panic = format!("substitute_trivial_operations (second application): {}", p);
            }
            r.clone()
        }
    };
    for (tag, x) in [("e", e), ("r", &r)] {
        let (s, vs, d) = match utils(x) {
            Ok(u) => u,
            Err(p) => {
                if panic.is_empty() {
                    panic = format!("bytesize/input_vars/recursion_depth: {}", p);
                }
                (0, json!([]), 0)
            }
        };
        ev.insert(format!("{}size", tag), json!(s));
        ev.insert(format!("{}vars", tag), vs);
        ev.insert(format!("{}depth", tag), json!(d));
    }
    ev.insert("r".into(), irenc::expr(&r));
    ev.insert("r2".into(), irenc::expr(&r2));
    ev.insert("panic".into(), json!(panic));
    Value::Object(ev)
}

fn exec_subst(fam: &str, e: &Expression, v: &Variable, w: &Expression, mode: &str, vals: Value) -> Value {
    let (mut out, v1, w1) = (e.clone(), v.clone(), w.clone());
    let res = catch(move || {
        out.substitute_input_var(&v1, &w1);
        out
    });
    let (out, panic) = match res {
        Ok(o) => (o, String::new()),
        Err(p) => (e.clone(), format!("substitute_input_var: {}", p)),
    };
    json!({"ev": "subst", "fam": fam, "e": irenc::expr(e), "v": irenc::var(v), "w": irenc::expr(w), "out": irenc::expr(&out),
           "mode": mode, "vals": vals, "panic": panic})
}
fn exec_plus(fam: &str, e: &Expression, w: &Expression, mode: &str, vals: Value) -> Value {
    let (e1, w1) = (e.clone(), w.clone());
    let (out, panic) = match catch(move || e1.plus(w1)) {
        Ok(o) => (o, String::new()),
        Err(p) => (e.clone(), format!("plus: {}", p)),
    };
    json!({"ev": "plus", "fam": fam, "e": irenc::expr(e), "w": irenc::expr(w), "out": irenc::expr(&out), "mode": mode, "vals": vals, "panic": panic})
}
fn exec_plusc(fam: &str, e: &Expression, c: i64, mode: &str, vals: Value) -> Value {
    let e1 = e.clone();
    let (out, panic) = match catch(move || e1.plus_const(c)) {
        Ok(o) => (o, String::new()),
        Err(p) => (e.clone(), format!("plus_const: {}", p)),
    };
    json!({"ev": "plusc", "fam": fam, "e": irenc::expr(e), "c": bv(&bv_i64(c, 8)), "ci": c.to_string(), "out": irenc::expr(&out),
           "mode": mode, "vals": vals, "panic": panic})
}

/// Re-execute the real code on the inputs recorded in one event.
fn exec(input: &Value) -> Value {
    let fam = input["fam"].as_str().unwrap_or("replay").to_string();
    let mode = input["mode"].as_str().unwrap_or("list").to_string();
    let vals = input["vals"].clone();
    let e = expr_from_json(&input["e"]);
    match input["ev"].as_str().unwrap_or("") {
        "subst" => exec_subst(&fam, &e, &var_from_json(&input["v"]), &expr_from_json(&input["w"]), &mode, vals),
        "plus" => exec_plus(&fam, &e, &expr_from_json(&input["w"]), &mode, vals),
        "plusc" => exec_plusc(&fam, &e, input["ci"].as_str().unwrap().parse().unwrap(), &mode, vals),
        _ => exec_rw(&fam, &e, &mode, vals),
    }
}
pub fn replay(run: &[Value], _sub: &str) -> Vec<Value> {
    run.iter().map(exec).collect()
}

// ------------------------------------------------------------------------------------------------
// valuations
// ------------------------------------------------------------------------------------------------
/// the variables of the expressions, in order of first occurrence (the harness' own traversal: `input_vars` is code
/// under test and must not decide which variables get a value)
fn collect_vars(e: &Expression, seen: &mut BTreeSet<String>, out: &mut Vec<Variable>) {
    match e {
        Expression::Var(v) => {
            if seen.insert(v.name.clone()) {
                out.push(v.clone());
            }
        }
        Expression::BinOp { lhs, rhs, .. } => {
            collect_vars(lhs, seen, out);
            collect_vars(rhs, seen, out);
        }
        Expression::UnOp { arg, .. } | Expression::Cast { arg, .. } | Expression::Subpiece { arg, .. } => collect_vars(arg, seen, out),
        Expression::Const(_) | Expression::Unknown { .. } => (),
    }
}
fn vars_of(es: &[&Expression]) -> Vec<Variable> {
    let mut seen = BTreeSet::new();
    let mut out = Vec::new();
    for e in es {
        collect_vars(e, &mut seen, &mut out);
    }
    out
}
fn consts_of(e: &Expression, acc: &mut Vec<(u64, u128)>) {
    match e {
        Expression::Const(c) => {
            let bytes: Vec<u64> = bv(c).as_array().unwrap().iter().map(|x| x.as_u64().unwrap()).collect();
            if bytes.len() <= 16 {
                let mut x = 0u128;
                for (i, b) in bytes.iter().enumerate() {
                    x |= (*b as u128) << (8 * i);
                }
                acc.push((bytes.len() as u64, x));
            }
        }
        Expression::BinOp { lhs, rhs, .. } => {
            consts_of(lhs, acc);
            consts_of(rhs, acc);
        }
        Expression::UnOp { arg, .. } | Expression::Cast { arg, .. } | Expression::Subpiece { arg, .. } => consts_of(arg, acc),
        _ => (),
    }
}
/// the variables that occur directly under a boolean connective (transcription of ExprRewrite!BoolNames; used ONLY
/// to choose the valuation mode - TLC re-checks the choice as a precondition)
fn bool_names(e: &Expression, acc: &mut BTreeSet<String>) {
    match e {
        Expression::BinOp { op, lhs, rhs } => {
            if is_bool_op(*op) {
                for x in [lhs, rhs] {
                    if let Expression::Var(v) = &**x {
                        acc.insert(v.name.clone());
                    }
                }
            }
            bool_names(lhs, acc);
            bool_names(rhs, acc);
        }
        Expression::UnOp { op, arg } => {
            if *op == UnOpType::BoolNegate {
                if let Expression::Var(v) = &**arg {
                    acc.insert(v.name.clone());
                }
            }
            bool_names(arg, acc);
        }
        Expression::Cast { arg, .. } | Expression::Subpiece { arg, .. } => bool_names(arg, acc),
        _ => (),
    }
}
fn mask(size: u64) -> u128 {
    if size >= 16 {
        u128::MAX
    } else {
        (1u128 << (8 * size)) - 1
    }
}
fn bytes_json(x: u128, size: u64) -> Value {
    Value::Array((0..size).map(|i| json!(((x >> (8 * i)) & 0xff) as u64)).collect())
}
fn boundary_vals(size: u64) -> Vec<u128> {
    let m = mask(size);
    let min = 1u128 << (8 * size - 1);
    let mut v = vec![0, 1, 2, m, m - 1, min, min + 1, min - 1, min - 2, 0x80 & m, 0xff & m, 0x100 & m];
    v.sort();
    v.dedup();
    v
}
fn is_flag(v: &Variable) -> bool {
    v.size == ByteSize::new(1) && (FLAG_NAMES.contains(&v.name.as_str()) || v.name.ends_with("_b"))
}

/// List-mode valuations for the variables of the given expressions: boundary x boundary for the first two
/// variables, relations x = y + c for the constants c of the shape, random picks.
fn list_vals(es: &[&Expression], rng: &mut Rng, n_random: usize, level: u8) -> Value {
    let full = level >= 1;
    let vars = vars_of(es);
    let mut consts = Vec::new();
    for e in es {
        consts_of(e, &mut consts);
    }
    let mut vals: Vec<Vec<u128>> = Vec::new();
    let pick = |rng: &mut Rng, v: &Variable| -> u128 {
        let s = u64::from(v.size);
        if is_flag(v) {
            return rng.below(2) as u128;
        }
        let x = (((rng.next() as u128) << 64) | rng.next() as u128) & mask(s);
        match rng.below(5) {
            0 | 1 => *rng.pick(&boundary_vals(s)),
            2 => x & 0xff,
            3 => (mask(s) - (x & 0xff)) & mask(s),
            _ => x,
        }
    };
    let dom = |v: &Variable| -> Vec<u128> {
        let s = u64::from(v.size);
        if is_flag(v) {
            vec![0, 1]
        } else if level >= 2 {
            boundary_vals(s)
        } else {
            let mut d = vec![0, 1, mask(s), 1u128 << (8 * s - 1), (1u128 << (8 * s - 1)) - 1, 0x80 & mask(s)];
            d.sort();
            d.dedup();
            d
        }
    };
    if vars.is_empty() {
        vals.push(vec![]);
    }
    if vars.len() == 1 && full {
        for a in dom(&vars[0]) {
            vals.push(vec![a]);
        }
        for (s, c) in &consts {
            if *s == u64::from(vars[0].size) && !is_flag(&vars[0]) {
                for d in [0u128, 1, mask(*s)] {
                    vals.push(vec![c.wrapping_add(d) & mask(*s)]);
                }
            }
        }
    }
    if vars.len() >= 2 && full {
        let (d0, d1) = (dom(&vars[0]), dom(&vars[1]));
        for a in &d0 {
            for b in &d1 {
                let mut row = vec![*a, *b];
                for v in &vars[2..] {
                    row.push(pick(rng, v));
                }
                vals.push(row);
            }
        }
        // relations between the first two variables: x = y + c for c in {0, 1, -1, 2} and the constants of the shape
        if vars[0].size == vars[1].size && !is_flag(&vars[0]) && !is_flag(&vars[1]) {
            let s = u64::from(vars[0].size);
            let mut deltas: Vec<u128> = vec![0, 1, mask(s), 2, mask(s) - 1];
            for (cs, c) in &consts {
                if *cs == s {
                    deltas.push(*c);
                    deltas.push(c.wrapping_neg() & mask(s));
                }
            }
            for d in deltas {
                for _ in 0..2 {
                    let b = pick(rng, &vars[1]);
                    let mut row = vec![b.wrapping_add(d) & mask(s), b];
                    for v in &vars[2..] {
                        row.push(pick(rng, v));
                    }
                    vals.push(row);
                }
            }
        }
    }
    for _ in 0..n_random {
        if vars.is_empty() {
            break;
        }
        vals.push(vars.iter().map(|v| pick(rng, v)).collect());
    }
    Value::Array(
        vals.iter()
            .map(|row| {
                let mut m = Map::new();
                for (v, x) in vars.iter().zip(row.iter()) {
                    m.insert(v.name.clone(), bytes_json(*x, u64::from(v.size)));
                }
                Value::Object(m)
            })
            .collect(),
    )
}

fn has_wide_division(e: &Expression) -> bool {
    match e {
        Expression::BinOp { op, lhs, rhs } => {
            (matches!(op, IntDiv | IntRem | IntSDiv | IntSRem) && u64::from(lhs.bytesize()) > 2) || has_wide_division(lhs) || has_wide_division(rhs)
        }
        Expression::UnOp { arg, .. } | Expression::Cast { arg, .. } | Expression::Subpiece { arg, .. } => has_wide_division(arg),
        _ => false,
    }
}
/// Can TLC enumerate ALL valuations (ExprRewrite!ExhaustiveOK and T_X02!Exh1OK)?  Returns the number of
/// valuations, or None.
fn exhaustive_cost(es: &[&Expression], ignore_bool_of: Option<&Variable>) -> Option<u64> {
    let vars = vars_of(es);
    if vars.len() > 3 || vars.iter().any(|v| v.size != ByteSize::new(1)) {
        return None;
    }
    let mut bools = BTreeSet::new();
    for e in es {
        bool_names(e, &mut bools);
    }
    if let Some(v) = ignore_bool_of {
        bools.remove(&v.name);
    }
    let wide = vars.iter().filter(|v| !bools.contains(&v.name)).count();
    if wide > 2 {
        return None;
    }
    // (bit-serial division of 4..16 byte operands costs the TLC oracle milliseconds per evaluation)
    if wide == 2 && es.iter().any(|e| has_wide_division(e)) {
        return None;
    }
    Some(256u64.pow(wide as u32) * 2u64.pow((vars.len() - wide) as u32))
}

// ------------------------------------------------------------------------------------------------
// shapes
// ------------------------------------------------------------------------------------------------
fn x(s: u64) -> Expression {
    var(&reg(&format!("x{}", s), s))
}
fn y(s: u64) -> Expression {
    var(&reg(&format!("y{}", s), s))
}
fn z(s: u64) -> Expression {
    var(&reg(&format!("z{}", s), s))
}
fn p() -> Expression {
    var(&reg("p", 1))
}
fn q() -> Expression {
    var(&reg("q", 1))
}
fn consts(s: u64) -> Vec<Expression> {
    let bits = 8 * s as u32;
    let (min, max) = if bits >= 64 { (i64::MIN, i64::MAX) } else { (-(1i64 << (bits - 1)), (1i64 << (bits - 1)) - 1) };
    vec![cst(0, s), cst(1, s), cst(-1, s), cst(2, s), cst(max, s), cst(min, s)]
}
/// a term of `w` bytes over the 1-byte variables x1, y1 only (so that mixed-size chains can be checked exhaustively);
/// a Piece tree up to 4 bytes, two extended 2-byte terms combined for wider ones (few nodes: TLC evaluates the term
/// for every one of the 65536 valuations)
fn bytes_term(w: u64, k: u64) -> Expression {
    match w {
        1 => match k % 4 {
            0 => x(1),
            1 => y(1),
            2 => un(UnOpType::IntNegate, x(1)),
            _ => bin(IntAdd, y(1), cst(85, 1)),
        },
        2..=4 => {
            let hi = if w == 3 { 1 } else { w / 2 };
            bin(Piece, bytes_term(hi, k), bytes_term(w - hi, k + 1))
        }
        _ => {
            let shift = cst(8 * (w as i64 - 3), 1);
            bin(IntXOr, cast(CastOpType::IntSExt, w, bytes_term(2, k)), bin(IntLeft, cast(CastOpType::IntZExt, w, bytes_term(2, k + 1)), shift))
        }
    }
}

struct Shapes {
    v: Vec<(String, Expression)>,
}
impl Shapes {
    fn add(&mut self, fam: &str, e: Expression) {
        self.v.push((fam.to_string(), e));
    }
}

/// the canonical instance of every rule (and of its closest near-misses), per size; always emitted
fn fam_core(sh: &mut Shapes, s: u64) {
    let f = format!("core/{}", s);
    let (a, b) = (x(s), y(s));
    let zero = cst(0, s);
    for op in [IntAnd, IntOr, IntXOr, IntEqual, IntNotEqual, IntLess, IntSLess, IntLessEqual, IntSLessEqual, IntSub, IntAdd] {
        sh.add(&f, bin(op, a.clone(), a.clone()));
    }
    for op in [IntOr, IntXOr, IntAnd, IntAdd, IntSub] {
        for c in [cst(0, s), cst(-1, s), cst(1, s)] {
            sh.add(&f, bin(op, a.clone(), c.clone()));
            sh.add(&f, bin(op, c, a.clone()));
        }
    }
    let d = bin(IntSub, a.clone(), b.clone());
    for op in [IntEqual, IntNotEqual] {
        for c in [0, 1, 2, -1] {
            sh.add(&f, bin(op, d.clone(), cst(c, s)));
            sh.add(&f, bin(op, cst(c, s), d.clone()));
        }
    }
    for (lt, le) in [(IntLess, IntLessEqual), (IntSLess, IntSLessEqual)] {
        for (e1, e2) in [(a.clone(), b.clone()), (b.clone(), a.clone())] {
            let eq = bin(IntEqual, e1.clone(), e2.clone());
            let ne = bin(IntNotEqual, e1, e2);
            sh.add(&f, bin(BoolOr, bin(lt, a.clone(), b.clone()), eq.clone()));
            sh.add(&f, bin(BoolOr, eq, bin(lt, a.clone(), b.clone())));
            sh.add(&f, bin(BoolAnd, bin(le, a.clone(), b.clone()), ne.clone()));
            sh.add(&f, bin(BoolAnd, ne, bin(le, a.clone(), b.clone())));
        }
    }
    let neg = bin(IntSLess, d.clone(), zero.clone());
    let bor = bin(IntSBorrow, a.clone(), b.clone());
    for op in [IntNotEqual, IntEqual] {
        sh.add(&f, bin(op, neg.clone(), bor.clone()));
        sh.add(&f, bin(op, bor.clone(), neg.clone()));
    }
    for (c1, c2) in [(3, 5), (-1, 1), (1, -2)] {
        sh.add(&f, bin(IntSub, bin(IntSub, a.clone(), cst(c1, s)), cst(c2, s)));
        sh.add(&f, bin(IntAdd, bin(IntAdd, a.clone(), cst(c1, s)), cst(c2, s)));
        sh.add(&f, bin(IntAdd, bin(IntAdd, cst(c1, s), a.clone()), cst(c2, s)));
        sh.add(&f, bin(IntAdd, bin(IntSub, a.clone(), cst(c1, s)), cst(c2, s)));
        sh.add(&f, bin(IntSub, bin(IntAdd, a.clone(), cst(c1, s)), cst(c2, s)));
        sh.add(&f, bin(IntAdd, cst(c1, s), cst(c2, s)));
        sh.add(&f, bin(IntSub, cst(c1, s), cst(c2, s)));
    }
    for op in [UnOpType::IntNegate, UnOpType::Int2Comp] {
        sh.add(&f, un(op, un(op, a.clone())));
    }
    for c in CMP6 {
        sh.add(&f, un(UnOpType::BoolNegate, bin(c, a.clone(), b.clone())));
    }
    sh.add(&f, subpiece(0, s, a.clone()));
    for op in [CastOpType::IntZExt, CastOpType::IntSExt] {
        sh.add(&f, cast(op, s, a.clone()));
        sh.add(&f, cast(op, 2 * s, a.clone()));
        sh.add(&f, subpiece(0, s, cast(op, 2 * s, a.clone())));
        sh.add(&f, subpiece(s, s, cast(op, 2 * s, a.clone())));
        sh.add(&f, cast(op, 4 * s, cast(op, 2 * s, a.clone())));
    }
    sh.add(&f, cast(CastOpType::IntZExt, 4 * s, cast(CastOpType::IntSExt, 2 * s, a.clone())));
    sh.add(&f, cast(CastOpType::IntSExt, 4 * s, cast(CastOpType::IntZExt, 2 * s, a.clone())));
    sh.add(&f, subpiece(s, s, bin(Piece, a.clone(), b.clone())));
    sh.add(&f, subpiece(0, s, bin(Piece, a.clone(), b.clone())));
    if s >= 2 {
        sh.add(&f, subpiece(s / 2, s, bin(Piece, a.clone(), b.clone())));
        sh.add(&f, subpiece(0, s / 2, subpiece(s / 2, s / 2, a.clone())));
    }
    if s == 1 {
        for op in BOOL3 {
            sh.add(&f, bin(op, p(), p()));
            for c in [0, 1] {
                sh.add(&f, bin(op, p(), cst(c, 1)));
                sh.add(&f, bin(op, cst(c, 1), p()));
            }
        }
        sh.add(&f, un(UnOpType::BoolNegate, un(UnOpType::BoolNegate, p())));
    }
}

/// rule 1 and its near-misses: every binary operation applied to two identical / almost identical operands
fn fam_same(sh: &mut Shapes, s: u64) {
    let f = format!("same/{}", s);
    for op in ALL_BIN {
        if is_bool_op(op) {
            if s != 1 {
                continue;
            }
            let ts = [(p(), q()), (bin(IntLess, x(1), y(1)), bin(IntLess, y(1), x(1))), (un(UnOpType::BoolNegate, p()), un(UnOpType::BoolNegate, q()))];
            for (t, t2) in ts {
                sh.add(&f, bin(op, t.clone(), t.clone()));
                sh.add(&f, bin(op, t.clone(), t2.clone()));
            }
            continue;
        }
        let ts = [
            (x(s), y(s)),
            (cst(2, s), cst(1, s)),
            (bin(IntAdd, x(s), y(s)), bin(IntAdd, y(s), x(s))),
            (un(UnOpType::Int2Comp, x(s)), un(UnOpType::IntNegate, x(s))),
            (bin(IntAdd, x(s), cst(1, s)), bin(IntAdd, x(s), cst(2, s))),
        ];
        for (t, t2) in ts {
            sh.add(&f, bin(op, t.clone(), t.clone()));
            sh.add(&f, bin(op, t.clone(), t2.clone()));
        }
    }
}

/// rule 2 and its near-misses: every binary operation with one constant operand, both orders
fn fam_const(sh: &mut Shapes, s: u64) {
    let f = format!("const/{}", s);
    for op in ALL_BIN {
        if is_bool_op(op) {
            if s != 1 {
                continue;
            }
            for c in [0, 1, 2, -1] {
                for other in [p(), bin(IntSLess, x(1), y(1)), un(UnOpType::BoolNegate, q()), x(1)] {
                    sh.add(&f, bin(op, other.clone(), cst(c, 1)));
                    sh.add(&f, bin(op, cst(c, 1), other));
                }
            }
            continue;
        }
        for c in consts(s) {
            for other in [x(s), bin(IntXOr, x(s), y(s))] {
                sh.add(&f, bin(op, other.clone(), c.clone()));
                sh.add(&f, bin(op, c.clone(), other));
            }
        }
    }
    // constants on both sides
    for op in ALL_BIN {
        if is_bool_op(op) && s != 1 {
            continue;
        }
        let cs: Vec<Expression> = if is_bool_op(op) { vec![cst(0, 1), cst(1, 1)] } else { consts(s) };
        for c1 in &cs {
            for c2 in &cs {
                sh.add(&format!("constconst/{}", s), bin(op, c1.clone(), c2.clone()));
            }
        }
    }
}

/// rule 3a: comparison-like operation between a constant and an inner x (+|-|^) y, both orders
fn fam_cmpsub(sh: &mut Shapes, s: u64) {
    let f = format!("cmpsub/{}", s);
    for op in [IntEqual, IntNotEqual, IntLess, IntSLess, IntLessEqual, IntSLessEqual, IntCarry, IntSBorrow, IntAnd, IntSub] {
        for c in consts(s) {
            for inner in [IntSub, IntAdd, IntXOr] {
                for (a, b) in [(x(s), y(s)), (x(s), x(s)), (x(s), cst(1, s))] {
                    let d = bin(inner, a, b);
                    sh.add(&f, bin(op, d.clone(), c.clone()));
                    sh.add(&f, bin(op, c.clone(), d));
                }
            }
        }
    }
}

/// rule 3b: a connective of two comparisons over the same / swapped / different operands
fn fam_boolcmp(sh: &mut Shapes, s: u64) {
    let f = format!("boolcmp/{}", s);
    for bop in [BoolOr, BoolAnd, BoolXOr, IntOr, IntAnd, IntXOr, IntEqual, IntNotEqual] {
        for c1 in CMP6 {
            for c2 in CMP6 {
                for (k, (a2, b2)) in [(x(s), y(s)), (y(s), x(s)), (x(s), z(s)), (x(s), cst(0, s))].into_iter().enumerate() {
                    let l = bin(c1, x(s), y(s));
                    let r = bin(c2, a2, b2);
                    sh.add(&f, bin(bop, l.clone(), r.clone()));
                    if k >= 1 {
                        sh.add(&f, bin(bop, r, l));
                    }
                }
            }
        }
    }
}

/// rule 4: ((a - b) s< 0) ==/!= (a sborrow b) and everything around it
fn fam_borrow(sh: &mut Shapes, s: u64) {
    let f = format!("borrow/{}", s);
    for op in [IntNotEqual, IntEqual, BoolXOr] {
        for lt in [IntSLess, IntLess, IntSLessEqual] {
            for inner in [IntSub, IntAdd] {
                for c in [0, 1, -1] {
                    for flag in [IntSBorrow, IntSCarry, IntCarry] {
                        for (a2, b2) in [(x(s), y(s)), (y(s), x(s))] {
                            for const_left in [false, true] {
                                if const_left && (flag != IntSBorrow || c != 0) {
                                    continue;
                                }
                                let d = bin(inner, x(s), y(s));
                                let neg = if const_left { bin(lt, cst(c, s), d) } else { bin(lt, d, cst(c, s)) };
                                let bor = bin(flag, a2.clone(), b2.clone());
                                sh.add(&f, bin(op, neg.clone(), bor.clone()));
                                sh.add(&f, bin(op, bor, neg));
                            }
                        }
                    }
                }
            }
        }
    }
}

/// rule 5: arithmetic with constants, every position of the variable and the two constants
fn fam_arith(sh: &mut Shapes, s: u64) {
    let f = format!("arith/{}", s);
    for o1 in [IntAdd, IntSub, IntMult, IntXOr] {
        for o2 in [IntAdd, IntSub, IntMult, IntXOr] {
            for c1 in consts(s) {
                for c2 in consts(s) {
                    let v = x(s);
                    sh.add(&f, bin(o2, bin(o1, v.clone(), c1.clone()), c2.clone()));
                    sh.add(&f, bin(o2, bin(o1, c1.clone(), v.clone()), c2.clone()));
                    sh.add(&f, bin(o2, c2.clone(), bin(o1, v.clone(), c1.clone())));
                    sh.add(&f, bin(o2, c2.clone(), bin(o1, c1.clone(), v)));
                }
            }
        }
    }
    // three levels
    for o in [IntAdd, IntSub] {
        for (c1, c2, c3) in [(1, 2, 3), (-1, 1, 0), (127, 1, -128)] {
            sh.add(&f, bin(o, bin(o, bin(o, x(s), cst(c1, s)), cst(c2, s)), cst(c3, s)));
            sh.add(&f, bin(o, bin(o, bin(IntAdd, cst(c1, s), x(s)), cst(c2, s)), cst(c3, s)));
            sh.add(&f, bin(o, bin(o, bin(o, x(s), y(s)), cst(c2, s)), cst(c3, s)));
        }
    }
}

/// subpiece rules: every (low, size) window of every kind of argument; arguments over 1-byte variables (exhaustive)
/// and over wide variables
fn fam_subpiece(sh: &mut Shapes) {
    let f = "subpiece";
    let exts = [CastOpType::IntZExt, CastOpType::IntSExt];
    for w in [1u64, 2, 3, 4, 8, 16] {
        let mut args: Vec<Expression> = Vec::new();
        // over 1-byte variables
        args.push(bytes_term(w, 0));
        for v in [1u64, 2, 4, 8] {
            if v < w {
                for op in exts {
                    args.push(cast(op, w, bytes_term(v, 0)));
                    if [1, 2, 4, 8].contains(&v) && w <= 8 {
                        args.push(cast(op, w, x(v)));
                    }
                }
                args.push(cast(CastOpType::PopCount, w, bytes_term(v, 1)));
            }
        }
        for hi in 1..w {
            if w <= 4 || hi == w / 2 || hi == 1 || hi == w - 1 {
                args.push(bin(Piece, bytes_term(hi, 0), bytes_term(w - hi, 1)));
                if [1, 2, 4, 8].contains(&hi) && [1, 2, 4, 8].contains(&(w - hi)) {
                    args.push(bin(Piece, x(hi), y(w - hi)));
                }
            }
        }
        for big in [2u64, 4, 8, 16] {
            if big > w {
                for l1 in 0..=(big - w) {
                    if big <= 4 || l1 == 0 || l1 == big - w || l1 == 1 {
                        args.push(subpiece(l1, w, bytes_term(big, 0)));
                        if big <= 8 {
                            args.push(subpiece(l1, w, x(big)));
                        }
                    }
                }
            }
        }
        if [1, 2, 4, 8].contains(&w) {
            args.push(x(w));
            args.push(bin(IntAdd, x(w), y(w)));
            args.push(bin(IntXOr, x(w), x(w)));
        }
        for a in args {
            for low in 0..w {
                for size in 1..=(w - low) {
                    let interesting = w <= 4 || [1, 2, 4, 8, w].contains(&size) && (low % size == 0 || low == 1 || low + size == w);
                    if interesting {
                        sh.add(f, subpiece(low, size, a.clone()));
                    }
                }
            }
        }
    }
}

/// cast rules: cast2(cast1(t)) for every pair of casts and every size chain
fn fam_cast(sh: &mut Shapes) {
    let f = "cast";
    for c1 in CAST4 {
        for c2 in CAST4 {
            for s0 in SIZES {
                for s1 in SIZES {
                    for s2 in SIZES {
                        let ext1 = matches!(c1, CastOpType::IntZExt | CastOpType::IntSExt);
                        let ext2 = matches!(c2, CastOpType::IntZExt | CastOpType::IntSExt);
                        if (ext1 && s1 < s0) || (ext2 && s2 < s1) {
                            continue;
                        }
                        sh.add(f, cast(c2, s2, cast(c1, s1, bytes_term(s0, 0))));
                        if s0 > 1 {
                            sh.add(f, cast(c2, s2, cast(c1, s1, x(s0))));
                        }
                    }
                }
            }
        }
    }
    // three extensions in a row, extension of a subpiece, subpiece of an extension of a subpiece
    for c1 in [CastOpType::IntZExt, CastOpType::IntSExt] {
        for c2 in [CastOpType::IntZExt, CastOpType::IntSExt] {
            for c3 in [CastOpType::IntZExt, CastOpType::IntSExt] {
                sh.add(f, cast(c3, 8, cast(c2, 4, cast(c1, 2, x(1)))));
                sh.add(f, cast(c3, 4, cast(c2, 4, cast(c1, 2, x(1)))));
            }
            sh.add(f, cast(c2, 4, subpiece(0, 2, cast(c1, 4, bytes_term(2, 0)))));
            sh.add(f, subpiece(0, 2, cast(c2, 8, subpiece(0, 2, cast(c1, 4, bytes_term(2, 0))))));
            sh.add(f, cast(c2, 4, subpiece(1, 1, bytes_term(2, 0))));
            sh.add(f, cast(c2, 8, subpiece(0, 4, x(8))));
            sh.add(f, subpiece(0, 4, cast(c2, 8, subpiece(0, 4, x(8)))));
        }
    }
}

/// unary rules: all pairs / triples of unary operations, negation of every binary operation with a 1-byte result
fn fam_unop(sh: &mut Shapes, s: u64) {
    let f = format!("unop/{}", s);
    for u1 in UN3 {
        for u2 in UN3 {
            let b1 = u1 == UnOpType::BoolNegate;
            let b2 = u2 == UnOpType::BoolNegate;
            if (b1 || b2) && s != 1 {
                continue;
            }
            let leaf = if b2 { p() } else { x(s) };
            // BoolNegate over an integer operation result is only meaningful (admissible) for 0/1 values: use the flag
            let leaf = if b1 && !b2 { p() } else { leaf };
            sh.add(&f, un(u1, un(u2, leaf.clone())));
            for u3 in UN3 {
                if u3 == UnOpType::BoolNegate && s != 1 {
                    continue;
                }
                let leaf3 = if u3 == UnOpType::BoolNegate || b1 || b2 { p() } else { x(s) };
                sh.add(&f, un(u1, un(u2, un(u3, leaf3))));
            }
        }
    }
    for op in ALL_BIN {
        if !(one_byte_result(op) || s == 1) || op == Piece {
            continue;
        }
        if is_bool_op(op) {
            if s == 1 {
                sh.add(&f, un(UnOpType::BoolNegate, bin(op, p(), q())));
                sh.add(&f, un(UnOpType::BoolNegate, bin(op, bin(IntLess, x(1), y(1)), q())));
            }
            continue;
        }
        let (a, b) = if one_byte_result(op) { (x(s), y(s)) } else { (p(), q()) };
        sh.add(&f, un(UnOpType::BoolNegate, bin(op, a.clone(), b.clone())));
        sh.add(&f, un(UnOpType::BoolNegate, un(UnOpType::BoolNegate, bin(op, a.clone(), b.clone()))));
        sh.add(&f, un(UnOpType::BoolNegate, bin(op, a.clone(), a.clone())));
        if one_byte_result(op) {
            sh.add(&f, un(UnOpType::BoolNegate, bin(op, a.clone(), cst(0, s))));
            sh.add(&f, un(UnOpType::BoolNegate, bin(op, cst(1, s), b.clone())));
            sh.add(&f, un(UnOpType::IntNegate, bin(op, a, b)));
        }
    }
}

/// wrappers that are semantically the identity (most are removed by the rewriter) and near-identities that are not
fn wrap(t: &Expression, k: u64) -> Expression {
    let s = u64::from(t.bytesize());
    match k % 14 {
        0 => bin(IntOr, t.clone(), cst(0, s)),
        1 => bin(IntAnd, cst(-1, s), t.clone()),
        2 => bin(IntXOr, t.clone(), cst(0, s)),
        3 => bin(IntOr, t.clone(), t.clone()),
        4 => bin(IntAnd, t.clone(), t.clone()),
        5 => cast(CastOpType::IntZExt, s, t.clone()),
        6 => subpiece(0, s, t.clone()),
        7 => un(UnOpType::Int2Comp, un(UnOpType::Int2Comp, t.clone())),
        8 => un(UnOpType::IntNegate, un(UnOpType::IntNegate, t.clone())),
        9 => subpiece(0, s, cast(CastOpType::IntSExt, 2 * s, t.clone())),
        10 => subpiece(0, s, bin(Piece, cst(7, 1), t.clone())),
        11 => subpiece(1, s, bin(Piece, t.clone(), cst(7, 1))),
        12 => bin(IntAdd, t.clone(), cst(0, s)),
        _ => bin(IntSub, bin(IntSub, t.clone(), cst(1, s)), cst(-1, s)),
    }
}
/// replace every variable leaf by a wrapped leaf (the same variable gets the wrapper chosen by `same`, or a fresh
/// one per occurrence): after the children are rewritten the parent rule must (or must not) fire
fn wrap_leaves(e: &Expression, rng: &mut Rng, per_occurrence: bool, k0: u64) -> Expression {
    match e {
        Expression::Var(_) => {
            let k = if per_occurrence { rng.below(14) } else { k0 };
            if is_flag_expr(e) {
                // keep flags boolean: only wrappers that preserve 0/1
                wrap(e, k % 7)
            } else {
                wrap(e, k)
            }
        }
        Expression::Const(_) | Expression::Unknown { .. } => e.clone(),
        Expression::BinOp { op, lhs, rhs } => bin(*op, wrap_leaves(lhs, rng, per_occurrence, k0), wrap_leaves(rhs, rng, per_occurrence, k0)),
        Expression::UnOp { op, arg } => un(*op, wrap_leaves(arg, rng, per_occurrence, k0)),
        Expression::Cast { op, size, arg } => cast(*op, u64::from(*size), wrap_leaves(arg, rng, per_occurrence, k0)),
        Expression::Subpiece { low_byte, size, arg } => subpiece(u64::from(*low_byte), u64::from(*size), wrap_leaves(arg, rng, per_occurrence, k0)),
    }
}
fn is_flag_expr(e: &Expression) -> bool {
    matches!(e, Expression::Var(v) if is_flag(v))
}
/// put a shape under a parent operation
fn parent(e: &Expression, rng: &mut Rng) -> Expression {
    let s = u64::from(e.bytesize());
    let boolish = s == 1 && matches!(e, Expression::BinOp { op, .. } if one_byte_result(*op));
    match rng.below(if boolish { 12 } else { 8 }) {
        0 => bin(IntEqual, e.clone(), cst(0, s)),
        1 => bin(IntNotEqual, cst(0, s), bin(IntSub, e.clone(), z(s))),
        2 => cast(CastOpType::IntZExt, 2 * s, e.clone()),
        3 => subpiece(0, 1, e.clone()),
        4 => bin(IntXOr, e.clone(), e.clone()),
        5 => bin(IntAdd, bin(IntAdd, e.clone(), cst(1, s)), cst(-1, s)),
        6 => un(UnOpType::Int2Comp, un(UnOpType::Int2Comp, e.clone())),
        7 => subpiece(s, s, bin(Piece, e.clone(), z(s))),
        8 => un(UnOpType::BoolNegate, e.clone()),
        9 => bin(BoolOr, e.clone(), cst(0, 1)),
        10 => bin(BoolAnd, q(), e.clone()),
        _ => bin(BoolXOr, e.clone(), cst(1, 1)),
    }
}

// ------------------------------------------------------------------------------------------------
// generation
// ------------------------------------------------------------------------------------------------
struct Gen<'a> {
    out: &'a mut Out,
    rng: Rng,
    /// how many events may still ask TLC for more than 2^9 valuations (quick tier budget)
    exh_budget: i64,
    /// 2: boundary x boundary over 12 boundary values (systematic families), 1: over 6 (nested, random, subst, builder)
    level: u8,
    exh_events: u64,
    exh_valuations: u64,
    list_events: u64,
    rewritten: u64,
    fam_counts: std::collections::BTreeMap<String, (u64, u64)>,
}
impl<'a> Gen<'a> {
    fn mode_for(&mut self, es: &[&Expression], trivial: bool, ignore: Option<&Variable>) -> (String, Value) {
        match exhaustive_cost(es, ignore) {
            Some(cost) if cost <= 512 || trivial || self.exh_budget > 0 => {
                if cost > 512 && !trivial {
                    self.exh_budget -= 1;
                }
                self.exh_events += 1;
                if !trivial {
                    self.exh_valuations += cost;
                }
                ("exhaustive1".to_string(), json!([]))
            }
            _ => {
                self.list_events += 1;
                // (nothing is evaluated for r = e: two valuations are enough)
                let n = if trivial { 2 } else if self.out.quick() { 16 } else { 32 };
                let level = if trivial { 0 } else { self.level };
                ("list".to_string(), list_vals(es, &mut self.rng, n, level))
            }
        }
    }
    fn rw(&mut self, fam: &str, e: &Expression) {
        // (the mode is chosen after a first run of the real code only to spend the exhaustive budget on shapes that
        //  are rewritten: for r = e TLC has nothing to evaluate)
        let trivial = matches!(rewrite(e), Ok(r) if &r == e);
        let (mode, vals) = self.mode_for(&[e], trivial, None);
        let ev = exec_rw(fam, e, &mode, vals);
        let nt = ev["e"] != ev["r"];
        let key = fam.split('/').next().unwrap().to_string();
        let c = self.fam_counts.entry(key).or_insert((0, 0));
        c.0 += 1;
        if nt {
            c.1 += 1;
            self.rewritten += 1;
        }
        self.out.emit(vec![ev], nt);
    }
}

pub fn gen(out: &mut Out, _sub: &str) {
    let thorough = !out.quick();
    let seed = out.seed;
    let mut g = Gen {
        out,
        rng: Rng::new(seed ^ 0x0000_5802),
        exh_budget: if thorough { i64::MAX } else { 14 },
        level: 2,
        exh_events: 0,
        exh_valuations: 0,
        list_events: 0,
        rewritten: 0,
        fam_counts: Default::default(),
    };
    // ---- the canonical instances of every rule: always, all sizes ------------------------------
    let mut core = Shapes { v: Vec::new() };
    for s in SIZES {
        fam_core(&mut core, s);
    }
    for (f, e) in &core.v {
        g.rw(f, e);
    }
    // ---- systematic families: everything (thorough) or a seeded sample of every family (quick) --
    let mut fams: Vec<(usize, Shapes)> = Vec::new();
    for s in SIZES {
        let per: [(usize, fn(&mut Shapes, u64)); 7] =
            [(60, fam_same), (110, fam_const), (70, fam_cmpsub), (110, fam_boolcmp), (70, fam_borrow), (90, fam_arith), (50, fam_unop)];
        for (limit, f) in per {
            let mut sh = Shapes { v: Vec::new() };
            f(&mut sh, s);
            fams.push((limit, sh));
        }
    }
    let mut sh = Shapes { v: Vec::new() };
    fam_subpiece(&mut sh);
    fams.push((420, sh));
    let mut sh = Shapes { v: Vec::new() };
    fam_cast(&mut sh);
    fams.push((220, sh));
    let mut total_shapes = 0u64;
    let mut pool: Vec<(String, Expression)> = Vec::new();
    for (limit, mut sh) in fams {
        total_shapes += sh.v.len() as u64;
        if !thorough {
            g.rng.shuffle(&mut sh.v);
            sh.v.truncate(limit);
        }
        for (f, e) in &sh.v {
            g.rw(f, e);
        }
        pool.extend(sh.v);
    }
    pool.extend(core.v.iter().cloned());
    // ---- nested two levels: wrapped leaves and parents of the shapes above --------------------------
    // (from here on the number of events for which TLC enumerates 65536 valuations is budgeted per section)
    g.exh_budget = if thorough { 200 } else { 4 };
    g.level = 1;
    let n_nested = g.out.size(700, 9000);
    for i in 0..n_nested {
        let (f, e) = g.rng.pick(&pool).clone();
        if e.recursion_depth() > 4 || u64::from(e.bytesize()) > 8 {
            continue;
        }
        let mut r2 = g.rng.fork();
        let n = match i % 4 {
            0 => wrap_leaves(&e, &mut r2, false, i / 4),
            1 => wrap_leaves(&e, &mut r2, true, 0),
            2 => parent(&e, &mut r2),
            _ => parent(&wrap_leaves(&e, &mut r2, true, 0), &mut r2),
        };
        let big = vars_of(&[&n]).len() > 4 || n.recursion_depth() > 7;
        if !big {
            g.rw(&format!("nested/{}", f), &n);
        }
    }
    // ---- random typed expressions (the C10 generator) --------------------------------------------
    g.exh_budget = if thorough { 20 } else { 1 };
    let n_random = g.out.size(300, 4000);
    let mut ctx = Ctx::default();
    for (n, ty) in [("$U1_8", Ty::Int(8)), ("$U2_4", Ty::Int(4)), ("$U3_b", Ty::Bool), ("$U4_1", Ty::Int(1))] {
        ctx.define(&tmp(n, ty.size()), ty);
    }
    for i in 0..n_random {
        let mut r2 = g.rng.fork();
        let ty = match i % 5 {
            0 => Ty::Bool,
            1 => Ty::Int(1),
            2 => Ty::Int(4),
            _ => Ty::Int(8),
        };
        let depth = 2 + (i % 3) as u32;
        let e = ExprGen { rng: &mut r2, sp_weight: 2 }.expr(ty, depth, &ctx);
        if vars_of(&[&e]).len() <= 6 {
            g.rw("random", &e);
        }
    }
    // ---- substitute_input_var ------------------------------------------------------------------------
    g.exh_budget = if thorough { 120 } else { 3 };
    let n_subst = g.out.size(500, 5000);
    for i in 0..n_subst {
        let (f, e) = g.rng.pick(&pool).clone();
        let vs = vars_of(&[&e]);
        let s_e = u64::from(e.bytesize());
        let mut r2 = g.rng.fork();
        // the variable: one of e's (mostly), or one that does not occur
        let v = if vs.is_empty() || r2.chance(1, 8) { reg("n1", 1) } else { r2.pick(&vs).clone() };
        let s = u64::from(v.size);
        let flag = is_flag(&v);
        let w = if flag {
            match i % 5 {
                0 => cst(1, 1),
                1 => q(),
                2 => un(UnOpType::BoolNegate, var(&v)),
                3 => bin(IntLess, x(1), y(1)),
                _ => bin(BoolAnd, var(&v), var(&reg("r", 1))),
            }
        } else {
            match i % 8 {
                0 => cst(*r2.pick(&[0, 1, -1, 2, 77]), s),
                1 => var(&reg(&format!("z{}", s), s)),
                2 => bin(IntAdd, var(&v), cst(1, s)),
                3 => bin(IntSub, var(&reg(&format!("y{}", s), s)), var(&v)),
                4 => un(UnOpType::Int2Comp, var(&v)),
                5 if s >= 2 => cast(CastOpType::IntZExt, s, var(&reg(&format!("x{}", s / 2), s / 2))),
                5 => subpiece(1, 1, bin(Piece, var(&v), y(1))),
                6 if s <= 4 => subpiece(0, s, var(&reg(&format!("z{}", 2 * s), 2 * s))),
                6 => bin(Piece, var(&reg(&format!("x{}", s / 2), s / 2)), var(&reg(&format!("y{}", s / 2), s / 2))),
                _ => bin(IntXOr, var(&v), var(&v)),
            }
        };
        if s_e > 16 || vars_of(&[&e, &w]).len() > 5 {
            continue;
        }
        let (mode, vals) = g.mode_for(&[&e, &w], false, Some(&v));
        let ev = exec_subst(&format!("subst/{}", f), &e, &v, &w, &mode, vals);
        let nt = ev["e"] != ev["out"];
        g.out.emit(vec![ev], nt);
    }
    // ---- builder: plus, plus_const --------------------------------------------------------------------
    g.exh_budget = if thorough { 40 } else { 2 };
    let cvals: [i64; 16] =
        [0, 1, -1, 2, 127, 128, -128, -129, 255, 256, 0x7fff_ffff, -0x8000_0000, 0x1_0000_0000, i64::MAX, i64::MIN, 0x1234_5678_9abc_def0];
    let mut bases: Vec<Expression> = vec![x(1), bytes_term(2, 0), bytes_term(4, 0), x(2), x(4), x(8), bin(Piece, x(8), y(8)), bin(Piece, x(8), y(4)),
                                          bin(IntAdd, x(8), cst(8, 8)), cst(5, 4), bin(IntLess, x(1), y(1)), bytes_term(16, 0), bytes_term(3, 0)];
    let n_extra = g.out.size(10, 200);
    for _ in 0..n_extra {
        bases.push(g.rng.pick(&pool).1.clone());
    }
    for b in &bases {
        if u64::from(b.bytesize()) > 16 {
            continue;
        }
        for (i, c) in cvals.iter().enumerate() {
            if !thorough && bases.len() > 13 && (i % 3 != 0) && b.recursion_depth() > 2 {
                continue;
            }
            let (mode, vals) = g.mode_for(&[b], false, None);
            let ev = exec_plusc("plus_const", b, *c, &mode, vals);
            g.out.emit(vec![ev], *c != 0);
        }
        let s = u64::from(b.bytesize());
        let ws = [cst(0, s), cst(-1, s), b.clone(), if [1, 2, 4, 8].contains(&s) { z(s) } else { bytes_term(s, 1) }];
        for w in ws {
            if vars_of(&[b, &w]).len() > 4 {
                continue;
            }
            let (mode, vals) = g.mode_for(&[b, &w], false, None);
            let ev = exec_plus("plus", b, &w, &mode, vals);
            g.out.emit(vec![ev], true);
        }
    }
    let fam_counts: Map<String, Value> = g.fam_counts.iter().map(|(k, (n, r))| (k.clone(), json!({"shapes": n, "rewritten": r}))).collect();
    g.out.extra.insert("families".into(), Value::Object(fam_counts));
    g.out.extra.insert("systematic_shapes_total".into(), json!(total_shapes));
    g.out.extra.insert("systematic_all".into(), json!(thorough));
    g.out.extra.insert("exhaustive_events".into(), json!(g.exh_events));
    g.out.extra.insert("exhaustive_valuations".into(), json!(g.exh_valuations));
    g.out.extra.insert("list_events".into(), json!(g.list_events));
    g.out.extra.insert("rewritten".into(), json!(g.rewritten));
}
