//! C11: lifting P-Code to the IR preserves behaviour.
//! Generates P-Code blocks (pblockgen.rs), runs the REAL lifter
//! (`pcode::Project::normalize` + `into_ir_project`, exactly what
//! `utils::ghidra::parse_pcode_project_to_ir_project` does) on a project that contains the block,
//! and records one case per block: register table, P-Code block (encoding of spec/Pcode.tla), the
//! lifted IR block (encoding of spec/IR.tla), initial register files.  TLC runs both reference
//! interpreters (spec/LiftMonitor.tla) and decides; nothing is decided here.
use crate::out::{catch, Out};
use crate::pblockgen::{self, Arch, BlockGen};
use crate::rng::Rng;
use crate::{irenc, penc};
use cwe_checker_lib::pcode;
use serde_json::{json, Value};

/// Run the real lifter on the extractor JSON; returns (IR block as JSON, panic message).
pub fn lift(raw: &Value) -> (Value, String) {
    let empty = json!({"tid": "", "addr": "", "defs": [], "jmps": [], "ind": []});
    let project: pcode::Project = match serde_json::from_value(raw.clone()) {
        Ok(p) => p,
        Err(e) => return (empty, format!("deserialization of the extractor output failed: {}", e)),
    };
    let base = u64::from_str_radix(raw["program"]["term"]["image_base"].as_str().unwrap(), 16).unwrap();
    let res = catch(move || {
        let mut project = project;
        let _logs = project.normalize();
        project.into_ir_project(base)
    });
    match res {
        Ok(ir) => {
            let blk = ir.program.term.subs.values().next().and_then(|s| s.term.blocks.first());
            match blk {
                Some(b) => (irenc::blk(b), String::new()),
                None => (empty, "the lifted project has no block".to_string()),
            }
        }
        Err(msg) => (empty, format!("panic: {}", msg)),
    }
}

/// Feature tag (decides nothing; lets known_findings.json name one input class precisely): the base
/// registers B for which the block contains the adjacent pair  `S = ...; B:k = CAST(S)`  where S is a
/// named sub-register of B and B:k is a same-name SMALLER view of B (k < size of B).
fn casts_to_smaller_view_of_base(raw: &Value) -> Vec<String> {
    let table = raw["register_properties"].as_array().unwrap();
    let entry = |name: &str| table.iter().find(|r| r["register"] == name);
    let defs = raw["program"]["term"]["subs"][0]["term"]["blocks"][0]["term"]["defs"].as_array().unwrap();
    let casts = ["INT_ZEXT", "INT_SEXT", "INT2FLOAT", "FLOAT2FLOAT", "TRUNC", "POPCOUNT", "LZCOUNT"];
    let mut out = Vec::new();
    for w in defs.windows(2) {
        let (d1, d2) = (&w[0]["term"], &w[1]["term"]);
        let (Some(s), Some(b)) = (d1["lhs"]["name"].as_str(), d2["lhs"]["name"].as_str()) else { continue };
        let (Some(se), Some(be)) = (entry(s), entry(b)) else { continue };
        if casts.contains(&d2["rhs"]["mnemonic"].as_str().unwrap_or(""))
            && d2["rhs"]["input0"]["name"] == d1["lhs"]["name"]
            && d2["rhs"]["input0"]["size"] == d1["lhs"]["size"]
            && se["register"] != se["base_register"]
            && se["base_register"] == be["register"]
            && d2["lhs"]["size"].as_u64() < be["size"].as_u64()
        {
            out.push(b.to_string());
        }
    }
    out
}

/// The case record of LiftMonitor.tla for the given input (raw extractor JSON + run parameters).
pub fn exec(input: &Value) -> Value {
    // `raw` travels as JSON text (it contains nulls, which the TLA+ side must not see)
    let raw_value: Value = match &input["raw"] {
        Value::String(s) => serde_json::from_str(s).expect("raw P-Code project"),
        v => v.clone(),
    };
    let raw = &raw_value;
    let (irblock, panic) = lift(raw);
    let casts = casts_to_smaller_view_of_base(raw);
    let has_cast = !casts.is_empty();
    let table = &raw["register_properties"];
    let spn = raw["stack_pointer_register"]["name"].as_str().unwrap();
    let sps = raw["stack_pointer_register"]["size"].as_u64().unwrap();
    json!({
        "ev": "case", "idx": input["idx"], "arch": raw["cpu_architecture"], "feat": input["feat"],
        "regtable": penc::regtable(table), "ptr": sps, "le": input["le"], "seed": input["seed"],
        "sp": {"n": spn, "s": sps, "t": false}, "physregs": penc::base_registers(table),
        "pblock": penc::blk(&raw["program"]["term"]["subs"][0]["term"]["blocks"][0]),
        "irblock": irblock, "panic": panic,
        "casts_to_smaller_view_of_base": casts, "has_cast_to_smaller_view_of_base": has_cast, "inits": input["inits"], "raw": serde_json::to_string(raw).unwrap(),
    })
}

pub fn replay(run: &[Value], _sub: &str) -> Vec<Value> {
    run.iter().filter(|e| e["ev"] == "case").map(exec).collect()
}

fn one_input(seed: u64, idx: u64, archs: &[Arch], ninits: usize) -> (Value, bool) {
    let mut rng = Rng::new(seed ^ idx.wrapping_mul(0x9E37_79B9_7F4A_7C15) ^ 0xC11);
    let arch = if rng.chance(1, 6) { &archs[1] } else { &archs[0] };
    let blk = {
        let g = BlockGen::new(&mut rng, arch);
        g.block(6)
    };
    let raw = pblockgen::block_project(arch, &blk);
    let feat: Vec<&str> = blk.feats.iter().cloned().collect();
    let nontrivial = feat.iter().any(|f| f.starts_with("subreg_out") || f.starts_with("ram_") || *f == "sns_out" || *f == "load_subreg");
    let inits = pblockgen::inits(&mut rng, arch, ninits);
    (json!({"idx": idx, "raw": raw, "feat": feat, "le": rng.chance(3, 4), "seed": rng.below(65521), "inits": inits}), nontrivial)
}

pub fn gen(out: &mut Out, _sub: &str) {
    let n = out.size(800, 12000);
    let ninit = out.size(3, 4) as usize;
    let archs = [pblockgen::arch64(), pblockgen::arch32()];
    let mut counts = std::collections::BTreeMap::new();
    let mut panics = 0u64;
    for idx in 0..n {
        let (input, nontrivial) = one_input(out.seed, idx, &archs, ninit);
        for f in input["feat"].as_array().unwrap() {
            *counts.entry(f.as_str().unwrap().to_string()).or_insert(0u64) += 1;
        }
        let ev = exec(&input);
        if ev["panic"] != json!("") {
            panics += 1;
        }
        out.emit(vec![ev], nontrivial);
    }
    out.extra.insert("feature_counts".to_string(), json!(counts));
    out.extra.insert("lifter_panics".to_string(), json!(panics));
    out.extra.insert("inits_per_case".to_string(), json!(ninit));
}
