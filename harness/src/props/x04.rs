//! X04 (extended coverage): parameter locations of variadic calls,
//! `utils::arguments::{calculate_parameter_locations, get_variable_parameters, get_input_format_string,
//! parse_format_string_destination_and_return_content}` against the allocation machine spec/ParamLoc.tla
//! (composed with spec/FormatString.tla and spec/MemImage.tla for the format-string route).
//!
//! One event per call of the real code.
//!   {"ev":"loc", ...}  calculate_parameter_locations(args, symbol, project)
//!   {"ev":"fmt", ...}  get_variable_parameters(project, pi_state, symbol, {name: fmt_index}) with the format
//!                      string stored in the project's RuntimeMemoryImage and the format-string parameter
//!                      (register or stack slot) set in the PointerInference state
//! common fields: src, arch, sp, cconvs[{name,params,fparams}], sym_cconv ("" = none), fixed[{k,x,s,dt}],
//!                result[{k:"reg"|"stack", x:expr (register expression / stack address), s:size, dt:type|""}],
//!                ok, panic, input (serde of the whole input: replay re-executes it)
//! loc: args[{t,s}], beh (sub "tlc": the behaviour TLC printed)
//! fmt: sizes{...}, fmt_index, tokens, text, segs, le, ptr{k:"const"|"other", addr:bv}, ptr_plan
//!
//!   sub ""    (impl -> spec): random conventions (0..8 integer / 0..9 float parameter registers, several
//!             conventions per project, symbols with and without annotated convention), random architectures
//!             and pointer sizes, 0..5 fixed parameters placed as the convention places them, argument lists
//!             up to 12 with model and random sizes; format strings over the supported grammar stored in
//!             generated memory images.
//!   sub "tlc" (spec -> impl): behaviours of the allocation machine enumerated by TLC (mc/MC_ParamLoc; file named
//!             by $VERIF_X04_BEHAVIOURS, one {"arch","ptr","ni","nf","k","args","locs"} per line): a project of
//!             that shape is built and the real function is called on the argument list.
//! Nothing is decided here; spec/trace/T_X04.tla judges every recorded result.
use crate::enc::{bv, bv_u64};
use crate::irenc;
use crate::irenc::mk_tid;
use crate::out::{catch, Out};
use crate::rng::Rng;
use cwe_checker_lib::abstract_domain::{AbstractDomain, IntervalDomain, TryToBitvec};
use cwe_checker_lib::analysis::pointer_inference::{Data, State as PiState};
use cwe_checker_lib::intermediate_representation::*;
use cwe_checker_lib::utils::arguments::{calculate_parameter_locations, get_variable_parameters};
use cwe_checker_lib::utils::binary::MemorySegment;
use serde_json::{json, Value};
use std::collections::{BTreeMap, BTreeSet, HashMap};
use std::panic::AssertUnwindSafe;

#[derive(serde::Serialize, serde::Deserialize, Clone)]
pub struct Input {
    pub src: String,
    /// "loc" | "fmt"
    pub mode: String,
    pub project: Project,
    pub symbol: ExternSymbol,
    /// loc: the variadic arguments handed to calculate_parameter_locations
    pub args: Vec<(Datatype, ByteSize)>,
    /// fmt: index of the format-string parameter, how the parameter is set in the PI state, the pointer
    pub fmt_index: usize,
    pub ptr_plan: String,
    pub ptr_addr: u64,
    /// fmt: how the stored string was produced (FormatString.tla tokens) and the string (code points)
    pub tokens: Value,
    pub text: Vec<u32>,
    /// tlc: the behaviour printed by TLC
    pub beh: Value,
}

// ---------------------------------------------------------------------------------------------
// construction helpers
// ---------------------------------------------------------------------------------------------
fn reg(name: &str, size: u64) -> Variable {
    Variable { name: name.to_string(), size: ByteSize::new(size), is_temp: false }
}

fn sp_of(arch: &str, ptr: u64) -> Variable {
    match arch {
        "x86_64" => reg("RSP", ptr),
        "x86_32" | "x86" => reg("ESP", ptr),
        _ => reg("sp", ptr),
    }
}

fn int_reg_names(arch: &str) -> Vec<String> {
    let v: &[&str] = match arch {
        "x86_64" => &["RDI", "RSI", "RDX", "RCX", "R8", "R9", "R10", "R11", "RAX"],
        "x86_32" | "x86" => &["ECX", "EDX", "EAX", "EBX", "ESI", "EDI", "EBP", "E7", "E8"],
        "arm32" => &["r0", "r1", "r2", "r3", "r4", "r5", "r6", "r7", "r8"],
        "aarch64" => &["x0", "x1", "x2", "x3", "x4", "x5", "x6", "x7", "x8"],
        "mips32" => &["a0", "a1", "a2", "a3", "t0", "t1", "t2", "t3", "t4"],
        _ => &["r3", "r4", "r5", "r6", "r7", "r8", "r9", "r10", "r11"],
    };
    v.iter().map(|s| s.to_string()).collect()
}

/// float parameter registers are expressions: sub-registers of wide vector registers or plain registers
fn float_reg(arch: &str, i: usize, style: u64) -> Expression {
    match (arch, style) {
        ("x86_64", 0) | ("x86_32", 0) | ("x86", 0) => Expression::Subpiece {
            low_byte: ByteSize::new(0),
            size: ByteSize::new(8),
            arg: Box::new(Expression::Var(reg(&format!("ZMM{}", i), 64))),
        },
        (_, 1) => Expression::Subpiece {
            low_byte: ByteSize::new(0),
            size: ByteSize::new(8),
            arg: Box::new(Expression::Var(reg(&format!("q{}", i), 16))),
        },
        _ => Expression::Var(reg(&format!("d{}", i), 8)),
    }
}

fn cconv(name: &str, arch: &str, ptr: u64, ni: usize, nf: usize, fstyle: u64) -> CallingConvention {
    let names = int_reg_names(arch);
    CallingConvention {
        name: name.to_string(),
        integer_parameter_register: (0..ni).map(|i| reg(&names[i], ptr)).collect(),
        float_parameter_register: (0..nf).map(|i| float_reg(arch, i, fstyle)).collect(),
        integer_return_register: vec![reg(&names[names.len() - 1], ptr)],
        float_return_register: vec![],
        callee_saved_register: vec![],
    }
}

fn sizes_of(ptr: u64) -> DatatypeProperties {
    DatatypeProperties {
        char_size: ByteSize::new(1),
        double_size: ByteSize::new(8),
        float_size: ByteSize::new(4),
        integer_size: ByteSize::new(4),
        long_double_size: ByteSize::new(if ptr == 8 { 16 } else { 8 }),
        long_long_size: ByteSize::new(8),
        long_size: ByteSize::new(ptr),
        pointer_size: ByteSize::new(ptr),
        short_size: ByteSize::new(2),
    }
}

fn stack_arg(sp: &Variable, off: i64, size: u64) -> Arg {
    Arg::Stack { address: Expression::Var(sp.clone()).plus_const(off), size: ByteSize::new(size), data_type: None }
}

fn is_x86(arch: &str) -> bool {
    matches!(arch, "x86" | "x86_32" | "x86_64")
}

/// k fixed integer-class parameters as a convention with the given integer registers places them;
/// `gaps[j]`: padding in front of the j-th stack parameter, `slot[j]`: its size
fn fixed_params(cc: &CallingConvention, sp: &Variable, arch: &str, k: usize, gaps: &[u64], slot: &[u64]) -> Vec<Arg> {
    let mut off = if is_x86(arch) { u64::from(sp.size) } else { 0 };
    let mut v = Vec::new();
    for j in 0..k {
        if j < cc.integer_parameter_register.len() {
            v.push(Arg::from_var(cc.integer_parameter_register[j].clone(), None));
        } else {
            off += gaps[j];
            v.push(stack_arg(sp, off as i64, slot[j]));
            off += slot[j];
        }
    }
    v
}

fn mk_symbol(name: &str, cconv: Option<String>, params: Vec<Arg>, ret: &Variable) -> ExternSymbol {
    ExternSymbol {
        tid: mk_tid("sub_a000", "a000"),
        addresses: vec!["a000".to_string()],
        name: name.to_string(),
        calling_convention: cconv,
        parameters: params,
        return_values: vec![Arg::from_var(ret.clone(), None)],
        no_return: false,
        has_var_args: true,
    }
}

fn mk_project(arch: &str, sp: &Variable, cconvs: Vec<CallingConvention>, sizes: DatatypeProperties, image: RuntimeMemoryImage, _symbol: &ExternSymbol) -> Project {
    let mut register_set = BTreeSet::new();
    register_set.insert(sp.clone());
    for c in &cconvs {
        for r in c.get_all_parameter_register() {
            register_set.insert(r.clone());
        }
    }
    let program = Program {
        subs: BTreeMap::new(),
        // (kept empty: a map with Tid keys has no JSON form and the replay input is the serde of the project)
        extern_symbols: BTreeMap::new(),
        entry_points: BTreeSet::new(),
        address_base_offset: 0,
    };
    Project {
        program: Term { tid: Tid::new("prog_1000"), term: program },
        cpu_architecture: arch.to_string(),
        stack_pointer_register: sp.clone(),
        calling_conventions: cconvs.into_iter().map(|c| (c.name.clone(), c)).collect(),
        register_set,
        datatype_properties: sizes,
        runtime_memory_image: image,
    }
}

fn datatype(name: &str) -> Datatype {
    match name {
        "Integer" => Datatype::Integer,
        "Pointer" => Datatype::Pointer,
        "Char" => Datatype::Char,
        "Double" => Datatype::Double,
        other => panic!("datatype {}", other),
    }
}

// ---------------------------------------------------------------------------------------------
// projection
// ---------------------------------------------------------------------------------------------
fn dt_name(d: &Option<Datatype>) -> String {
    match d {
        Some(d) => format!("{:?}", d),
        None => String::new(),
    }
}

/// uniform shape: k, x (register expression or stack address), s (size in bytes), dt
fn arg_json(a: &Arg) -> Value {
    match a {
        Arg::Register { expr, data_type } => json!({"k": "reg", "x": irenc::expr(expr), "s": u64::from(expr.bytesize()), "dt": dt_name(data_type)}),
        Arg::Stack { address, size, data_type } => json!({"k": "stack", "x": irenc::expr(address), "s": u64::from(*size), "dt": dt_name(data_type)}),
    }
}

fn sizes_json(p: &DatatypeProperties) -> Value {
    json!({"char": u64::from(p.char_size), "double": u64::from(p.double_size), "float": u64::from(p.float_size),
           "integer": u64::from(p.integer_size), "long_double": u64::from(p.long_double_size),
           "long_long": u64::from(p.long_long_size), "long": u64::from(p.long_size),
           "pointer": u64::from(p.pointer_size), "short": u64::from(p.short_size)})
}

fn common(input: &Input) -> serde_json::Map<String, Value> {
    let p = &input.project;
    let mut m = serde_json::Map::new();
    m.insert("src".into(), json!(input.src));
    m.insert("arch".into(), json!(p.cpu_architecture));
    m.insert("sp".into(), irenc::var(&p.stack_pointer_register));
    m.insert(
        "cconvs".into(),
        Value::Array(
            p.calling_conventions
                .values()
                .map(|c| {
                    json!({"name": c.name,
                           "params": c.integer_parameter_register.iter().map(irenc::var).collect::<Vec<_>>(),
                           "fparams": c.float_parameter_register.iter().map(irenc::expr).collect::<Vec<_>>()})
                })
                .collect(),
        ),
    );
    m.insert("sym_cconv".into(), json!(input.symbol.calling_convention.clone().unwrap_or_default()));
    m.insert("fixed".into(), Value::Array(input.symbol.parameters.iter().map(arg_json).collect()));
    m
}

// ---------------------------------------------------------------------------------------------
// the calls
// ---------------------------------------------------------------------------------------------
fn nontrivial(result: &[Value], nargs: usize) -> bool {
    let regs = result.iter().filter(|r| r["k"] == "reg").count();
    nargs >= 2 && regs > 0 && regs < result.len()
}

pub fn exec(input: &Input) -> (Value, bool) {
    let mut m = common(input);
    // replay input: the serde of the whole input; a TLC behaviour is rebuilt from `beh` instead (keeps the traces small)
    let input_s = if input.src == "tlc" { String::new() } else { serde_json::to_string(input).unwrap() };
    if input.mode == "loc" {
        let args = input.args.clone();
        let (sym, project) = (AssertUnwindSafe(&input.symbol), AssertUnwindSafe(&input.project));
        let r = catch(move || calculate_parameter_locations(args, &sym, &project));
        let (ok, result, panic) = match r {
            Ok(v) => (true, v.iter().map(arg_json).collect::<Vec<_>>(), String::new()),
            Err(p) => (false, vec![], if p.is_empty() { "panic".to_string() } else { p }),
        };
        let nt = nontrivial(&result, input.args.len());
        m.insert("ev".into(), json!("loc"));
        m.insert("args".into(), Value::Array(input.args.iter().map(|(t, s)| json!({"t": format!("{:?}", t), "s": u64::from(*s)})).collect()));
        m.insert("beh".into(), input.beh.clone());
        m.insert("ok".into(), json!(ok));
        m.insert("result".into(), Value::Array(result));
        m.insert("panic".into(), json!(panic));
        m.insert("input".into(), json!(input_s));
        return (Value::Object(m), nt);
    }
    // fmt: the PointerInference state at the call
    let p = &input.project;
    let sp = &p.stack_pointer_register;
    let image = &p.runtime_memory_image;
    let mut state = PiState::new(sp, Tid::new("func"), BTreeSet::new());
    let ptr_bv = bv_u64(input.ptr_addr, u64::from(sp.size));
    let value: Option<Data> = match input.ptr_plan.as_str() {
        "const" => Some(Data::from(ptr_bv.clone())),
        "interval" => {
            let end = bv_u64(input.ptr_addr.wrapping_add(4), u64::from(sp.size));
            Some(IntervalDomain::new(ptr_bv.clone(), end).into())
        }
        "stackptr" => Some(state.get_register(sp)),
        // the constant OR a stack address (e.g. after a merge of two paths): not a constant pointer
        "mixed" => Some(Data::from(ptr_bv.clone()).merge(&state.get_register(sp))),
        // the constant with the "may also be anything" flag
        "maybetop" => {
            let mut d = Data::from(ptr_bv.clone());
            d.set_contains_top_flag();
            Some(d)
        }
        _ => None, // "top": nothing known about the parameter
    };
    if let (Some(param), Some(value)) = (input.symbol.parameters.get(input.fmt_index), value) {
        match param {
            Arg::Register { expr: Expression::Var(v), .. } => state.set_register(v, value),
            Arg::Register { .. } => unreachable!("fixed register parameters are plain registers"),
            Arg::Stack { address, .. } => {
                let _ = state.write_to_address(address, &value, image);
            }
        }
    }
    // what the state says about the parameter (the input class "constant pointer" as the real state holds it)
    let ptr = match input.symbol.parameters.get(input.fmt_index) {
        Some(param) => match state.eval_parameter_arg(param, image) {
            Ok(data) => match data.get_if_absolute_value().map(|iv| iv.try_to_bitvec()) {
                Some(Ok(b)) => json!({"k": "const", "addr": bv(&b.into_zero_extend(64).unwrap())}),
                _ => json!({"k": "other", "addr": []}),
            },
            Err(_) => json!({"k": "other", "addr": []}),
        },
        None => json!({"k": "other", "addr": []}),
    };
    let map: HashMap<String, usize> = HashMap::from([(input.symbol.name.clone(), input.fmt_index)]);
    let (st, sym, project) = (AssertUnwindSafe(&state), AssertUnwindSafe(&input.symbol), AssertUnwindSafe(p));
    let r = catch(move || get_variable_parameters(&project, &st, &sym, &map).map_err(|e| format!("{}", e)));
    let (ok, result, err, panic) = match r {
        Ok(Ok(v)) => (true, v.iter().map(arg_json).collect::<Vec<_>>(), String::new(), String::new()),
        Ok(Err(e)) => (false, vec![], e, String::new()),
        Err(p) => (false, vec![], String::new(), if p.is_empty() { "panic".to_string() } else { p }),
    };
    let nconv = input.tokens.as_array().map(|t| t.iter().filter(|x| x["k"] == "conv").count()).unwrap_or(0);
    let nt = nontrivial(&result, nconv);
    m.insert("ev".into(), json!("fmt"));
    m.insert("sizes".into(), sizes_json(&p.datatype_properties));
    m.insert("fmt_index".into(), json!(input.fmt_index));
    m.insert("tokens".into(), input.tokens.clone());
    m.insert("text".into(), json!(input.text));
    m.insert(
        "segs".into(),
        Value::Array(
            image
                .memory_segments
                .iter()
                .map(|s| json!({"base": bv(&Bitvector::from_u64(s.base_address)), "bytes": s.bytes, "r": s.read_flag, "w": s.write_flag, "x": s.execute_flag}))
                .collect(),
        ),
    );
    m.insert("le".into(), json!(image.is_little_endian));
    m.insert("ptr".into(), ptr);
    m.insert("ptr_plan".into(), json!(input.ptr_plan));
    m.insert("ok".into(), json!(ok));
    m.insert("result".into(), Value::Array(result));
    m.insert("err".into(), json!(err));
    m.insert("panic".into(), json!(panic));
    m.insert("str".into(), json!(input.text.iter().map(|c| char::from_u32(*c).filter(|c| (' '..='~').contains(c)).unwrap_or('?')).collect::<String>()));
    m.insert("input".into(), json!(input_s));
    (Value::Object(m), nt)
}

// ---------------------------------------------------------------------------------------------
// spec -> impl: a project of the shape TLC explored
// ---------------------------------------------------------------------------------------------
fn input_from_behaviour(b: &Value) -> Input {
    let arch = b["arch"].as_str().unwrap();
    let ptr = b["ptr"].as_u64().unwrap();
    let (ni, nf, k) = (b["ni"].as_u64().unwrap() as usize, b["nf"].as_u64().unwrap() as usize, b["k"].as_u64().unwrap() as usize);
    let sp = sp_of(arch, ptr);
    let cc = cconv("__stdcall", arch, ptr, ni, nf, 0);
    let fixed = fixed_params(&cc, &sp, arch, k, &[0; 8], &[ptr; 8]);
    let symbol = mk_symbol("sprintf", Some("__stdcall".to_string()), fixed, &cc.integer_return_register[0]);
    let project = mk_project(arch, &sp, vec![cc], sizes_of(ptr), RuntimeMemoryImage::empty(true), &symbol);
    let args = b["args"].as_array().unwrap().iter().map(|a| (datatype(a["t"].as_str().unwrap()), ByteSize::new(a["s"].as_u64().unwrap()))).collect();
    Input { src: "tlc".into(), mode: "loc".into(), project, symbol, args, fmt_index: 0, ptr_plan: String::new(), ptr_addr: 0,
            tokens: json!([]), text: vec![], beh: b.clone() }
}

// ---------------------------------------------------------------------------------------------
// impl -> spec: random conventions, symbols, argument lists, format strings in memory
// ---------------------------------------------------------------------------------------------
const ARCHS: [(&str, u64); 9] = [("x86_64", 8), ("x86_32", 4), ("x86", 4), ("arm32", 4), ("aarch64", 8), ("mips32", 4), ("ppc64", 8), ("x86", 2), ("riscv64", 8)];

struct Setup {
    arch: String,
    sp: Variable,
    cconvs: Vec<CallingConvention>,
    symbol: ExternSymbol,
    ptr: u64,
}

fn random_setup(rng: &mut Rng, name: &str, min_fixed: usize) -> Setup {
    let (arch, ptr) = *rng.pick(&ARCHS);
    let sp = sp_of(arch, ptr);
    // the convention the symbol uses, and up to two more in the project
    let pick_n = |rng: &mut Rng, max: u64| -> usize {
        (match rng.below(10) { 0..=2 => 0, 3 => max, _ => rng.below(max + 1) }) as usize
    };
    let all = ["__stdcall", "__cdecl", "__thiscall", "__fastcall", "__vectorcall"];
    let mut names: Vec<&str> = all.to_vec();
    rng.shuffle(&mut names);
    let ncc = 1 + rng.below(3) as usize;
    let names = &names[..ncc];
    let fstyle = rng.below(3);
    let cconvs: Vec<CallingConvention> = names.iter().map(|n| { let ni = pick_n(rng, 8); let nf = pick_n(rng, 9); cconv(n, arch, ptr, ni, nf, fstyle) }).collect();
    // annotated convention, or none: then the project's standard convention applies (__stdcall, else
    // __cdecl, else __thiscall) - only generated when one of them exists
    let has_std = names.iter().any(|n| ["__stdcall", "__cdecl", "__thiscall"].contains(n));
    let annotated = !has_std || rng.chance(3, 4);
    let (sym_cc, used) = if annotated {
        let c = rng.pick(&cconvs).clone();
        (Some(c.name.clone()), c)
    } else {
        let std = ["__stdcall", "__cdecl", "__thiscall"].iter().find_map(|n| cconvs.iter().find(|c| c.name == *n)).unwrap().clone();
        (None, std)
    };
    let k = std::cmp::max(min_fixed, match rng.below(8) { 0 => 0, 1..=3 => 1 + rng.below(2) as usize, _ => rng.below(6) as usize });
    // stack slots of fixed parameters: pointer sized, sometimes other sizes / padding in front
    let odd = rng.chance(1, 5);
    let gaps: Vec<u64> = (0..8).map(|_| if odd && rng.chance(1, 3) { *rng.pick(&[4u64, 8, 12]) } else { 0 }).collect();
    let slot: Vec<u64> = (0..8).map(|_| if odd && rng.chance(1, 3) { *rng.pick(&[1u64, 2, 4, 8, 16]) } else { ptr }).collect();
    let fixed = fixed_params(&used, &sp, arch, k, &gaps, &slot);
    let symbol = mk_symbol(name, sym_cc, fixed, &used.integer_return_register[0]);
    Setup { arch: arch.to_string(), sp, cconvs, symbol, ptr }
}

fn random_sizes(rng: &mut Rng, ptr: u64) -> DatatypeProperties {
    if rng.chance(2, 3) {
        return sizes_of(ptr);
    }
    // pairwise different sizes, so that a wrong table entry cannot hide
    let mut v: Vec<u64> = (1..=16).collect();
    rng.shuffle(&mut v);
    DatatypeProperties {
        char_size: ByteSize::new(v[0]), double_size: ByteSize::new(v[1]), float_size: ByteSize::new(v[2]),
        integer_size: ByteSize::new(v[3]), long_double_size: ByteSize::new(v[4]), long_long_size: ByteSize::new(v[5]),
        long_size: ByteSize::new(v[6]), pointer_size: ByteSize::new(v[7]), short_size: ByteSize::new(v[8]),
    }
}

fn random_loc(rng: &mut Rng) -> Input {
    let s = random_setup(rng, "sprintf", 0);
    let n = match rng.below(10) { 0 => rng.below(2), 1..=5 => 1 + rng.below(5), _ => 4 + rng.below(9) } as usize;
    // per list: how float heavy it is
    let pf = *rng.pick(&[1u64, 3, 6]);
    let model = rng.chance(2, 3);
    let args: Vec<(Datatype, ByteSize)> = (0..n)
        .map(|_| {
            let t = if rng.below(10) < pf { Datatype::Double } else { rng.pick(&[Datatype::Integer, Datatype::Pointer, Datatype::Char]).clone() };
            let size = if model {
                match t { Datatype::Double => 8, Datatype::Pointer => s.ptr, _ => 4 }
            } else {
                1 + rng.below(16)
            };
            (t, ByteSize::new(size))
        })
        .collect();
    let project = mk_project(&s.arch, &s.sp, s.cconvs, sizes_of(s.ptr), RuntimeMemoryImage::empty(true), &s.symbol);
    Input { src: "gen".into(), mode: "loc".into(), project, symbol: s.symbol, args, fmt_index: 0, ptr_plan: String::new(), ptr_addr: 0,
            tokens: json!([]), text: vec![], beh: json!({}) }
}

// format strings over the supported grammar (token shape of FormatString.tla), ASCII only
const FORMS: [&str; 45] = [
    "c", "C", "d", "i", "o", "u", "x", "X", "e", "E", "f", "F", "g", "G", "a", "A", "n", "p", "s", "S", "hi", "hd", "hu",
    "lf", "lg", "le", "la", "lF", "lG", "lE", "lA", "li", "ld", "lu", "lli", "lld", "llu", "Lf", "Lg", "Le", "La", "LF",
    "LG", "LE", "LA",
];

fn cps(s: &str) -> Vec<u32> {
    s.chars().map(|c| c as u32).collect()
}

fn random_format(rng: &mut Rng) -> (Value, String) {
    let n = match rng.below(10) { 0 => rng.below(2), 1..=5 => 1 + rng.below(5), _ => 4 + rng.below(9) };
    let p_unsupported = *rng.pick(&[0u64, 0, 0, 1, 3]);
    let p_lit = *rng.pick(&[2u64, 6, 10]);
    let mut tokens = Vec::new();
    let mut text = String::new();
    for _ in 0..n {
        let r = rng.below(20);
        if r < 2 {
            tokens.push(json!({"k": "esc", "c": 0, "flag": [], "width": [], "prec": [], "spec": []}));
            text.push_str("%%");
        } else if r < 2 + p_lit {
            let c = *rng.pick(b"dsxlhLcfniu.0123456789+-# abz/:,=_()\"'\\\n\t!?*$&~") as char;
            tokens.push(json!({"k": "lit", "c": c as u32, "flag": [], "width": [], "prec": [], "spec": []}));
            text.push(c);
        } else {
            let flag = if rng.chance(2, 3) { String::new() } else { rng.pick(&["+", "-", "#", "0"]).to_string() };
            let width = if rng.chance(2, 3) { String::new() } else { format!("{}", rng.below(300)) };
            let prec = match rng.below(10) { 0..=6 => String::new(), 7 => ".".to_string(), _ => format!(".{}", rng.below(20)) };
            let spec = if rng.below(20) < p_unsupported { FORMS[31 + rng.below(14) as usize] } else { FORMS[rng.below(31) as usize] };
            text.push_str(&format!("%{}{}{}{}", flag, width, prec, spec));
            tokens.push(json!({"k": "conv", "c": 0, "flag": cps(&flag), "width": cps(&width), "prec": cps(&prec), "spec": cps(spec)}));
        }
    }
    (Value::Array(tokens), text)
}

fn filler(rng: &mut Rng, n: u64) -> Vec<u8> {
    (0..n).map(|_| if rng.chance(1, 6) { 0 } else { *rng.pick(b"abc%d %s x5.l-0") }).collect()
}

fn random_fmt(rng: &mut Rng) -> Input {
    let name = *rng.pick(&["sprintf", "snprintf", "printf", "sscanf", "__isoc99_sscanf", "fprintf"]);
    let s = random_setup(rng, name, 1);
    let k = s.symbol.parameters.len();
    let (tokens, text) = random_format(rng);
    // memory image: a read-only segment with the string somewhere in it, optionally further segments
    // (writable data in front, an adjacent read-only segment behind)
    let max_base: u64 = if s.ptr >= 4 { 0x7fff_0000 } else { 0x7000 };
    let base = (0x1000 + rng.below(max_base - 0x1000)) & !0xf;
    let nb = rng.below(24);
    let before = filler(rng, nb);
    let mut bytes = before.clone();
    let str_off = bytes.len() as u64;
    bytes.extend_from_slice(text.as_bytes());
    // how the pointer / the string are arranged
    let plan = match rng.below(22) { 0 => "top", 1 => "interval", 2 => "stackptr", 3 => "unmapped", 4 => "nonul", 5 => "badindex", 6 => "mixed", 7 => "maybetop", _ => "const" };
    // "nonul" needs a non-empty string (an empty one would put the pointer behind the segment)
    let plan = if plan == "nonul" && text.is_empty() { "const" } else { plan };
    if plan != "nonul" {
        bytes.push(0);
        let na = rng.below(16);
        bytes.extend(filler(rng, na));
    }
    let mut segs = Vec::new();
    if rng.chance(1, 3) {
        let n = 8 + rng.below(24);
        segs.push(MemorySegment { bytes: filler(rng, n), base_address: base - 0x800, read_flag: true, write_flag: true, execute_flag: false });
    }
    let ro_len = bytes.len() as u64;
    segs.push(MemorySegment { bytes, base_address: base, read_flag: true, write_flag: false, execute_flag: rng.chance(1, 4) });
    if rng.chance(1, 3) {
        // adjacent segment: the string must not be continued into it
        let n = 4 + rng.below(12);
        segs.push(MemorySegment { bytes: filler(rng, n), base_address: base + ro_len, read_flag: true, write_flag: false, execute_flag: false });
    }
    if rng.chance(1, 2) {
        segs.reverse();
    }
    let image = RuntimeMemoryImage { memory_segments: segs, is_little_endian: rng.chance(3, 4), is_lkm: false };
    let ptr_addr = if plan == "unmapped" { base + 0x4000 + rng.below(64) } else { base + str_off };
    let fmt_index = if plan == "badindex" { k + rng.below(2) as usize } else { rng.below(k as u64) as usize };
    let ptr_plan = match plan { "top" | "interval" | "stackptr" | "mixed" | "maybetop" => plan, _ => "const" };
    let sizes = random_sizes(rng, s.ptr);
    let project = mk_project(&s.arch, &s.sp, s.cconvs, sizes, image, &s.symbol);
    Input { src: "gen".into(), mode: "fmt".into(), project, symbol: s.symbol, args: vec![], fmt_index, ptr_plan: ptr_plan.to_string(), ptr_addr,
            tokens, text: cps(&text), beh: json!({}) }
}

pub fn gen(out: &mut Out, sub: &str) {
    let mut rng = Rng::new(out.seed ^ 0x0E04);
    if sub == "tlc" {
        let path = std::env::var("VERIF_X04_BEHAVIOURS").expect("VERIF_X04_BEHAVIOURS");
        let text = std::fs::read_to_string(&path).expect("behaviours file");
        for line in text.lines() {
            if line.trim().is_empty() { continue }
            let b: Value = serde_json::from_str(line).expect("behaviour json");
            let input = input_from_behaviour(&b);
            let (ev, nt) = exec(&input);
            out.emit(vec![ev], nt);
        }
        return;
    }
    let n = out.size(6_000, 90_000);
    for i in 0..n {
        let input = if i % 3 == 2 { random_fmt(&mut rng) } else { random_loc(&mut rng) };
        let (ev, nt) = exec(&input);
        out.emit(vec![ev], nt);
    }
}

pub fn replay(run: &[Value], _sub: &str) -> Vec<Value> {
    run.iter()
        .filter_map(|e| {
            if e["src"] == "tlc" {
                Some(input_from_behaviour(&e["beh"]))
            } else {
                e["input"].as_str().and_then(|s| serde_json::from_str::<Input>(s).ok())
            }
        })
        .map(|input| exec(&input).0)
        .collect()
}
