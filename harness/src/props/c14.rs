//! C14: function signatures never miss a register parameter.  One case = random project -> the
//! registers `compute_function_signatures` reports as parameters of every function.  TLC computes
//! `MustBeParam` (spec/ParamWalk.tla) and requires MustBeParam(f) ⊆ reported(f).
//!
//! Generator class: the stack pointer is never assigned and occurs only in load/store addresses
//! (`RSP ± c`, incl. callee-saved style spills `Store [RSP-8] := reg`) and stack-argument addresses;
//! declared extern parameters are plain registers or stack slots; extern symbols that
//! function_signature/stubs.rs knows (malloc, memcpy) are declared with exactly the stub's arity.
use crate::irenc;
use crate::out::Out;
use crate::rng::Rng;
use crate::walkgen::*;
use crate::walkrun::run_fn_sigs;
use cwe_checker_lib::intermediate_representation::*;
use serde_json::{json, Value};

const REGS: [&str; 10] = ["RDI", "RSI", "RDX", "RCX", "R8", "R9", "RAX", "RBX", "R12", "R10"];
const PARAMS: [&str; 7] = ["RDI", "RSI", "RDX", "RCX", "R8", "R9", "RBX"];

fn anyreg(r: &mut Rng) -> Expression {
    if r.chance(2, 3) { evar(pick_str(r, &PARAMS)) } else { evar(pick_str(r, &REGS)) }
}
fn zmm(r: &mut Rng) -> Expression {
    Expression::Subpiece { low_byte: ByteSize::new(0), size: ByteSize::new(8), arg: Box::new(Expression::Var(var(pick_str(r, &["ZMM0", "ZMM1"]), 64))) }
}
fn value(r: &mut Rng) -> Expression {
    match r.below(8) {
        0 => econst(r.range(0, 64)),
        1 | 2 | 3 => anyreg(r),
        4 => ebin(BinOpType::IntAdd, anyreg(r), econst(r.range(1, 32))),
        5 => ebin(BinOpType::IntSub, anyreg(r), anyreg(r)),
        6 => ebin(BinOpType::IntMult, anyreg(r), econst(4)),
        _ => zmm(r),
    }
}
/// An index operand as compilers emit it in indexed addressing: scaled, shifted, negated or
/// cast (32-bit index zero-/sign-extended) - a register that is read without being the base.
fn index(r: &mut Rng) -> Expression {
    match r.below(5) {
        0 => ebin(BinOpType::IntMult, anyreg(r), econst(*r.pick(&[2i64, 4, 8]))),
        1 => ebin(BinOpType::IntLeft, anyreg(r), econst(r.range(1, 4))),
        2 => Expression::UnOp { op: UnOpType::Int2Comp, arg: Box::new(anyreg(r)) },
        3 => Expression::Cast {
            op: *r.pick(&[CastOpType::IntZExt, CastOpType::IntSExt]),
            size: ByteSize::new(8),
            arg: Box::new(Expression::Subpiece { low_byte: ByteSize::new(0), size: ByteSize::new(4), arg: Box::new(anyreg(r)) }),
        },
        _ => anyreg(r),
    }
}
fn addr(r: &mut Rng) -> Expression {
    match r.below(8) {
        0 | 1 | 2 => sp_off(8 * r.range(-4, 3)),
        3 => anyreg(r),
        4 | 5 => ebin(BinOpType::IntAdd, anyreg(r), econst(8 * r.range(0, 4))),
        // base + index (both operand orders), optionally with a displacement
        6 => {
            let (b, i) = (anyreg(r), index(r));
            let sum = if r.chance(1, 2) { ebin(BinOpType::IntAdd, b, i) } else { ebin(BinOpType::IntAdd, i, b) };
            if r.chance(1, 3) { ebin(BinOpType::IntAdd, sum, econst(8 * r.range(1, 4))) } else { sum }
        }
        // table access: constant base + index
        _ => ebin(BinOpType::IntAdd, index(r), econst(0x1000 * r.range(1, 4))),
    }
}
fn cmp(r: &mut Rng) -> Expression {
    let op = *r.pick(&[BinOpType::IntEqual, BinOpType::IntNotEqual, BinOpType::IntLess]);
    let rhs = if r.chance(1, 2) { econst(0) } else { anyreg(r) };
    ebin(op, anyreg(r), rhs)
}

pub struct ParamHooks;
impl Hooks for ParamHooks {
    fn defs(&mut self, r: &mut Rng, _ctx: &BlkCtx) -> Vec<Def> {
        let n = r.below(4);
        (0..n)
            .map(|_| match r.below(10) {
                0..=4 => Def::Assign { var: reg(pick_str(r, &REGS)), value: value(r) },
                5 => Def::Assign { var: var("ZF", 1), value: cmp(r) },
                6 | 7 => Def::Load { var: reg(pick_str(r, &REGS)), address: addr(r) },
                _ => Def::Store { address: addr(r), value: if r.chance(1, 2) { anyreg(r) } else { value(r) } },
            })
            .collect()
    }
    fn cond(&mut self, r: &mut Rng, _ctx: &BlkCtx) -> Expression {
        if r.chance(1, 4) { Expression::Var(var("ZF", 1)) } else { cmp(r) }
    }
    fn ind_target(&mut self, r: &mut Rng, _ctx: &BlkCtx) -> Expression {
        anyreg(r)
    }
    fn ret_expr(&mut self, r: &mut Rng, _ctx: &BlkCtx) -> Expression {
        anyreg(r)
    }
}

fn externs_c14(r: &mut Rng, two: bool) -> Vec<ExternSymbol> {
    let pool: Vec<ExternSymbol> = vec![
        mk_extern("ext0", vec![], vec![reg_arg("RAX")], false, None),
        mk_extern("ext1", vec![reg_arg("RDI")], vec![reg_arg("RAX")], false, None),
        mk_extern("ext2", vec![reg_arg("RSI"), reg_arg("RDX")], vec![], false, None),
        mk_extern("ext3", vec![reg_arg("RDI"), reg_arg("RSI"), reg_arg("RCX")], vec![reg_arg("RAX")], false, None),
        mk_extern("extstk", vec![Arg::Stack { address: sp_off(8), size: ByteSize::new(8), data_type: None }, reg_arg("R8")], vec![], false, None),
        mk_extern("die", vec![reg_arg("RDI")], vec![], true, None),
        mk_extern("memcpy", vec![reg_arg("RDI"), reg_arg("RSI"), reg_arg("RDX")], vec![reg_arg("RAX")], false, None),
        mk_extern("malloc", vec![reg_arg("RDI")], vec![reg_arg("RAX")], false, None),
    ];
    let mut v: Vec<ExternSymbol> = pool.into_iter().filter(|_| r.chance(3, 5)).collect();
    if two && r.chance(2, 3) {
        v.push(mk_extern("extalt", vec![reg_arg("RCX"), reg_arg("RBX")], vec![reg_arg("RAX")], false, Some("__fastalt")));
    }
    v
}

fn knobs(two: bool) -> Knobs {
    Knobs {
        subs: (1, 3), blocks: (1, 5), w_branch: 16, w_cbranch: 26, w_cbranch_ret: 8, w_return: 16, w_ext_call: 22, w_int_call: 18,
        w_callind: 5, w_branchind: 4, w_nojump: 1, w_callother: 1, w_single_cbranch: 1, p_no_ret: 8, p_empty_sub: 3, p_forward: 65, p_chain: 0, p_cbranch_ind: (1, 8), min_hints: 0, p_cond_call: (0, 1), shuffle_blocks: false,
        sub_cconvs: if two { vec!["".to_string(), "__fastalt".to_string()] } else { vec!["".to_string()] },
    }
}

pub fn exec(project: &Project) -> Value {
    let (reported, panic) = match run_fn_sigs(project) {
        Ok(sigs) => (sigs.into_iter().map(|(f, regs)| json!({"f": f, "regs": regs})).collect::<Vec<_>>(), String::new()),
        Err(p) => (vec![], p.lines().next().unwrap_or("").to_string()),
    };
    json!({"ev": "c14", "project": irenc::project(project), "reported": reported, "panic": panic})
}

pub fn gen(out: &mut Out, _sub: &str) {
    let mut rng = Rng::new(out.seed ^ 0xC14);
    let n = out.size(300, 12_000);
    let seeds: Vec<Rng> = (0..n).map(|_| rng.fork()).collect();
    let evs = crate::par::map(seeds, 4, |mut r| {
        let two = r.chance(1, 2);
        let externs = externs_c14(&mut r, two);
        let program = gen_program(&mut r, &knobs(two), &externs, &mut ParamHooks);
        let project = mk_project(program, if two { vec![cconv_std(), cconv_alt()] } else { vec![cconv_std()] });
        exec(&project)
    });
    let mut total_params = 0u64;
    for ev in evs {
        let rep = ev["reported"].as_array().unwrap();
        let nparams: usize = rep.iter().map(|x| x["regs"].as_array().unwrap().len()).sum();
        total_params += nparams as u64;
        // non-trivial: some function has a reported register parameter and some convention
        // parameter register of some function is NOT reported
        let nontrivial = nparams >= 1 && rep.iter().any(|x| x["regs"].as_array().unwrap().len() < 3);
        out.emit(vec![ev], nontrivial);
    }
    out.extra.insert("reported_register_parameters".into(), json!(total_params));
}

pub fn replay(run: &[Value], _sub: &str) -> Vec<Value> {
    run.iter().map(|e| exec(&dec::project(&e["project"]))).collect()
}
