//! C08: not built yet.
use crate::out::Out;
use serde_json::Value;

pub fn gen(_out: &mut Out, _sub: &str) {}

pub fn replay(_run: &[Value], _sub: &str) -> Vec<Value> {
    Vec::new()
}
