//! C08: `analysis::graph::get_program_cfg` / `get_entry_nodes_of_subs` on well-formed normalised
//! programs.  One event per program: the program, the node and edge lists of the built graph and the
//! entry-node map.  spec/trace/T_C08.tla compares them (as bags) with spec/Cfg.tla.
use crate::cfgenc;
use crate::irenc;
use crate::irgen::{self, Knobs, RawKnobs};
use crate::out::{catch, Out};
use crate::rng::Rng;
use cwe_checker_lib::analysis::graph::get_program_cfg;
use cwe_checker_lib::intermediate_representation::*;
use serde_json::{json, Value};
use std::collections::BTreeMap;

/// Run the real code on one program and record the event.
pub fn exec(prog: &Term<Program>, origin: &str) -> Value {
    let p2 = prog.clone();
    let res = catch(move || {
        let g = get_program_cfg(&p2);
        cfgenc::graph(&g)
    });
    let (nodes, edges, entries, panic) = match res {
        Ok((n, e, en)) => (n, e, en, String::new()),
        Err(msg) => (json!([]), json!([]), json!([]), msg),
    };
    json!({"ev": "cfg", "origin": origin, "program": irenc::program(&prog.term),
           "nodes": nodes, "edges": edges, "entries": entries, "panic": panic,
           "serde": irgen::program_to_string(prog)})
}

/// feature tag (counted only): the graph has call/return linkage and a jump with an untaken
/// conditional
fn nontrivial(ev: &Value) -> bool {
    let has_cr = ev["nodes"].as_array().unwrap().iter().any(|n| n["k"] == "CallReturn");
    let has_untaken = ev["edges"].as_array().unwrap().iter().any(|e| e["k"] == "Jump" && e["untaken"] != "");
    has_cr && has_untaken
}

fn push(out: &mut Out, prog: &Term<Program>, origin: &str) {
    let ev = exec(prog, origin);
    let nt = nontrivial(&ev);
    out.emit(vec![ev], nt);
}

pub fn replay(run: &[Value], _sub: &str) -> Vec<Value> {
    run.iter()
        .map(|e| {
            let prog = irgen::program_from_string(e["serde"].as_str().unwrap());
            exec(&prog, e["origin"].as_str().unwrap_or("replay"))
        })
        .collect()
}

// ---- exhaustive small programs -------------------------------------------------------------
const N_SHAPES: usize = 12;
fn enum_block(i: usize, b: usize, nb: usize, n_subs: usize, shape: usize, ext: &Tid) -> Term<Blk> {
    let me = irgen::blk_tid(i, b);
    let other = irgen::blk_tid(i, if nb > 1 { 1 - b } else { b });
    let other_sub = irgen::sub_tid(if n_subs > 1 { 1 - i } else { i });
    let a = format!("{:08x}", 0x1000 * (i as u64 + 1) + 0x10 * b as u64);
    let j = |n: usize, t: Jmp| Term { tid: irgen::tid(&format!("instr_{}_{}", a, n), &a), term: t };
    let cond = irgen::var_expr("ZF");
    let mut hints = vec![];
    let jmps = match shape {
        0 => vec![],
        1 => vec![j(0, Jmp::Return(irgen::var_expr("RAX")))],
        2 => vec![j(0, Jmp::Branch(other.clone()))],
        3 => vec![j(0, Jmp::CBranch { target: me.clone(), condition: cond }), j(1, Jmp::Branch(other.clone()))],
        4 => {
            hints = vec![me.clone(), other.clone()];
            vec![j(0, Jmp::CBranch { target: other.clone(), condition: cond }), j(1, Jmp::BranchInd(irgen::var_expr("RAX")))]
        }
        5 => vec![j(0, Jmp::Call { target: other_sub, return_: Some(other.clone()) })],
        6 => vec![j(0, Jmp::Call { target: irgen::sub_tid(i), return_: None })],
        7 => vec![j(0, Jmp::Call { target: ext.clone(), return_: Some(other.clone()) })],
        8 => vec![j(0, Jmp::CallInd { target: irgen::var_expr("RAX"), return_: Some(me.clone()) })],
        9 => vec![j(0, Jmp::CBranch { target: other.clone(), condition: cond }), j(1, Jmp::Return(irgen::var_expr("RAX")))],
        // conditionally executed calls: the call is the SECOND jump
        10 => vec![j(0, Jmp::CBranch { target: other.clone(), condition: cond }), j(1, Jmp::Call { target: other_sub, return_: Some(other.clone()) })],
        _ => vec![j(0, Jmp::CBranch { target: me.clone(), condition: cond }), j(1, Jmp::Call { target: ext.clone(), return_: Some(me.clone()) })],
    };
    Term { tid: me, term: Blk { defs: vec![], jmps, indirect_jmp_targets: hints } }
}

/// all programs with <= 2 functions x <= 2 blocks over the 12-shape alphabet
fn enumerate(out: &mut Out) -> u64 {
    let ext = irgen::extern_symbol("puts", 0xf020, &["RDI"], Some("RAX"), false);
    let mut count = 0;
    // layouts: (n1) and (n1, n2) with n1 in 1..=2, n2 in 0..=2
    let mut layouts: Vec<Vec<usize>> = vec![vec![1], vec![2]];
    for n1 in 1..=2 {
        for n2 in 0..=2 {
            layouts.push(vec![n1, n2]);
        }
    }
    for lay in layouts {
        let total: usize = lay.iter().sum();
        let combos = N_SHAPES.pow(total as u32);
        for c in 0..combos {
            let mut digits = c;
            let mut subs = BTreeMap::new();
            for (i, nb) in lay.iter().enumerate() {
                let mut blocks = vec![];
                for b in 0..*nb {
                    blocks.push(enum_block(i, b, *nb, lay.len(), digits % N_SHAPES, &ext.tid));
                    digits /= N_SHAPES;
                }
                let st = irgen::sub_tid(i);
                subs.insert(st.clone(), Term { tid: st, term: Sub { name: format!("f{}", i), blocks, calling_convention: None } });
            }
            let prog = Term {
                tid: irgen::tid("prog_00001000", "00001000"),
                term: Program {
                    subs,
                    extern_symbols: BTreeMap::from([(ext.tid.clone(), ext.clone())]),
                    entry_points: Default::default(),
                    address_base_offset: 0,
                },
            };
            push(out, &prog, "enum");
            count += 1;
        }
    }
    count
}

/// switch on the conditionally executed calls (CBranch + Call / CallInd / CallOther)
fn cond_calls(k: &mut Knobs) {
    k.w_cbranch_call_internal = 6;
    k.w_cbranch_call_extern = 3;
    k.w_cbranch_callind = 2;
    k.w_cbranch_callother = 1;
}

pub fn gen(out: &mut Out, _sub: &str) {
    let mut rng = Rng::new(out.seed ^ 0xC08);
    // (a) well-formed programs straight from the generator: small dense ones and larger ones
    let n_direct = out.size(600, 12000);
    for n in 0..n_direct {
        let mut r = rng.fork();
        let mut k = Knobs::default();
        cond_calls(&mut k);
        match n % 4 {
            0 => { k.max_subs = 2; k.max_blocks = 3; }
            1 => { k.max_subs = 3; k.max_blocks = 4; k.w_call_internal = 30; k.pct_last_returns = 90; }
            2 => { k.max_subs = 5; k.max_blocks = 6; }
            _ => { k.max_subs = 4; k.max_blocks = 4; k.w_branchind = 12; k.w_cbranch_branchind = 10; k.w_cbranch_branch = 14; }
        }
        let prog = irgen::gen_program(&mut r, &k);
        push(out, &prog, "wf");
    }
    // (b) outputs of normalize_basic on raw programs (duplicated shared blocks, artificial sinks)
    let n_norm = out.size(400, 8000);
    for n in 0..n_norm {
        let mut r = rng.fork();
        let mut k = Knobs::default();
        cond_calls(&mut k);
        if n % 2 == 0 { k.max_subs = 3; k.max_blocks = 4; }
        let raw = irgen::gen_raw_program(&mut r, &k, &RawKnobs::default());
        let mut project = irgen::project_of(raw);
        if catch(std::panic::AssertUnwindSafe(|| { let _ = project.normalize_basic(); })).is_err() {
            continue; // a panic of normalize_basic is C09's business
        }
        push(out, &project.program, "norm");
    }
    // (c) exhaustive small programs (thorough)
    if !out.quick() {
        let n = enumerate(out);
        out.extra.insert("enumerated_small_programs".into(), json!(n));
    }
    out.extra.insert("direct_programs".into(), json!(n_direct));
    out.extra.insert("normalized_programs".into(), json!(n_norm));
}
