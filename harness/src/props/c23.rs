//! C23: results do not depend on hashing or scheduling nondeterminism.
//! One case = one generated input analysed N times in fresh processes (fresh hash seeds).
use crate::cli;
use crate::out::Out;
use crate::pcodegen::Knobs;
use crate::props::c21;
use crate::rng::Rng;
use serde_json::{json, Value};

fn knobs(rng: &mut Rng) -> Knobs {
    Knobs { n_funcs: 2 + rng.below(5) as usize, max_blocks: 6 + rng.below(8) as usize, must_call: c21::TRIGGERS.to_vec(), lkm: false, lost_roots: rng.chance(1, 2) }
}

pub fn exec_case(reset: &Value) -> Vec<Value> {
    let seed = reset["gen_seed"].as_u64().unwrap();
    let dir = reset["dir"].as_str().unwrap().to_string();
    let id = reset["id"].as_str().unwrap().to_string();
    let runs = reset["runs"].as_u64().unwrap();
    let mut rng = Rng::new(seed);
    let kn = knobs(&mut rng);
    let (pj, bp) = cli::materialize(&dir, &id, &mut rng, &kn, "exec");
    let all = cli::ALL_MODULES.join(",");
    // Search heuristic only (never a verdict): print the optimised IR (`--debug ir-opt`, exits before any analysis) in a few
    // fresh processes.  An input whose intermediate IR already depends on the hash seed is where an order dependence can
    // reach the warnings, so it gets `boost` times as many full runs; the property is still judged on the warning output.
    let probes = reset["ir_probes"].as_u64().unwrap_or(0);
    let mut ir_digests: Vec<u64> = Vec::new();
    for _ in 0..probes {
        let args: Vec<String> = vec!["--pcode-raw".into(), pj.clone(), "--config".into(), cli::config_path(false), "--debug".into(), "ir-opt".into(), bp.clone()];
        let run = cli::run_cli(&args, 60);
        ir_digests.push(cli::fxhash(&run.stdout));
    }
    ir_digests.sort_unstable();
    ir_digests.dedup();
    let ir_unstable = ir_digests.len() > 1;
    let runs = if ir_unstable { runs * reset["boost"].as_u64().unwrap_or(1) } else { runs };
    let mut evs = vec![json!({"ev": "reset", "gen_seed": seed, "dir": dir, "id": id, "runs": reset["runs"], "ir_probes": probes,
                              "boost": reset["boost"], "ir_distinct": ir_digests.len(), "runs_done": runs})];
    for r in 0..runs {
        // odd runs give the checks in reverse order: check ordering must not matter either
        let sel = if r % 2 == 0 { all.clone() } else { cli::ALL_MODULES.iter().rev().cloned().collect::<Vec<_>>().join(",") };
        let mut e = cli::invoke(&pj, &bp, false, Some(&sel), 180);
        e["run"] = json!(r);
        evs.push(e);
    }
    evs
}

pub fn replay(run: &[Value], _sub: &str) -> Vec<Value> {
    match run.iter().find(|e| e["ev"] == "reset") {
        Some(r) => exec_case(r),
        None => Vec::new(),
    }
}

pub fn gen(out: &mut Out, _sub: &str) {
    let mut rng = Rng::new(out.seed ^ 0xC23);
    let n = out.size(160, 1200);
    let runs = out.size(8, 16);
    let dir = std::env::var("VERIF_SCRATCH").unwrap_or_else(|_| "/verif/.build/cli_inputs".to_string());
    let inputs: Vec<Value> = (0..n).map(|i| json!({"ev": "reset", "gen_seed": rng.next(), "dir": dir, "id": format!("c23_{}", i), "runs": runs, "ir_probes": 6, "boost": 8})).collect();
    let cases = crate::par::map(inputs, 8, |inp| exec_case(&inp));
    for evs in cases {
        let nt = evs.len() > 1 && evs[1]["warnings"].as_array().map(|a| a.len() >= 4).unwrap_or(false);
        out.emit(evs, nt);
    }
}
