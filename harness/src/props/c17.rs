//! C17: reachability-based checkers CWE367 (TOCTOU) and CWE243 (chroot) follow their path
//! specification.  One case = (random program, checker, configuration) -> warnings | panic of the
//! real `check_cwe`.  TLC computes the expected sites from spec/Checkers.tla + spec/Cfg.tla.
use crate::irenc;
use crate::out::Out;
use crate::props::c16::PlainHooks;
use crate::rng::Rng;
use crate::walkgen::*;
use crate::walkrun::{run_checker, warning, Needs};
use cwe_checker_lib::intermediate_representation::*;
use serde_json::{json, Value};


fn knobs() -> Knobs {
    Knobs { subs: (1, 3), blocks: (2, 6), w_ext_call: 55, w_int_call: 12, w_branch: 10, w_cbranch: 14, w_return: 8, w_callind: 3,
            p_no_ret: 12, p_forward: 55,
            // listing order of a function's non-entry blocks is independent of the execution order
            shuffle_blocks: true, ..Knobs::default() }
}

/// the configuration handed to the real checker for an event configuration
fn real_config(checker: &str, config: &Value) -> Value {
    match checker {
        "CWE367" => json!({"pairs": config["pairs"]}),
        _ => json!({"priviledge_dropping_functions": config["symbols"]}),
    }
}

/// mechanical feature tag used only to key the known finding: a chroot call without return site
/// in a program that imports chdir
fn chroot_without_return_site(project: &Project) -> bool {
    let p = &project.program.term;
    let chroot: Vec<&Tid> = p.extern_symbols.values().filter(|e| e.name == "chroot").map(|e| &e.tid).collect();
    let chdir = p.extern_symbols.values().any(|e| e.name == "chdir");
    chdir && p.subs.values().flat_map(|s| s.term.blocks.iter()).flat_map(|b| b.term.jmps.iter()).any(|j| match &j.term {
        Jmp::Call { target, return_: None } => chroot.contains(&target),
        _ => false,
    })
}

pub fn exec(checker: &str, project: &Project, config: &Value) -> Value {
    let r = run_checker(project, checker, &real_config(checker, config), Needs::Nothing);
    let (warnings, panic) = match r {
        Ok(w) => (w.iter().map(warning).collect::<Vec<_>>(), String::new()),
        Err(p) => (vec![], p),
    };
    json!({"ev": "c17", "checker": checker, "config": config, "warnings": warnings, "panic": panic,
           "chroot_noret": checker == "CWE243" && chroot_without_return_site(project)})
}

/// extern table biased towards the symbols the two checkers look at
fn externs_c17(r: &mut Rng) -> Vec<ExternSymbol> {
    let mut v = Vec::new();
    for (name, pct) in [("access", 90u64), ("open", 85), ("stat", 40), ("chroot", 85), ("chdir", 65), ("setuid", 50), ("setgid", 35), ("setresuid", 25), ("puts", 60), ("fopen", 30)] {
        if r.chance(pct, 100) {
            let np = r.below(3) as usize;
            v.push(mk_extern(name, ["RDI", "RSI", "RDX"][..np].iter().map(|x| reg_arg(x)).collect(), vec![reg_arg("RAX")], false, None));
        }
    }
    if r.chance(1, 3) {
        v.push(mk_extern("exit", vec![reg_arg("RDI")], vec![], true, None));
    }
    v
}

pub fn gen(out: &mut Out, _sub: &str) {
    let mut rng = Rng::new(out.seed ^ 0xC17);
    let n = out.size(500, 12_000);
    for _ in 0..n {
        let mut r = rng.fork();
        let externs = externs_c17(&mut r);
        let mut k = knobs();
        let mut weights: &'static [(&'static str, u64)] = &[("access", 14), ("open", 12), ("chroot", 10), ("chdir", 7), ("setuid", 7), ("stat", 4)];
        let mode = r.below(5);
        match mode {
            0 => {
                k.subs = (1, 1);
                k.blocks = (3, 8);
            }
            3 => {
                // chroot jails: functions calling chroot, chdir and privilege-dropping functions in every
                // execution AND listing order
                weights = &[("chroot", 16), ("chdir", 14), ("setuid", 12), ("setgid", 6), ("access", 3), ("open", 3)];
                k.subs = (1, 2);
                k.blocks = (4, 8);
                k.w_ext_call = 70;
                k.w_int_call = 6;
                k.p_no_ret = 6;
            }
            1 | 2 => {
                weights = &[("access", 20), ("open", 20), ("chroot", 12), ("chdir", 12), ("setuid", 8)];
                // straight-line chains: source call, internal calls (to returning and non-returning
                // functions), further source calls and the sink call follow each other
                k.p_chain = 75;
                k.w_int_call = 26;
                k.w_ext_call = 60;
                k.w_cbranch = 8;
                k.w_branch = 5;
                k.w_return = 16;
                k.subs = (2, 3);
                k.blocks = (2, 7);
            }
            _ => {}
        }
        let program = gen_program(&mut r, &k, &externs, &mut PlainHooks(weights));
        let project = mk_project(program, vec![cconv_std()]);
        let pj = irenc::project(&project);
        // CWE367: the default pair plus random further pairs (check != use, names may be absent)
        let mut pairs: Vec<Vec<String>> = Vec::new();
        if r.chance(5, 6) {
            pairs.push(vec!["access".to_string(), "open".to_string()]);
        }
        for _ in 0..r.below(3) {
            let a = pick_str(&mut r, &["access", "stat", "open", "puts", "lstat"]).to_string();
            let b = pick_str(&mut r, &["open", "fopen", "access", "chdir", "unlink"]).to_string();
            if a != b && !pairs.iter().any(|p| p[0] == a && p[1] == b) {
                pairs.push(vec![a, b]);
            }
        }
        let c367 = json!({"symbols": [], "pairs": pairs});
        // CWE243: privilege-dropping functions
        let mut privs: Vec<String> = Vec::new();
        for (name, pct) in [("setuid", 75u64), ("setgid", 50), ("setresuid", 50), ("seteuid", 50)] {
            if r.chance(if mode == 3 && name == "setuid" { 95 } else { pct }, 100) {
                privs.push(name.to_string());
            }
        }
        let c243 = json!({"symbols": privs, "pairs": []});
        let mut evs: Vec<Value> = vec![json!({"ev": "reset", "project": pj})];
        evs.extend([("CWE367", c367), ("CWE243", c243)].iter().map(|(checker, cfg)| exec(checker, &project, cfg)));
        // non-trivial: some warning is reported although the program has at least two calls to watched symbols
        let nontrivial = evs[1..].iter().any(|ev| ev["warnings"].as_array().map(|w| !w.is_empty()).unwrap_or(false));
        out.emit(evs, nontrivial);
    }
}

/// A case is `[reset{project}, CWE367 event, CWE243 event]`; re-executes the checker events on the real code.
pub fn replay(run: &[Value], _sub: &str) -> Vec<Value> {
    let project = dec::project(&run[0]["project"]);
    let mut evs = vec![json!({"ev": "reset", "project": irenc::project(&project)})];
    evs.extend(run[1..].iter().map(|e| exec(e["checker"].as_str().unwrap(), &project, &e["config"])));
    evs
}
