//! C15: the NULL-dereference check (cwe_476) flags exactly the unchecked flows of the return value
//! of configured allocation functions, for programs in which that value flows only through
//! registers.  One case = random project -> the source calls the real `cwe_476::check_cwe` reports
//! (function signatures and pointer inference are computed first, as in the pipeline).
//! TLC decides with spec/TaintWalk.tla.
//!
//! Generator class ("flows only through registers"): registers are split into a MAY-TAINT pool
//! (return registers of the sources and everything computed from them) and a NEVER-TAINT pool
//! (only ever assigned from never-taint registers and constants); stores store never-taint
//! expressions only (their ADDRESS may be tainted: that is a sink).  The stack pointer is never
//! assigned and belongs to neither pool.
use crate::irenc;
use crate::out::Out;
use crate::rng::Rng;
use crate::walkgen::*;
use crate::walkrun::{run_checker_staged, Needs};
use cwe_checker_lib::intermediate_representation::*;
use serde_json::{json, Value};

const MT: [&str; 6] = ["RAX", "RDX", "RBX", "RCX", "RDI", "R12"];
const NT: [&str; 6] = ["RSI", "R8", "R9", "R13", "RBP", "R10"];

fn any8(r: &mut Rng) -> Expression {
    if r.chance(3, 5) { evar(pick_str(r, &MT)) } else { evar(pick_str(r, &NT)) }
}
fn nt_expr(r: &mut Rng) -> Expression {
    match r.below(4) {
        0 => econst(r.range(0, 64)),
        1 => evar(pick_str(r, &NT)),
        2 => ebin(BinOpType::IntAdd, evar(pick_str(r, &NT)), econst(r.range(1, 32))),
        _ => ebin(BinOpType::IntXOr, evar(pick_str(r, &NT)), evar(pick_str(r, &NT))),
    }
}
fn any_expr(r: &mut Rng) -> Expression {
    match r.below(6) {
        0 => econst(r.range(0, 64)),
        1 | 2 => any8(r),
        3 => ebin(BinOpType::IntAdd, any8(r), econst(r.range(1, 32))),
        4 => ebin(BinOpType::IntAdd, any8(r), any8(r)),
        _ => ebin(BinOpType::IntAnd, any8(r), econst(0xfff8)),
    }
}
fn addr_expr(r: &mut Rng) -> Expression {
    match r.below(5) {
        0 => sp_off(-8 * r.range(1, 4)),
        1 | 2 => any8(r),
        _ => ebin(BinOpType::IntAdd, any8(r), econst(8 * r.range(0, 4))),
    }
}
fn cmp(r: &mut Rng) -> Expression {
    let op = *r.pick(&[BinOpType::IntEqual, BinOpType::IntNotEqual, BinOpType::IntLess, BinOpType::IntSLess]);
    let rhs = if r.chance(2, 3) { econst(0) } else { any8(r) };
    // the return register of the sources is tested more often than the others (NULL checks)
    let lhs = if r.chance(1, 2) { evar("RAX") } else { any8(r) };
    ebin(op, lhs, rhs)
}

pub struct TaintHooks;
impl Hooks for TaintHooks {
    fn defs(&mut self, r: &mut Rng, _ctx: &BlkCtx) -> Vec<Def> {
        let n = r.below(5);
        (0..n)
            .map(|_| match r.below(11) {
                0..=3 => Def::Assign { var: reg(pick_str(r, &MT)), value: any_expr(r) },
                4 => Def::Assign { var: reg(pick_str(r, &NT)), value: nt_expr(r) },
                5 => Def::Assign { var: var("ZF", 1), value: cmp(r) },
                // a load that overwrites its own address register (`RAX := Load [RAX+8]`): after it the
                // pointer may be tainted nowhere else, the dereference is a sink all the same
                10 => {
                    let x = if r.chance(2, 3) { "RAX" } else { pick_str(r, &MT) };
                    Def::Load { var: reg(x), address: if r.chance(1, 2) { evar(x) } else { ebin(BinOpType::IntAdd, evar(x), econst(8 * r.range(1, 4))) } }
                }
                6 | 7 => Def::Load { var: reg(if r.chance(2, 3) { pick_str(r, &MT) } else { pick_str(r, &NT) }), address: addr_expr(r) },
                _ => Def::Store { address: addr_expr(r), value: nt_expr(r) },
            })
            .collect()
    }
    fn cond(&mut self, r: &mut Rng, _ctx: &BlkCtx) -> Expression {
        // half of the conditions are NULL checks of the sources' return register
        // a constant condition (opaque predicate / folded comparison): one successor stays reachable in the control flow
        // graph - the property's path notion - although the pointer inference never visits it
        if r.chance(1, 10) {
            return Expression::Const(crate::enc::bv_i64(r.range(0, 1), 1));
        }
        match r.below(6) {
            0 | 1 | 2 => ebin(if r.chance(1, 2) { BinOpType::IntEqual } else { BinOpType::IntNotEqual }, evar("RAX"), econst(0)),
            3 => Expression::Var(var("ZF", 1)),
            _ => cmp(r),
        }
    }
    fn pick_extern(&mut self, r: &mut Rng, _ctx: &BlkCtx, externs: &[ExternSymbol]) -> usize {
        // sources (the first entries of the table) are called more often
        if r.chance(1, 2) { r.below(externs.len().min(3) as u64) as usize } else { r.below(externs.len() as u64) as usize }
    }
}

fn externs_c15(r: &mut Rng, two_cconvs: bool) -> Vec<ExternSymbol> {
    let sub32 = |name: &str| Arg::Register {
        expr: Expression::Subpiece { low_byte: ByteSize::new(0), size: ByteSize::new(4), arg: Box::new(evar(name)) },
        data_type: None,
    };
    let mut v = vec![
        mk_extern("malloc", vec![reg_arg("RDI")], vec![reg_arg("RAX")], false, None),
        mk_extern("calloc", vec![reg_arg("RDI"), reg_arg("RSI")], vec![reg_arg("RAX")], false, None),
    ];
    if r.chance(1, 2) {
        v.push(mk_extern("twin", vec![], vec![reg_arg("RAX"), reg_arg("RDX")], false, None));
    }
    if two_cconvs && r.chance(1, 2) {
        v.push(mk_extern("getenv", vec![reg_arg("RCX")], vec![reg_arg("RAX")], false, Some("__fastalt")));
    }
    let pool: Vec<ExternSymbol> = vec![
        mk_extern("free", vec![reg_arg("RDI")], vec![], false, None),
        mk_extern("puts", vec![reg_arg("RSI")], vec![reg_arg("RAX")], false, None),
        mk_extern("nop", vec![], vec![], false, None),
        mk_extern("use3", vec![reg_arg("RDI"), reg_arg("RSI"), reg_arg("RDX")], vec![reg_arg("RAX")], false, None),
        mk_extern("use32", vec![sub32("RDX")], vec![reg_arg("RAX")], false, None),
        mk_extern("exit", vec![reg_arg("RDI")], vec![], true, None),
        mk_extern("stk", vec![Arg::Stack { address: sp_off(8), size: ByteSize::new(8), data_type: None }, reg_arg("R8")], vec![], false, None),
    ];
    for e in pool {
        if r.chance(3, 5) {
            v.push(e);
        }
    }
    if two_cconvs && r.chance(1, 2) {
        v.push(mk_extern("altuse", vec![reg_arg("RCX"), reg_arg("RBX")], vec![reg_arg("RAX")], false, Some("__fastalt")));
    }
    v
}

fn knobs(two_cconvs: bool) -> Knobs {
    Knobs {
        subs: (1, 3), blocks: (2, 6), w_branch: 14, w_cbranch: 30, w_cbranch_ret: 6, w_return: 12, w_ext_call: 40, w_int_call: 10,
        w_callind: 5, w_branchind: 3, w_nojump: 1, w_callother: 1, w_single_cbranch: 1, p_no_ret: 8, p_empty_sub: 3, p_forward: 60, p_chain: 0,
        // NULL checks whose fall-through is an indirect jump with listed targets
        p_cbranch_ind: (1, 2), min_hints: 1, p_cond_call: (0, 1), shuffle_blocks: false,
        sub_cconvs: if two_cconvs { vec!["".to_string(), "__fastalt".to_string(), "__stdcall".to_string()] } else { vec!["".to_string()] },
    }
}

pub fn exec(project: &Project, symbols: &Value) -> Value {
    let r = run_checker_staged(project, "CWE476", &json!({"symbols": symbols}), Needs::PointerInference);
    let (reported, stage, panic) = match r {
        Ok(ws) => (ws.iter().map(|w| json!(w.tids.first().cloned().unwrap_or_default())).collect::<Vec<_>>(), "", String::new()),
        Err((stage, p)) => (vec![], stage, p.lines().next().unwrap_or("").to_string()),
    };
    // stage: where a panic happened ("" none; "fnsig"/"pi": a prerequisite analysis crashed and the check never ran)
    json!({"ev": "c15", "project": irenc::project(project), "symbols": symbols, "reported": reported, "stage": stage, "panic": panic})
}

pub fn gen(out: &mut Out, _sub: &str) {
    let mut rng = Rng::new(out.seed ^ 0xC15);
    let n = out.size(500, 10_000);
    let seeds: Vec<Rng> = (0..n).map(|_| rng.fork()).collect();
    let evs = crate::par::map(seeds, 4, |mut r| {
        let two = r.chance(1, 2);
        let externs = externs_c15(&mut r, two);
        let program = gen_program(&mut r, &knobs(two), &externs, &mut TaintHooks);
        let project = mk_project(program, if two { vec![cconv_std(), cconv_alt()] } else { vec![cconv_std()] });
        let mut symbols: Vec<&str> = Vec::new();
        for s in ["malloc", "calloc", "twin", "getenv", "xmalloc"] {
            if r.chance(3, 4) {
                symbols.push(s);
            }
        }
        let nsrc = project.program.term.subs.values().flat_map(|s| s.term.blocks.iter()).flat_map(|b| b.term.jmps.iter())
            .filter(|j| match &j.term {
                Jmp::Call { target, return_: Some(_) } => project.program.term.extern_symbols.get(target).map(|e| symbols.contains(&e.name.as_str())).unwrap_or(false),
                _ => false,
            }).count();
        (exec(&project, &json!(symbols)), nsrc)
    });
    let (mut sources, mut reported, mut prereq_panics) = (0u64, 0u64, 0u64);
    for (ev, nsrc) in evs {
        let nrep = ev["reported"].as_array().unwrap().len();
        sources += nsrc as u64;
        if ev["stage"] == "fnsig" || ev["stage"] == "pi" {
            prereq_panics += 1;
        }
        reported += nrep as u64;
        // non-trivial: the program has source calls of which some but not all are reported, or >= 2 are reported
        let nontrivial = nsrc >= 1 && nrep >= 1;
        out.emit(vec![ev], nontrivial);
    }
    out.extra.insert("source_calls".into(), json!(sources));
    out.extra.insert("prerequisite_analysis_panics".into(), json!(prereq_panics));
    out.extra.insert("reported_source_calls".into(), json!(reported));
}

pub fn replay(run: &[Value], _sub: &str) -> Vec<Value> {
    run.iter().map(|e| exec(&dec::project(&e["project"]), &e["symbols"])).collect()
}
