//! C06: string abstractions over-approximate the strings they describe.
//! Records calls of the real `BricksDomain::{normalize, widen, merge, append_string_domain}` and
//! `CharacterInclusionDomain::{merge, append_string_domain}`; one event per call:
//!   {ev:"op", dom:"bricks"|"ci", op, x, y, r, panic}
//! Wire format (spec/Bricks.tla, spec/CharIncl.tla):
//!   bricks value {top, bricks:[brick]}, brick {top, seq:[[code points]], min, max, inf, mins, maxs}
//!     min/max are clamped to 2^20 (TLC integers are 32 bit), inf = (max == u32::MAX, the widening
//!     sentinel); mins/maxs carry the exact numbers as decimal strings (for replay only).
//!   ci value {top, c:cset, p:cset}, cset {top, s:[code points]}
//! Values are built through the public API (`BrickDomain::new` + the public setters of the brick), and
//! projected through the public getters; no serde representation of the code under test is involved.
//! All calls run in guarded worker processes (crate::guard): `normalize` may not return.
use crate::guard;
use crate::out::{catch, Out};
use crate::rng::Rng;
use cwe_checker_lib::abstract_domain::{
    AbstractDomain, BrickDomain, BricksDomain, CharacterInclusionDomain, CharacterSet, DomainInsertion,
};
use serde_json::{json, Value};
use std::collections::BTreeSet;

const CAP: u32 = 1 << 20;
/// CPU time after which a call is considered not to return (normal calls need well below 1 ms).
const CPU_LIMIT_MS: u64 = 300;
const WORKER: &str = "C06:worker";

// ------------------------------------------------------------------------------------------------
// projections
// ------------------------------------------------------------------------------------------------
fn cps(s: &str) -> Value {
    Value::Array(s.chars().map(|c| json!(c as u32)).collect())
}
fn str_of(v: &Value) -> String {
    v.as_array().unwrap().iter().map(|c| char::from_u32(c.as_u64().unwrap() as u32).unwrap()).collect()
}

fn brick_json(seq: &BTreeSet<String>, min: u32, max: u32) -> Value {
    json!({"top": false, "seq": seq.iter().map(|s| cps(s)).collect::<Vec<_>>(),
           "min": min.min(CAP), "max": max.min(CAP), "inf": max == u32::MAX,
           "mins": min.to_string(), "maxs": max.to_string()})
}
fn top_brick_json() -> Value {
    json!({"top": true, "seq": [], "min": 0, "max": 0, "inf": false, "mins": "0", "maxs": "0"})
}
fn brick_to_json(b: &BrickDomain) -> Value {
    match b {
        BrickDomain::Top => top_brick_json(),
        BrickDomain::Value(brick) => brick_json(brick.get_sequence(), brick.get_min(), brick.get_max()),
    }
}
fn bricks_to_json(d: &BricksDomain) -> Value {
    match d {
        BricksDomain::Top => json!({"top": true, "bricks": []}),
        BricksDomain::Value(bs) => json!({"top": false, "bricks": bs.iter().map(brick_to_json).collect::<Vec<_>>()}),
    }
}
fn brick_from_json(v: &Value) -> BrickDomain {
    if v["top"].as_bool().unwrap() {
        return BrickDomain::Top;
    }
    let mut b = BrickDomain::new(String::new());
    if let BrickDomain::Value(ref mut brick) = b {
        brick.set_sequence(v["seq"].as_array().unwrap().iter().map(str_of).collect());
        brick.set_min(v["mins"].as_str().unwrap().parse().unwrap());
        brick.set_max(v["maxs"].as_str().unwrap().parse().unwrap());
    }
    b
}
fn bricks_from_json(v: &Value) -> BricksDomain {
    if v["top"].as_bool().unwrap() {
        BricksDomain::Top
    } else {
        BricksDomain::Value(v["bricks"].as_array().unwrap().iter().map(brick_from_json).collect())
    }
}

fn cs_to_json(c: &CharacterSet) -> Value {
    match c {
        CharacterSet::Top => json!({"top": true, "s": []}),
        CharacterSet::Value(s) => json!({"top": false, "s": s.iter().map(|c| json!(*c as u32)).collect::<Vec<_>>()}),
    }
}
fn cs_from_json(v: &Value) -> CharacterSet {
    if v["top"].as_bool().unwrap() {
        CharacterSet::Top
    } else {
        CharacterSet::Value(v["s"].as_array().unwrap().iter().map(|c| char::from_u32(c.as_u64().unwrap() as u32).unwrap()).collect())
    }
}
fn ci_to_json(d: &CharacterInclusionDomain) -> Value {
    match d {
        CharacterInclusionDomain::Top => json!({"top": true, "c": {"top": false, "s": []}, "p": {"top": true, "s": []}}),
        CharacterInclusionDomain::Value((c, p)) => json!({"top": false, "c": cs_to_json(c), "p": cs_to_json(p)}),
    }
}
fn ci_from_json(v: &Value) -> CharacterInclusionDomain {
    if v["top"].as_bool().unwrap() {
        CharacterInclusionDomain::Top
    } else {
        CharacterInclusionDomain::Value((cs_from_json(&v["c"]), cs_from_json(&v["p"])))
    }
}

// ------------------------------------------------------------------------------------------------
// one call of the real code (runs in the worker process)
// ------------------------------------------------------------------------------------------------
fn event(inp: &Value, r: Value, panic: &str) -> Value {
    json!({"ev": "op", "dom": inp["dom"], "op": inp["op"], "x": inp["x"], "y": inp["y"], "r": r, "panic": panic})
}
fn placeholder(dom: &str) -> Value {
    if dom == "bricks" {
        json!({"top": true, "bricks": []})
    } else {
        ci_to_json(&CharacterInclusionDomain::Top)
    }
}

pub fn exec(inp: &Value) -> Value {
    if let Some(batch) = inp.as_array() {
        // a batch of inputs (used for the character inclusion domain, whose operations are loop free)
        return Value::Array(batch.iter().map(exec).collect());
    }
    let dom = inp["dom"].as_str().unwrap().to_string();
    let op = inp["op"].as_str().unwrap().to_string();
    let res: Result<Value, String> = if dom == "bricks" {
        let x = bricks_from_json(&inp["x"]);
        let y = bricks_from_json(&inp["y"]);
        catch(move || {
            let r = match op.as_str() {
                "normalize" => x.normalize(),
                "widen" => x.widen(&y),
                "merge" => x.merge(&y),
                "append" => x.append_string_domain(&y),
                other => panic!("harness: unknown op {}", other),
            };
            bricks_to_json(&r)
        })
    } else {
        let x = ci_from_json(&inp["x"]);
        let y = ci_from_json(&inp["y"]);
        catch(move || {
            let r = match op.as_str() {
                "merge" => x.merge(&y),
                "append" => x.append_string_domain(&y),
                other => panic!("harness: unknown op {}", other),
            };
            ci_to_json(&r)
        })
    };
    match res {
        Ok(r) => event(inp, r, ""),
        Err(p) => event(inp, placeholder(&dom), &p),
    }
}

/// the event recorded for a call that was abandoned
fn abandoned(inp: &Value, msg: &str) -> Value {
    event(inp, placeholder(inp["dom"].as_str().unwrap()), msg)
}

fn nontrivial(ev: &Value) -> bool {
    // rule: the call returned a value that is not Top and differs from both inputs
    ev["panic"] == "" && ev["r"]["top"] == false && ev["r"] != ev["x"] && ev["r"] != ev["y"]
}

pub fn replay(run: &[Value], _sub: &str) -> Vec<Value> {
    let mut w = guard::Worker::new(WORKER);
    run.iter()
        .map(|e| match w.call(e, CPU_LIMIT_MS * 4) {
            Ok(ev) => ev,
            Err(m) => abandoned(e, &m),
        })
        .collect()
}

// ------------------------------------------------------------------------------------------------
// generators (parent process); they produce wire JSON directly
// ------------------------------------------------------------------------------------------------
#[derive(Clone, PartialEq, Debug)]
struct B {
    top: bool,
    seq: BTreeSet<String>,
    min: u32,
    max: u32,
}
impl B {
    fn json(&self) -> Value {
        if self.top {
            top_brick_json()
        } else {
            brick_json(&self.seq, self.min, self.max)
        }
    }
    fn empty() -> B {
        B { top: false, seq: BTreeSet::new(), min: 0, max: 0 }
    }
}
fn val(bs: &[B]) -> Value {
    json!({"top": false, "bricks": bs.iter().map(|b| b.json()).collect::<Vec<_>>()})
}
fn top_val() -> Value {
    json!({"top": true, "bricks": []})
}
fn no_val() -> Value {
    json!({"top": false, "bricks": []})
}
fn inp(dom: &str, op: &str, x: Value, y: Value) -> Value {
    json!({"dom": dom, "op": op, "x": x, "y": y})
}

const POOL: [&str; 7] = ["", "a", "b", "aa", "ab", "ba", "bb"];
const POOL3: [&str; 6] = ["aab", "aba", "abb", "baa", "bab", "bba"];
const UPOOL: [&str; 4] = ["", "a", "aa", "aaa"];
/// sub-generator "unary": every string is over the one-letter alphabet {a}, so that TLC can afford the
/// length bound 16 (spec/trace/T_C06_unary.cfg) and sees repetition bounds beyond the widening threshold
static UNARY: std::sync::atomic::AtomicBool = std::sync::atomic::AtomicBool::new(false);
fn unary() -> bool {
    UNARY.load(std::sync::atomic::Ordering::Relaxed)
}
fn pool() -> &'static [&'static str] {
    if unary() { &UPOOL } else { &POOL }
}

fn gen_seq(rng: &mut Rng, big: bool) -> BTreeSet<String> {
    let n = if big {
        rng.range(4, 6)
    } else {
        match rng.below(100) {
            0..=2 => 0,
            3..=47 => 1,
            48..=82 => 2,
            _ => 3,
        }
    };
    let mut s = BTreeSet::new();
    let mut guard = 0;
    while (s.len() as i64) < n && guard < 50 {
        guard += 1;
        let e = if unary() {
            *rng.pick(&["", "a", "a", "a", "aa", "aa", "aaa"])
        } else {
            match rng.below(20) {
                0..=1 => "",
                2..=6 => "a",
                7..=10 => "b",
                11..=17 => *rng.pick(&POOL[3..]),
                _ => *rng.pick(&POOL3),
            }
        };
        s.insert(e.to_string());
    }
    s
}

fn gen_bounds(rng: &mut Rng) -> (u32, u32) {
    if unary() {
        return match rng.below(100) {
            0..=19 => (1, 1),
            20..=44 => (0, rng.range(1, 5) as u32),
            45..=52 => {
                let k = rng.range(2, 4) as u32;
                (k, k)
            }
            53..=64 => {
                let m = rng.range(1, 4) as u32;
                (m, rng.range(m as i64 + 1, 6) as u32)
            }
            65..=68 => (0, 0),
            69..=76 => (0, u32::MAX),
            77..=91 => (0, rng.range(6, 12) as u32),
            92..=94 => (rng.range(1, 3) as u32, u32::MAX),
            _ => (rng.range(0, 3) as u32, rng.range(9, 14) as u32),
        };
    }
    match rng.below(100) {
        0..=29 => (1, 1),
        30..=54 => (0, rng.range(1, 3) as u32),
        55..=62 => {
            let k = rng.range(2, 3) as u32;
            (k, k)
        }
        63..=74 => {
            let m = rng.range(1, 2) as u32;
            (m, rng.range(m as i64 + 1, 3) as u32)
        }
        75..=79 => (0, 0),
        80..=87 => (0, u32::MAX),
        88..=94 => (0, rng.range(4, 12) as u32),
        95..=97 => (rng.range(1, 2) as u32, u32::MAX),
        _ => (rng.range(0, 3) as u32, rng.range(9, 12) as u32),
    }
}

fn gen_brick(rng: &mut Rng) -> B {
    match rng.below(100) {
        0..=6 => B { top: true, seq: BTreeSet::new(), min: 0, max: 0 },
        7..=10 => B::empty(),
        _ => {
            let big = rng.chance(1, 25);
            let seq = gen_seq(rng, big);
            let (min, max) = if big { *rng.pick(&[(1, 1), (0, 1), (0, 2)]) } else { gen_bounds(rng) };
            B { top: false, seq, min, max }
        }
    }
}

/// number of strings normalisation can put into one brick: product of |S|^min (bounded so that neither
/// the code under test nor TLC has to handle huge sets)
fn blowup(bs: &[B]) -> f64 {
    bs.iter().filter(|b| !b.top).map(|b| (b.seq.len().max(1) as f64).powi(b.min.min(64) as i32)).product()
}

fn gen_bricks(rng: &mut Rng) -> Vec<B> {
    loop {
        let n = match rng.below(100) {
            0..=2 => 0,
            3..=32 => 1,
            33..=67 => 2,
            68..=87 => 3,
            _ => 4,
        };
        let bs: Vec<B> = (0..n).map(|_| gen_brick(rng)).collect();
        if blowup(&bs) <= 200.0 {
            return bs;
        }
    }
}

/// a value related to `x`, so that the two lists are often comparable in the partial order (otherwise
/// widen / merge answer Top at once)
fn perturb(rng: &mut Rng, x: &[B]) -> Vec<B> {
    let mut y: Vec<B> = x.to_vec();
    let steps = rng.range(1, 3);
    for _ in 0..steps {
        match rng.below(9) {
            0 | 1 => {
                // widen the bounds of a brick
                if let Some(i) = pick_value(rng, &y) {
                    let b = &mut y[i];
                    if b.min > 0 && rng.chance(1, 2) {
                        b.min -= 1;
                    }
                    if b.max != u32::MAX {
                        b.max += match rng.below(6) { 0 => 9, 1 => 2, _ => 1 };
                    }
                }
            }
            2 => {
                // add an element to a brick's set
                if let Some(i) = pick_value(rng, &y) {
                    y[i].seq.insert(rng.pick(pool()).to_string());
                }
            }
            3 => {
                // shrink: fewer repetitions / fewer elements
                if let Some(i) = pick_value(rng, &y) {
                    let b = &mut y[i];
                    if b.max != u32::MAX && b.max > b.min {
                        b.max -= 1;
                    } else if b.seq.len() > 1 {
                        let e = b.seq.iter().next().unwrap().clone();
                        b.seq.remove(&e);
                    }
                }
            }
            4 | 5 => {
                // insert a brick (padding of the shorter list)
                let i = rng.below(y.len() as u64 + 1) as usize;
                if y.len() < 5 {
                    y.insert(i, gen_brick(rng));
                }
            }
            6 => {
                // delete a brick
                if !y.is_empty() {
                    let i = rng.below(y.len() as u64) as usize;
                    y.remove(i);
                }
            }
            7 => {
                // append a literal (the loop body `s = s + "lit"`)
                let lit = rng.pick(&pool()[1..]).to_string();
                y.push(B { top: false, seq: [lit].into_iter().collect(), min: 1, max: 1 });
            }
            _ => {
                // replace by the widening sentinel / Top
                if let Some(i) = pick_value(rng, &y) {
                    if rng.chance(1, 2) {
                        y[i].min = 0;
                        y[i].max = u32::MAX;
                    } else {
                        y[i] = B { top: true, seq: BTreeSet::new(), min: 0, max: 0 };
                    }
                }
            }
        }
    }
    y
}
fn pick_value(rng: &mut Rng, y: &[B]) -> Option<usize> {
    let idx: Vec<usize> = (0..y.len()).filter(|i| !y[*i].top).collect();
    if idx.is_empty() {
        None
    } else {
        Some(*rng.pick(&idx))
    }
}

fn lit(s: &str) -> B {
    B { top: false, seq: [s.to_string()].into_iter().collect(), min: 1, max: 1 }
}
fn mk(seq: &[&str], min: u32, max: u32) -> B {
    B { top: false, seq: seq.iter().map(|s| s.to_string()).collect(), min, max }
}

/// fixed cases: the examples of the repository's unit tests and documentation, boundary shapes
fn fixed_cases() -> Vec<Value> {
    let t = B { top: true, seq: BTreeSet::new(), min: 0, max: 0 };
    let mut v = Vec::new();
    // tests.rs: test_normalize, test_merge_bricks_domain, the rule examples of the documentation
    v.push(inp("bricks", "normalize", val(&[mk(&["a"], 1, 1), mk(&["a", "b"], 2, 3), mk(&["a", "b"], 0, 1)]), no_val()));
    v.push(inp("bricks", "merge", val(&[mk(&["a", "b"], 2, 2)]), val(&[mk(&["a", "b"], 2, 2), mk(&["a", "ab"], 1, 1)])));
    v.push(inp("bricks", "normalize", val(&[mk(&["a", "ab"], 1, 1), mk(&["b", "ba"], 1, 1)]), no_val()));
    v.push(inp("bricks", "normalize", val(&[mk(&["a", "b"], 2, 2)]), no_val()));
    v.push(inp("bricks", "normalize", val(&[mk(&["a"], 2, 5)]), no_val()));
    v.push(inp("bricks", "normalize", val(&[mk(&["a"], 0, 2), mk(&["a"], 0, 3)]), no_val()));
    v.push(inp("bricks", "normalize", val(&[B::empty(), lit("ab"), B::empty()]), no_val()));
    v.push(inp("bricks", "normalize", val(&[]), no_val()));
    v.push(inp("bricks", "normalize", val(&[t.clone(), mk(&["a"], 2, 2), t.clone()]), no_val()));
    v.push(inp("bricks", "normalize", val(&[mk(&["a"], 0, 3), mk(&["a"], 0, 3)]), no_val()));
    v.push(inp("bricks", "normalize", val(&[mk(&["", "a"], 3, 3)]), no_val()));
    v.push(inp("bricks", "normalize", val(&[mk(&["ab"], 0, 0), mk(&["b"], 2, 3)]), no_val()));
    v.push(inp("bricks", "normalize", val(&[mk(&["b"], 0, 2), mk(&["b"], 2, 2)]), no_val()));
    // min = 1 < max, and [S]^{1,1}[S]^{0,M}: rules 4 and 5 undo each other
    v.push(inp("bricks", "normalize", val(&[mk(&["a"], 1, 3)]), no_val()));
    v.push(inp("bricks", "normalize", val(&[mk(&["a"], 1, 1), mk(&["a"], 0, 2)]), no_val()));
    v.push(inp("bricks", "normalize", val(&[mk(&["a"], 0, 2), mk(&["a"], 1, 1)]), no_val()));
    v.push(inp("bricks", "normalize", val(&[lit("b"), mk(&["a"], 1, 3)]), no_val()));
    // the widening sentinel next to a brick with the same set (DESIGN.md section 7)
    v.push(inp("bricks", "normalize", val(&[mk(&["a"], 0, u32::MAX), mk(&["a"], 0, u32::MAX)]), no_val()));
    v.push(inp("bricks", "normalize", val(&[mk(&["a"], 0, u32::MAX), mk(&["a"], 0, 1)]), no_val()));
    v.push(inp("bricks", "normalize", val(&[mk(&["a"], 2, u32::MAX)]), no_val()));
    v.push(inp("bricks", "normalize", val(&[mk(&["a"], 0, u32::MAX), mk(&["b"], 0, u32::MAX)]), no_val()));
    // append: all four Top combinations
    for (x, y) in [(top_val(), top_val()), (top_val(), val(&[lit("ab")])), (val(&[lit("ab")]), top_val()),
                   (val(&[lit("a"), mk(&["b"], 0, 2)]), val(&[mk(&["a", "b"], 1, 2)])), (val(&[]), val(&[lit("b")]))] {
        v.push(inp("bricks", "append", x, y));
    }
    // merge / widen: equal values, Top, padding on either side, thresholds
    v.push(inp("bricks", "merge", top_val(), val(&[lit("a")])));
    v.push(inp("bricks", "merge", val(&[lit("a")]), top_val()));
    v.push(inp("bricks", "merge", val(&[lit("a"), lit("b")]), val(&[lit("a"), lit("b")])));
    v.push(inp("bricks", "merge", val(&[lit("a")]), val(&[lit("b")])));
    v.push(inp("bricks", "merge", val(&[]), val(&[lit("a")])));
    v.push(inp("bricks", "merge", val(&[lit("ab")]), val(&[lit("ab"), lit("b")])));
    v.push(inp("bricks", "merge", val(&[lit("b")]), val(&[lit("ab"), lit("b")])));
    v.push(inp("bricks", "merge", val(&[mk(&["a"], 0, 2)]), val(&[mk(&["a"], 0, 12)])));
    v.push(inp("bricks", "widen", val(&[mk(&["a"], 0, 2)]), val(&[mk(&["a"], 0, 12)])));
    v.push(inp("bricks", "widen", val(&[mk(&["a"], 0, 9), mk(&["a"], 0, 9)]), val(&[mk(&["a"], 0, 0), mk(&["a"], 0, 0)])));
    v.push(inp("bricks", "merge", val(&[mk(&["a"], 0, 9), mk(&["a"], 0, 9)]), val(&[mk(&["a"], 0, 0), mk(&["a"], 0, 0)])));
    v.push(inp("bricks", "merge", val(&[mk(&["a"], 0, 9)]), val(&[mk(&["a"], 0, 9), lit("a")])));
    v.push(inp("bricks", "widen", val(&[mk(&["", "a", "b", "aa", "ab"], 0, 1)]), val(&[mk(&["ba", "bb", "aab", "aba", "abb"], 0, 1)])));
    v.push(inp("bricks", "merge", val(&[mk(&["", "a", "b", "aa", "ab"], 0, 1), lit("a")]), val(&[mk(&["ba", "bb", "aab", "aba", "abb"], 0, 1), lit("b")])));
    v.push(inp("bricks", "widen", val(&[t.clone(), lit("a")]), val(&[t.clone(), lit("b")])));
    v.push(inp("bricks", "widen", val(&[t.clone()]), val(&[t.clone(), t.clone()])));
    // more than LENGTH_THRESHOLD bricks
    let long: Vec<B> = (0..33).map(|i| mk(&[if i % 2 == 0 { "a" } else { "b" }], 0, 1)).collect();
    v.push(inp("bricks", "widen", val(&long), val(&long)));
    v.push(inp("bricks", "merge", val(&long), val(&long[..32])));
    v
}

/// `s = lit0; loop { s = merge(s, append(s, lit)) }`: the fixpoint iteration of a string building
/// loop, every call recorded.  This is how the widening sentinel u32::MAX arises in practice.
fn chain(w: &mut guard::Worker, rng: &mut Rng, events: &mut Vec<Value>, abandoned_calls: &mut u64) {
    let mut s = match rng.below(4) {
        0 => val(&[]),
        1 => val(&[B::empty()]),
        _ => val(&[lit(*rng.pick(&pool()[..4]))]),
    };
    let lits: Vec<&str> = (0..rng.range(1, 2)).map(|_| *rng.pick(&pool()[1..])).collect();
    let iters = if unary() { rng.range(6, 18) } else { rng.range(3, 14) };
    for i in 0..iters {
        let l = lits[i as usize % lits.len()];
        let body = if rng.chance(1, 8) { top_val() } else { val(&[lit(l)]) };
        let mut step = |w: &mut guard::Worker, i: Value| -> Option<Value> {
            let ev = match w.call(&i, CPU_LIMIT_MS) {
                Ok(ev) => ev,
                Err(m) => {
                    *abandoned_calls += 1;
                    abandoned(&i, &m)
                }
            };
            let ok = ev["panic"] == "";
            let r = ev["r"].clone();
            events.push(ev);
            if ok { Some(r) } else { None }
        };
        let appended = match step(w, inp("bricks", "append", s.clone(), body)) {
            Some(r) => r,
            None => return,
        };
        let merged = match step(w, inp("bricks", "merge", s.clone(), appended)) {
            Some(r) => r,
            None => return,
        };
        if merged == s {
            return; // fixpoint
        }
        s = merged;
    }
}

const CI_ALPHABET: [char; 3] = ['a', 'b', 'c'];
/// all CharacterInclusionDomain values over the alphabet whose certain set is a proper set (the
/// certain set of a reachable value is never CharacterSet::Top) -- 8 * 9 + 1 = 73 values
fn ci_values() -> Vec<Value> {
    let subsets: Vec<Value> = (0..8u32)
        .map(|m| json!({"top": false, "s": (0..3).filter(|i| m >> i & 1 == 1).map(|i| json!(CI_ALPHABET[i as usize] as u32)).collect::<Vec<_>>()}))
        .collect();
    let mut v = vec![ci_to_json(&CharacterInclusionDomain::Top)];
    for c in &subsets {
        for p in subsets.iter().chain([json!({"top": true, "s": []})].iter()) {
            v.push(json!({"top": false, "c": c, "p": p}));
        }
    }
    v
}

pub fn gen(out: &mut Out, sub: &str) {
    if sub == "worker" {
        guard::serve(exec);
        return;
    }
    let is_unary = sub == "unary";
    UNARY.store(is_unary, std::sync::atomic::Ordering::Relaxed);
    let mut rng = Rng::new(out.seed ^ if is_unary { 0x1C06 } else { 0xC06 });
    let mut abandoned_calls = 0u64;
    let mut events: Vec<Value> = Vec::new();

    // ---- 1. loop chains (sequential: each input is the previous result) ----------------------
    {
        let mut w = guard::Worker::new(WORKER);
        for _ in 0..(if is_unary { out.size(25, 150) } else { out.size(40, 300) }) {
            chain(&mut w, &mut rng, &mut events, &mut abandoned_calls);
        }
    }
    let chain_events = events.len();

    // ---- 2. independent calls -----------------------------------------------------------------
    let mut inputs = if is_unary { Vec::new() } else { fixed_cases() };
    let n = if is_unary { out.size(150, 1200) } else { out.size(450, 5000) };
    for _ in 0..n {
        // normalize
        inputs.push(inp("bricks", "normalize", val(&gen_bricks(&mut rng)), no_val()));
    }
    for _ in 0..n {
        // merge and widen on related pairs, both orders
        let x = gen_bricks(&mut rng);
        let y = if rng.chance(1, 10) { gen_bricks(&mut rng) } else { perturb(&mut rng, &x) };
        if blowup(&y) > 200.0 {
            continue;
        }
        let (x, y) = if rng.chance(1, 2) { (x, y) } else { (y, x) };
        inputs.push(inp("bricks", "merge", val(&x), val(&y)));
        if rng.chance(1, 2) {
            inputs.push(inp("bricks", "widen", val(&x), val(&y)));
        }
    }
    for _ in 0..n / 3 {
        // append, incl. Top operands
        let x = if rng.chance(1, 8) { top_val() } else { val(&gen_bricks(&mut rng)) };
        let y = if rng.chance(1, 8) { top_val() } else { val(&gen_bricks(&mut rng)) };
        inputs.push(inp("bricks", "append", x, y));
    }
    let (results, ab) = guard::run_all(WORKER, &inputs, 4, CPU_LIMIT_MS);
    abandoned_calls += ab;
    for (i, r) in inputs.iter().zip(results.into_iter()) {
        events.push(match r {
            Ok(ev) => ev,
            Err(m) => abandoned(i, &m),
        });
    }

    // ---- 3. character inclusion: exhaustive over all pairs of values, sent in batches -----------
    let civ = if is_unary { Vec::new() } else { ci_values() };
    let mut ci_inputs = Vec::new();
    // thorough: all pairs; quick: every 4th pair (which quarter depends on the seed)
    let stride: u64 = out.size(4, 1);
    let mut k = out.seed % stride;
    for x in &civ {
        for y in &civ {
            if k % stride == 0 {
                ci_inputs.push(inp("ci", "merge", x.clone(), y.clone()));
                ci_inputs.push(inp("ci", "append", x.clone(), y.clone()));
            }
            k += 1;
        }
    }
    out.extra.insert("ci_values".into(), json!(civ.len()));
    out.extra.insert("ci_pairs".into(), json!(ci_inputs.len() / 2));
    out.extra.insert("ci_exhaustive".into(), json!(stride == 1));
    let batches: Vec<Value> = ci_inputs.chunks(256).map(|c| Value::Array(c.to_vec())).collect();
    let (results, _) = guard::run_all(WORKER, &batches, 4, CPU_LIMIT_MS * 4);
    let mut ci_events: Vec<Value> = Vec::new();
    for (b, r) in batches.iter().zip(results.into_iter()) {
        match r {
            Ok(Value::Array(evs)) => ci_events.extend(evs),
            _ => {
                // the batch was lost (a call did not return or killed the worker): one call at a time
                let mut w = guard::Worker::new(WORKER);
                for i in b.as_array().unwrap() {
                    ci_events.push(match w.call(i, CPU_LIMIT_MS) {
                        Ok(ev) => ev,
                        Err(m) => {
                            abandoned_calls += 1;
                            abandoned(i, &m)
                        }
                    });
                }
            }
        }
    }
    // interleave the two domains in blocks of 16 (a multiple of the shard count) so that every shard
    // -- and the canary prefix -- sees both domains and the shards cost about the same
    // (both lists are shuffled first: the generators alternate operations, which would otherwise lock
    // step with the round-robin sharding)
    rng.shuffle(&mut events);
    rng.shuffle(&mut ci_events);
    let mut ci_iter = ci_events.into_iter();
    let per = 16 * ci_iter.len().div_ceil(events.len().max(1));
    let mut mixed = Vec::new();
    for block in events.chunks(16) {
        mixed.extend(block.iter().cloned());
        for _ in 0..per {
            if let Some(c) = ci_iter.next() {
                mixed.push(c);
            }
        }
    }
    mixed.extend(ci_iter);
    let events = mixed;
    out.extra.insert("chain_events".into(), json!(chain_events));
    out.extra.insert("abandoned_calls".into(), json!(abandoned_calls));
    let mut per: std::collections::BTreeMap<String, u64> = Default::default();
    for ev in events {
        *per.entry(format!("{}.{}", ev["dom"].as_str().unwrap(), ev["op"].as_str().unwrap())).or_default() += 1;
        if ev["panic"] != "" {
            *per.entry("no_result".to_string()).or_default() += 1;
        }
        let nt = nontrivial(&ev);
        out.emit(vec![ev], nt);
    }
    out.extra.insert("events_per_op".into(), json!(per));
}
