//! C21: the analyzer completes on every well-formed input and its output is well-formed.
//! One case = one invocation of the real CLI binary on a generated P-Code project + ELF image.
use crate::cli;
use crate::out::Out;
use crate::pcodegen::Knobs;
use crate::rng::Rng;
use serde_json::{json, Value};

pub const TRIGGERS: [&str; 14] = ["malloc", "free", "printf", "system", "umask", "chroot", "access", "open", "rand", "ioctl", "strcpy", "setuid", "memcpy", "scanf"];

pub fn knobs(rng: &mut Rng, lkm: bool) -> Knobs {
    let mut must = Vec::new();
    for t in TRIGGERS {
        if rng.chance(1, 2) {
            must.push(t);
        }
    }
    Knobs { n_funcs: 1 + rng.below(6) as usize, max_blocks: 3 + rng.below(8) as usize, must_call: must, lkm, lost_roots: false }
}

/// Checks that can run with the shipped lkm_config.json: the kernel-module subset plus the checks that need
/// no configuration section (so that partial runs on kernel modules also name checks OUTSIDE the subset).
pub const LKM_MODULES: [&str; 13] = [
    "CWE119", "CWE134", "CWE190", "CWE215", "CWE252", "CWE416", "CWE467", "CWE476", "CWE560", "CWE676", "CWE782", "CWE789", "Memory",
];

/// k = 0 default run, 1 all checks, 2 single check, 3 random subset (with duplicate / empty names).
/// For kernel-module inputs partial selections stay inside the modules the shipped lkm_config.json
/// configures (selecting an unconfigured check is a configuration error, not a well-formed run).
pub fn selection(rng: &mut Rng, k: u64, lkm: bool) -> Option<String> {
    let all: Vec<&str> = if lkm { LKM_MODULES.to_vec() } else { cli::ALL_MODULES.to_vec() };
    match k {
        0 => None,
        1 => Some(all.join(",")),
        2 => Some(rng.pick(&all).to_string()),
        _ => {
            let mut v: Vec<&str> = all.iter().cloned().filter(|_| rng.chance(1, 3)).collect();
            rng.shuffle(&mut v);
            if rng.chance(1, 6) && !v.is_empty() {
                v.push(v[0]); // a duplicate name
            }
            let mut s = v.join(",");
            if rng.chance(1, 8) {
                s.push(','); // an empty name
            }
            Some(s)
        }
    }
}

pub fn exec(input: &Value) -> Value {
    // inputs are regenerated from (seed, index): the files are a function of them
    let seed = input["gen_seed"].as_u64().unwrap();
    let kind = input["kind"].as_str().unwrap();
    let dir = input["dir"].as_str().unwrap();
    let id = input["id"].as_str().unwrap();
    let mut rng = Rng::new(seed);
    let kn = knobs(&mut rng, kind == "lkm");
    let (pj, bp) = cli::materialize(dir, id, &mut rng, &kn, kind);
    let partial = if input["has_partial"].as_bool().unwrap() { Some(input["partial_raw"].as_str().unwrap().to_string()) } else { None };
    let mut ev = cli::invoke(&pj, &bp, kind == "lkm", partial.as_deref(), 120);
    for k in ["gen_seed", "kind", "dir", "id"] {
        ev[k] = input[k].clone();
    }
    ev["versions"] = cli::module_versions()["list"].clone();
    ev
}

pub fn replay(run: &[Value], _sub: &str) -> Vec<Value> {
    run.iter().filter(|e| e["ev"] == "cli").map(exec).collect()
}

pub fn gen(out: &mut Out, _sub: &str) {
    let mut rng = Rng::new(out.seed ^ 0xC21);
    let n = out.size(48, 1500);
    let dir = std::env::var("VERIF_SCRATCH").unwrap_or_else(|_| "/verif/.build/cli_inputs".to_string());
    let mut inputs = Vec::new();
    for i in 0..n {
        let gen_seed = rng.next();
        let kind = match rng.below(8) { 0 => "lkm", 1 => "rel", _ => "exec" };
        let nsel = out.size(3, 4);
        // systematic part: every check alone, spread round-robin over the inputs
        if kind != "lkm" {
            let m = cli::ALL_MODULES[(i % cli::ALL_MODULES.len() as u64) as usize];
            inputs.push(json!({"gen_seed": gen_seed, "kind": kind, "dir": dir, "id": format!("c21_{}_s", i),
                               "has_partial": true, "partial_raw": m}));
        }
        for k in 0..nsel {
            let kk = if k < 2 { k } else { 2 + rng.below(2) };
            let sel = selection(&mut rng, kk, kind == "lkm");
            inputs.push(json!({"gen_seed": gen_seed, "kind": kind, "dir": dir, "id": format!("c21_{}_{}", i, k),
                               "has_partial": sel.is_some(), "partial_raw": sel.unwrap_or_default()}));
        }
    }
    let events = crate::par::map(inputs, 8, |inp| exec(&inp));
    for ev in events {
        let nt = ev["warnings"].as_array().map(|a| !a.is_empty()).unwrap_or(false);
        out.emit(vec![ev], nt);
    }
}
