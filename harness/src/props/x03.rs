//! X03 (extended coverage): dead variable elimination against the reference liveness of
//! spec/Liveness.tla.
//!
//! One case = one normalised project run through the REAL `compute_alive_vars` and
//! `remove_dead_var_assignments`.  The event carries the project before, the project after, the TIDs of
//! the Defs that are gone (computed mechanically: TIDs of `before` that do not occur in `after`) and the
//! "alive at the end of the block" map.  TLC (spec/trace/T_X03.tla) decides: the result must be the
//! input without exactly these Defs, and every one of them must be an assignment/load of a variable
//! that is dead in the reference semantics.  Nothing here decides anything; `f_*` fields are syntactic
//! feature tags (counted / used to key known findings).
//!
//! Generator: the functions of the C10 generator (`props::c10::gen_project`: arithmetic over registers
//! and block-local temporaries, flags, loads/stores, conditional chains, loops, calls of every kind,
//! indirect jumps with and without known targets, returns, dead ends; with and without a caller of the
//! function) plus planted shapes that matter for liveness:
//!   * `r := e ; r := load [r + c]`            (address computed into the register that is loaded)
//!   * `[cbranch c -> b ; return e]` and `[cbranch c -> b ; branchind e]` without known targets
//!   * `$t := e ; return $t`, `$t := e ; return r + $t`   (return target through an assigned temporary)
//!   * `$t := e ; cbranch $t`, `$t := e ; branchind $t`, `$t := e ; callind $t`
//!   * flag computations through temporaries that are overwritten before they are read.
//! Two stages per function: after `normalize_basic` ("basic"), and after the passes that precede the
//! elimination in `normalize_optimize` (expression propagation, trivial-expression substitution:
//! "pipeline" - propagation leaves many assignments dead).
//! Input class: as C10 (temporaries are assigned before they are read inside their block; every
//! non-temporary variable is in the register set; one size per name).
use crate::exprgen::*;
use crate::irenc;
use crate::irenc::mk_tid;
use crate::out::{catch, Out};
use crate::props::c10::{gen_project, RawProg};
use crate::rng::Rng;
use cwe_checker_lib::analysis;
use cwe_checker_lib::intermediate_representation::*;
use serde_json::{json, Value};
use std::collections::BTreeSet;

fn xtid(b: &Tid, tag: &str, n: usize) -> Tid {
    mk_tid(&format!("instr_{}_{}{}", b.address, tag, n), &b.address)
}
fn xtmp(n: &mut u64, size: u64) -> Variable {
    *n += 1;
    tmp(&format!("$X{}_{}", *n, size), size)
}
fn gpr(r: &mut Rng) -> Variable {
    reg(*r.pick(&GPRS), 8)
}
fn flag(r: &mut Rng) -> Variable {
    reg(*r.pick(&FLAGS), 1)
}
fn small_expr(r: &mut Rng) -> Expression {
    use BinOpType::*;
    match r.below(5) {
        0 => var(&gpr(r)),
        1 => bin(IntAdd, var(&gpr(r)), cst(r.range(1, 64), 8)),
        2 => bin(IntSub, var(&gpr(r)), var(&gpr(r))),
        3 => bin(IntXOr, var(&gpr(r)), cst(r.range(1, 255), 8)),
        _ => cst(r.range(0, 1000), 8),
    }
}
fn small_cond(r: &mut Rng) -> Expression {
    use BinOpType::*;
    match r.below(3) {
        0 => var(&flag(r)),
        1 => bin(IntEqual, var(&gpr(r)), cst(r.range(0, 3), 8)),
        _ => bin(IntLess, var(&gpr(r)), var(&gpr(r))),
    }
}

/// Plant liveness-relevant shapes into function f (subs[0]).  Returns the names of the planted shapes.
fn plant(raw: &mut RawProg, r: &mut Rng) -> Vec<&'static str> {
    use BinOpType::*;
    let mut planted = Vec::new();
    let f = &mut raw.subs[0];
    let n = f.term.blocks.len();
    if n == 0 {
        return planted;
    }
    let tids: Vec<Tid> = f.term.blocks.iter().map(|b| b.tid.clone()).collect();
    let mut tn = 0u64;
    let mut k = 0usize;
    // 1. address computed into the register that is then loaded
    if r.chance(1, 2) {
        let b = r.below(n as u64) as usize;
        let blk = &mut f.term.blocks[b];
        let pos = r.below(blk.term.defs.len() as u64 + 1) as usize;
        let x = gpr(r);
        let others: Vec<&str> = GPRS.iter().cloned().filter(|g| *g != x.name).collect();
        let o = reg(*r.pick(&others), 8);
        let e = match r.below(3) {
            0 => var(&o),
            1 => bin(IntAdd, var(&o), cst(8 * r.range(1, 8), 8)),
            _ => bin(IntAdd, var(&sp_var()), cst(8 * r.range(1, 8), 8)),
        };
        let a = if r.chance(1, 2) { var(&x) } else { bin(IntAdd, var(&x), cst(8 * r.range(1, 4), 8)) };
        k += 1;
        blk.term.defs.insert(pos, Term { tid: xtid(&tids[b], "xa", k), term: Def::Assign { var: x.clone(), value: e } });
        blk.term.defs.insert(pos + 1, Term { tid: xtid(&tids[b], "xl", k), term: Def::Load { var: x, address: a } });
        planted.push("selfload");
    }
    // 2. flag computation through a temporary, overwritten later in the block (dead chain)
    if r.chance(1, 2) {
        let b = r.below(n as u64) as usize;
        let blk = &mut f.term.blocks[b];
        let pos = r.below(blk.term.defs.len() as u64 + 1) as usize;
        let t = xtmp(&mut tn, 8);
        let fl = flag(r);
        k += 1;
        let d1 = Term { tid: xtid(&tids[b], "xf", k), term: Def::Assign { var: t.clone(), value: bin(IntSub, var(&gpr(r)), var(&gpr(r))) } };
        let d2 = Term { tid: xtid(&tids[b], "xg", k), term: Def::Assign { var: fl.clone(), value: bin(IntEqual, var(&t), cst(0, 8)) } };
        let d3 = Term { tid: xtid(&tids[b], "xh", k), term: Def::Assign { var: fl, value: bin(IntLess, var(&gpr(r)), var(&gpr(r))) } };
        blk.term.defs.insert(pos, d1);
        blk.term.defs.insert(pos + 1, d2);
        if r.chance(2, 3) {
            let end = blk.term.defs.len();
            blk.term.defs.insert(end, d3);
        }
        planted.push("deadflag");
    }
    // 3. terminators
    let roll = r.below(12);
    let b = r.below(n as u64) as usize;
    let jt = |j: usize| mk_tid(&format!("instr_{}_xj{}", tids[b].address, j), &tids[b].address);
    let target = tids[r.below(n as u64) as usize].clone();
    let blk = &mut f.term.blocks[b];
    match roll {
        0 | 1 => {
            // conditional return
            let c = small_cond(r);
            let e = if r.chance(1, 2) { var(&gpr(r)) } else { cst(0x4000, 8) };
            blk.term.jmps = vec![
                Term { tid: jt(0), term: Jmp::CBranch { target, condition: c } },
                Term { tid: jt(1), term: Jmp::Return(e) },
            ];
            blk.term.indirect_jmp_targets.clear();
            planted.push("cond_return");
        }
        2 => {
            // conditional indirect jump without known targets
            let c = small_cond(r);
            blk.term.jmps = vec![
                Term { tid: jt(0), term: Jmp::CBranch { target, condition: c } },
                Term { tid: jt(1), term: Jmp::BranchInd(var(&gpr(r))) },
            ];
            blk.term.indirect_jmp_targets.clear();
            planted.push("cond_indjmp");
        }
        3 | 4 => {
            // return through an assigned temporary
            let t = xtmp(&mut tn, 8);
            k += 1;
            blk.term.defs.push(Term { tid: xtid(&tids[b], "xr", k), term: Def::Assign { var: t.clone(), value: small_expr(r) } });
            let e = if r.chance(1, 2) { var(&t) } else { bin(IntAdd, var(&gpr(r)), var(&t)) };
            blk.term.jmps = vec![Term { tid: jt(0), term: Jmp::Return(e) }];
            blk.term.indirect_jmp_targets.clear();
            planted.push("return_tmp");
        }
        5 => {
            // conditional branch on an assigned temporary
            let t = xtmp(&mut tn, 1);
            k += 1;
            blk.term.defs.push(Term { tid: xtid(&tids[b], "xc", k), term: Def::Assign { var: t.clone(), value: small_cond(r) } });
            let other = tids[r.below(n as u64) as usize].clone();
            blk.term.jmps = vec![
                Term { tid: jt(0), term: Jmp::CBranch { target, condition: var(&t) } },
                Term { tid: jt(1), term: Jmp::Branch(other) },
            ];
            blk.term.indirect_jmp_targets.clear();
            planted.push("cbranch_tmp");
        }
        6 => {
            // indirect jump / call through an assigned temporary
            let t = xtmp(&mut tn, 8);
            k += 1;
            blk.term.defs.push(Term { tid: xtid(&tids[b], "xi", k), term: Def::Assign { var: t.clone(), value: small_expr(r) } });
            blk.term.indirect_jmp_targets.clear();
            if r.chance(1, 2) {
                if r.chance(1, 2) {
                    blk.term.indirect_jmp_targets.push(target);
                }
                blk.term.jmps = vec![Term { tid: jt(0), term: Jmp::BranchInd(var(&t)) }];
                planted.push("indjmp_tmp");
            } else {
                let ret = if r.chance(1, 4) { None } else { Some(target) };
                blk.term.jmps = vec![Term { tid: jt(0), term: Jmp::CallInd { target: var(&t), return_: ret } }];
                planted.push("callind_tmp");
            }
        }
        _ => (),
    }
    planted
}

fn def_tids(p: &Project) -> Vec<Tid> {
    let mut v = Vec::new();
    for s in p.program.term.subs.values() {
        for b in &s.term.blocks {
            for d in &b.term.defs {
                v.push(d.tid.clone());
            }
        }
    }
    v
}

/// syntactic feature tags of the project before the elimination
fn features(p: &Project) -> (bool, bool, bool) {
    let (mut cond_term, mut ret_tmp, mut selfload) = (false, false, false);
    for s in p.program.term.subs.values() {
        for b in &s.term.blocks {
            let j = &b.term.jmps;
            if j.len() == 2 && matches!(j[0].term, Jmp::CBranch { .. }) {
                match &j[1].term {
                    Jmp::Return(_) => cond_term = true,
                    Jmp::BranchInd(_) if b.term.indirect_jmp_targets.is_empty() => cond_term = true,
                    _ => (),
                }
            }
            for jm in j {
                if let Jmp::Return(e) = &jm.term {
                    if e.input_vars().iter().any(|v| v.is_temp) {
                        ret_tmp = true;
                    }
                }
            }
            for d in &b.term.defs {
                if let Def::Load { var, address } = &d.term {
                    if address.input_vars().contains(&var) {
                        selfload = true;
                    }
                }
            }
        }
    }
    (cond_term, ret_tmp, selfload)
}

/// Run the real code on `before` and build the event.
pub fn exec(before: &Project, stage: &str, idx: u64) -> (Value, bool) {
    let mut panic = String::new();
    let alive = match catch(std::panic::AssertUnwindSafe(|| analysis::dead_variable_elimination::compute_alive_vars(before))) {
        Ok(m) => {
            let mut v: Vec<(String, Value)> = m
                .iter()
                .map(|(t, vars)| (t.to_string(), json!({"blk": t.to_string(), "vars": vars.iter().map(irenc::var).collect::<Vec<_>>()})))
                .collect();
            v.sort_by(|a, b| a.0.cmp(&b.0));
            v.into_iter().map(|x| x.1).collect::<Vec<_>>()
        }
        Err(m) => {
            panic = format!("compute_alive_vars: {}", m);
            vec![]
        }
    };
    let after = match catch(std::panic::AssertUnwindSafe(|| {
        let mut q = before.clone();
        analysis::dead_variable_elimination::remove_dead_var_assignments(&mut q);
        q
    })) {
        Ok(q) => q,
        Err(m) => {
            if panic.is_empty() {
                panic = format!("remove_dead_var_assignments: {}", if m.is_empty() { "panic" } else { &m });
            }
            before.clone()
        }
    };
    let kept: BTreeSet<Tid> = def_tids(&after).into_iter().collect();
    let removed: Vec<String> = def_tids(before).into_iter().filter(|t| !kept.contains(t)).map(|t| t.to_string()).collect();
    let (cond_term, ret_tmp, selfload) = features(before);
    let nontrivial = !removed.is_empty() && !kept.is_empty();
    let ev = json!({"ev": "dve", "stage": stage, "fn": idx,
        "project": irenc::project(before), "after": irenc::project(&after),
        "removed": removed, "alive": alive, "panic": panic,
        "f_cond_term": cond_term, "f_ret_tmp": ret_tmp, "f_selfload": selfload});
    (ev, nontrivial)
}

/// The stages of one raw project: (stage name, project before the elimination).
fn stages(raw: &Project) -> Vec<(&'static str, Project)> {
    let mut p1 = raw.clone();
    let _ = p1.normalize_basic();
    let mut v = vec![("basic", p1.clone())];
    let r = catch(std::panic::AssertUnwindSafe(|| {
        let mut q = p1.clone();
        analysis::expression_propagation::propagate_input_expression(&mut q);
        q.substitute_trivial_expressions();
        q
    }));
    if let Ok(q) = r {
        if q.program != p1.program {
            v.push(("pipeline", q));
        }
    }
    v
}

pub fn gen(out: &mut Out, _sub: &str) {
    let nfun = out.size(200, 5000);
    let seed = out.seed;
    let mut removed_total = 0u64;
    let mut defs_total = 0u64;
    let mut planted_counts = serde_json::Map::new();
    let mut stage_counts = serde_json::Map::new();
    for idx in 0..nfun {
        let mut rng = Rng::new(seed.wrapping_mul(0x2545_F491).wrapping_add(idx).wrapping_add(0x0003_0003));
        let mut raw = match catch(|| gen_project(seed ^ 0x5EED_0003, idx)) {
            Ok(p) => p,
            Err(m) => {
                eprintln!("generator panic at function {}: {}", idx, m);
                std::process::exit(2)
            }
        };
        for name in plant(&mut raw, &mut rng) {
            let c = planted_counts.get(name).and_then(|x| x.as_u64()).unwrap_or(0);
            planted_counts.insert(name.to_string(), json!(c + 1));
        }
        for (stage, before) in stages(&raw.project()) {
            let (ev, nontrivial) = exec(&before, stage, idx);
            removed_total += ev["removed"].as_array().map_or(0, |a| a.len() as u64);
            defs_total += def_tids(&before).len() as u64;
            let c = stage_counts.get(stage).and_then(|x| x.as_u64()).unwrap_or(0);
            stage_counts.insert(stage.to_string(), json!(c + 1));
            out.emit(vec![ev], nontrivial);
        }
    }
    out.extra.insert("functions".into(), json!(nfun));
    out.extra.insert("defs_before".into(), json!(defs_total));
    out.extra.insert("defs_removed".into(), json!(removed_total));
    out.extra.insert("planted".into(), Value::Object(planted_counts));
    out.extra.insert("events_per_stage".into(), Value::Object(stage_counts));
}

/// Re-execute the real elimination on the recorded project-before of every event.
pub fn replay(run: &[Value], _sub: &str) -> Vec<Value> {
    run.iter()
        .filter(|e| e.get("project").is_some())
        .map(|e| {
            let before = crate::walkgen::dec::project(&e["project"]);
            exec(&before, e["stage"].as_str().unwrap_or("replay"), e["fn"].as_u64().unwrap_or(0)).0
        })
        .collect()
}
