//! C12: lifted and normalised IR is size-consistent.
//! Generates whole P-Code projects (pcodegen.rs: functions with loops, calls, stack / global
//! accesses over an x86-64-like register table with sub-registers) enriched with the
//! size-stressing instruction groups of pblockgen.rs, runs the REAL pipeline
//!   pcode::Project::normalize + into_ir_project   ("lifted")
//!   Project::normalize_basic                      ("basic")
//!   Project::normalize_optimize                   ("optimized")
//! and records the program after every stage.  TLC evaluates spec/WellSized.tla on every Def and
//! Jmp of every recorded program; nothing is decided here.
use crate::out::{catch, Out};
use crate::pblockgen::{self, BlockGen};
use crate::pcodegen::{self, Knobs};
use crate::rng::Rng;
use crate::irenc;
use cwe_checker_lib::intermediate_representation::{Expression, Project};
use cwe_checker_lib::pcode;
use serde_json::{json, Value};

/// slim projection: stack pointer and the Defs / Jmps of all blocks
fn slim(p: &Project) -> Value {
    let subs: Vec<Value> = p
        .program
        .term
        .subs
        .values()
        .map(|s| {
            json!({"tid": irenc::tid(&s.tid), "blocks": s.term.blocks.iter().map(|b| {
                json!({"tid": irenc::tid(&b.tid),
                       "defs": b.term.defs.iter().map(irenc::def).collect::<Vec<_>>(),
                       "jmps": b.term.jmps.iter().map(irenc::jmp).collect::<Vec<_>>()})
            }).collect::<Vec<_>>()})
        })
        .collect();
    json!({"sp": irenc::var(&p.stack_pointer_register), "program": {"subs": subs}})
}

fn empty_project(raw: &Value) -> Value {
    json!({"sp": {"n": raw["stack_pointer_register"]["name"], "s": raw["stack_pointer_register"]["size"], "t": false}, "program": {"subs": []}})
}

/// number of size-changing expressions (feature tag only)
fn resizing(p: &Project) -> u64 {
    fn count(e: &Expression) -> u64 {
        match e {
            Expression::Var(_) | Expression::Const(_) | Expression::Unknown { .. } => 0,
            Expression::BinOp { op, lhs, rhs } => count(lhs) + count(rhs) + u64::from(matches!(op, cwe_checker_lib::intermediate_representation::BinOpType::Piece)),
            Expression::UnOp { arg, .. } => count(arg),
            Expression::Cast { arg, .. } | Expression::Subpiece { arg, .. } => 1 + count(arg),
        }
    }
    use cwe_checker_lib::intermediate_representation::Def;
    p.program.term.subs.values().flat_map(|s| s.term.blocks.iter()).flat_map(|b| b.term.defs.iter()).map(|d| match &d.term {
        Def::Assign { value, .. } => count(value),
        Def::Load { address, .. } => count(address),
        Def::Store { address, value } => count(address) + count(value),
    }).sum()
}

/// The events of one case: reset (carries the input) + one event per stage.
pub fn exec(input: &Value) -> (Vec<Value>, bool) {
    let raw: Value = serde_json::from_str(input["raw"].as_str().unwrap()).expect("raw P-Code project");
    let idx = input["idx"].clone();
    let mut evs = vec![json!({"ev": "reset", "idx": idx, "raw": input["raw"]})];
    let stage = |name: &str, project: Value, panic: String| json!({"ev": "stage", "stage": name, "idx": idx, "panic": panic, "project": project});
    let pproject: pcode::Project = match serde_json::from_value(raw.clone()) {
        Ok(p) => p,
        Err(e) => {
            evs.push(stage("lifted", empty_project(&raw), format!("deserialization of the extractor output failed: {}", e)));
            return (evs, false);
        }
    };
    let base = u64::from_str_radix(raw["program"]["term"]["image_base"].as_str().unwrap(), 16).unwrap();
    let lifted = catch(move || {
        let mut p = pproject;
        let _ = p.normalize();
        p.into_ir_project(base)
    });
    let mut project = match lifted {
        Ok(p) => p,
        Err(msg) => {
            evs.push(stage("lifted", empty_project(&raw), format!("panic: {}", msg)));
            return (evs, false);
        }
    };
    let nontrivial = resizing(&project) > 0;
    evs.push(stage("lifted", slim(&project), String::new()));
    let before = slim(&project);
    let r = catch(std::panic::AssertUnwindSafe(|| {
        let _ = project.normalize_basic();
    }));
    if let Err(msg) = r {
        evs.push(stage("basic", before, format!("panic: {}", msg)));
        return (evs, nontrivial);
    }
    evs.push(stage("basic", slim(&project), String::new()));
    let before = slim(&project);
    let r = catch(std::panic::AssertUnwindSafe(|| {
        let _ = project.normalize_optimize();
    }));
    if let Err(msg) = r {
        evs.push(stage("optimized", before, format!("panic: {}", msg)));
        return (evs, nontrivial);
    }
    evs.push(stage("optimized", slim(&project), String::new()));
    (evs, nontrivial)
}

pub fn replay(run: &[Value], _sub: &str) -> Vec<Value> {
    run.iter().filter(|e| e["ev"] == "reset").flat_map(|e| exec(e).0).collect()
}

/// A generated project: pcodegen functions whose blocks are enriched with pblockgen instruction groups.
fn one_input(seed: u64, idx: u64, arch: &pblockgen::Arch) -> Value {
    let mut rng = Rng::new(seed ^ idx.wrapping_mul(0x9E37_79B9_7F4A_7C15) ^ 0xC12);
    let knobs = Knobs { n_funcs: 1 + rng.below(3) as usize, max_blocks: 3 + rng.below(4) as usize, must_call: Vec::new(), lkm: false, lost_roots: false };
    let mut spec = pcodegen::gen_funcs(&mut rng, &knobs);
    for f in spec.funcs.iter_mut() {
        let nb = f.blocks.len();
        for (bi, b) in f.blocks.iter_mut().enumerate() {
            if bi + 1 == nb {
                continue; // keep the epilogue
            }
            let extra = rng.below(4);
            for _ in 0..extra {
                let group = {
                    let mut g = BlockGen::new(&mut rng, arch);
                    g.instr()
                };
                if group.is_empty() {
                    continue;
                }
                // keep a call's return-address push the last instruction of its block
                let at = if b.instrs.is_empty() { 0 } else { rng.below(b.instrs.len() as u64) as usize };
                b.instrs.insert(at, group);
            }
        }
    }
    let (mut raw, _) = pcodegen::layout(&spec);
    raw["register_properties"] = arch.register_properties();
    json!({"idx": idx, "raw": serde_json::to_string(&raw).unwrap()})
}

pub fn gen(out: &mut Out, _sub: &str) {
    let n = out.size(480, 6000);
    let arch = pblockgen::arch64();
    let inputs: Vec<Value> = (0..n).map(|idx| one_input(out.seed, idx, &arch)).collect();
    let results = crate::par::map(inputs, 8, |inp| exec(&inp));
    let mut panics = 0u64;
    for (evs, nontrivial) in results {
        panics += evs.iter().filter(|e| e["ev"] == "stage" && e["panic"] != json!("")).count() as u64;
        out.emit(evs, nontrivial);
    }
    out.extra.insert("stage_panics".to_string(), json!(panics));
}
