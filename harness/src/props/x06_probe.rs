//! THROW-AWAY probe (deleted before delivery): the X06 rule set transcribed into Rust and compared with
//! the real checker, to validate the rule set before it is written down in TLA+ (spec/UafWalk.tla).
#![allow(dead_code)]
use crate::out::Out;
use crate::props::x06::*;
use crate::rng::Rng;
use cwe_checker_lib::intermediate_representation::*;
use serde_json::{json, Value};
use std::collections::{BTreeMap, BTreeSet};

#[derive(Clone, PartialEq, Eq, Debug, PartialOrd, Ord)]
pub enum Id {
    Obj(String),
    Par(String),
}
#[derive(Clone, PartialEq, Eq, Debug)]
pub struct Val {
    rel: BTreeSet<Id>,
    abs: bool,
    flag: bool,
    u: bool,
}
impl Val {
    fn abs() -> Val { Val { rel: BTreeSet::new(), abs: true, flag: false, u: false } }
    fn unk() -> Val { Val { rel: BTreeSet::new(), abs: false, flag: true, u: true } }
    fn ptr(id: Id) -> Val { Val { rel: [id].into_iter().collect(), abs: false, flag: false, u: false } }
    fn is_top(&self) -> bool { self.rel.is_empty() && !self.abs && !self.u }
    fn union(&self, o: &Val) -> Val {
        Val { rel: self.rel.union(&o.rel).cloned().collect(), abs: self.abs || o.abs, flag: self.flag || o.flag, u: self.u || o.u }
    }
}
type V = Option<Val>; // None = Top

#[derive(Clone, PartialEq, Eq, Debug)]
pub struct St {
    sp: i64,
    regs: BTreeMap<String, Val>,
    slots: BTreeMap<i64, Val>,
    objs: BTreeMap<String, u8>,
    flags: BTreeSet<(String, char)>,
}

pub struct Ctx<'a> {
    p: &'a Project,
    x86: bool,
    oob: Vec<String>,
    saved: BTreeSet<String>,
    params: Vec<String>,
}

const ALLOC: [&str; 3] = ["malloc", "calloc", "strdup"];
fn stub(name: &str) -> Option<Vec<&'static str>> {
    // r = read, d = dereferenced (mutably or not)
    Some(match name {
        "malloc" => vec!["r"], "calloc" => vec!["r", "r"], "strdup" => vec!["d"], "free" => vec!["d"], "fclose" => vec!["d"], "puts" => vec!["d"],
        "strlen" => vec!["d"], "memcmp" => vec!["d", "d", "r"], "putchar" => vec!["r"], "getpid" => vec![], "exit" => vec!["r"],
        _ => return None,
    })
}

fn merge_st(c: &mut Ctx, a: &St, b: &St) -> St {
    if a.sp != b.sp {
        c.oob.push("sp differs at a join".into());
    }
    // registers (MergeTopStrategy) and stack slots (MemRegion): a value present on one side only is merged
    // with Top, i.e. it keeps its targets (and gets the top flag)
    let mut regs = a.regs.clone();
    for (k, vb) in &b.regs {
        let m = match regs.get(k) { Some(va) => va.union(vb), None => { let mut x = vb.clone(); x.flag = true; x } };
        regs.insert(k.clone(), m);
    }
    for (k, v) in regs.iter_mut() { if !b.regs.contains_key(k) { v.flag = true; } }
    let mut slots = a.slots.clone();
    if mutn() == 5 { slots.retain(|k, _| b.slots.contains_key(k)); }
    for (k, vb) in &b.slots {
        if mutn() == 5 && !a.slots.contains_key(k) { continue; }
        let m = match slots.get(k) { Some(va) => va.union(vb), None => { let mut x = vb.clone(); x.flag = true; x } };
        slots.insert(*k, m);
    }
    for (k, v) in slots.iter_mut() { if !b.slots.contains_key(k) { v.flag = true; } }
    let mut objs = a.objs.clone();
    for (k, n) in &b.objs {
        let e = objs.entry(k.clone()).or_insert(*n);
        *e = (*e).max(*n);
    }
    St { sp: a.sp, regs, slots, objs, flags: a.flags.union(&b.flags).cloned().collect() }
}

enum Addr {
    Stack(i64),
    Val(V),
}
fn is_reg8(v: &Variable) -> bool { v.size == ByteSize::new(8) && !v.is_temp }
fn const_i64(e: &Expression) -> Option<i64> {
    if let Expression::Const(c) = e { c.clone().into_sign_extend(64).ok()?.try_to_i64().ok() } else { None }
}
fn eval(c: &mut Ctx, st: &St, e: &Expression) -> V {
    match e {
        Expression::Var(v) if v.name == "RSP" => { c.oob.push("RSP read as a value".into()); None }
        Expression::Var(v) if is_reg8(v) => st.regs.get(&v.name).cloned(),
        Expression::Var(_) => Some(Val::unk()),
        Expression::Const(_) => Some(Val::abs()),
        Expression::BinOp { op: BinOpType::IntAdd | BinOpType::IntSub, lhs, rhs } if matches!(**rhs, Expression::Const(_)) => match &**lhs {
            Expression::Var(v) if v.name != "RSP" && is_reg8(v) => st.regs.get(&v.name).cloned(),
            _ => Some(Val::unk()),
        },
        Expression::Unknown { .. } => None,
        _ => {
            // unmodelled expression: fine as long as it reads no pointer
            for v in e.input_vars() {
                if v.name == "RSP" { c.oob.push("RSP in an unmodelled expression".into()); }
                if let Some(x) = st.regs.get(&v.name) { if !x.rel.is_empty() { c.oob.push("pointer in an unmodelled expression".into()); } }
            }
            Some(Val::unk())
        }
    }
}
fn eval_addr(c: &mut Ctx, st: &St, e: &Expression) -> Addr {
    match e {
        Expression::Var(v) if v.name == "RSP" => Addr::Stack(st.sp),
        Expression::BinOp { op, lhs, rhs } if matches!(op, BinOpType::IntAdd | BinOpType::IntSub) && matches!(&**lhs, Expression::Var(v) if v.name == "RSP") => match const_i64(rhs) {
            Some(k) => Addr::Stack(if *op == BinOpType::IntAdd { st.sp + k } else { st.sp - k }),
            None => { c.oob.push("stack address with a non-constant offset".into()); Addr::Val(None) }
        },
        _ => Addr::Val(eval(c, st, e)),
    }
}
fn pointer_inputs(e: &Expression) -> Vec<&Variable> {
    match e {
        Expression::BinOp { op, lhs, rhs } => match op {
            BinOpType::IntAdd | BinOpType::IntAnd | BinOpType::IntXOr | BinOpType::IntOr => { let mut v = pointer_inputs(lhs); v.extend(pointer_inputs(rhs)); v }
            BinOpType::IntSub => pointer_inputs(lhs),
            _ => vec![],
        },
        Expression::Var(v) => vec![v],
        _ => vec![],
    }
}
fn flag_ids(st: &mut St, v: &V, kinds: &str) {
    if let Some(v) = v {
        for id in &v.rel {
            if let Id::Par(p) = id { for k in kinds.chars() { st.flags.insert((p.clone(), k)); } }
        }
    }
}
fn flag_inputs(st: &mut St, e: &Expression, kinds: &str) {
    for v in e.input_vars() {
        if v.name != "RSP" && is_reg8(v) { let x = st.regs.get(&v.name).cloned(); flag_ids(st, &x, kinds); }
    }
}
fn set_reg(st: &mut St, name: &str, v: V) {
    match v { Some(x) if !x.is_top() => { st.regs.insert(name.to_string(), x); } _ => { st.regs.remove(name); } }
}

/// transfer of one Def; returns the address value of a load/store (None for assigns)
fn step_def(c: &mut Ctx, st: &mut St, d: &Def, sig: bool) -> Option<Addr> {
    match d {
        Def::Assign { var, value } => {
            if var.name == "RSP" {
                let ok = match value {
                    Expression::BinOp { op, lhs, rhs } if matches!(&**lhs, Expression::Var(v) if v.name == "RSP") => match (op, const_i64(rhs)) {
                        (BinOpType::IntAdd, Some(k)) => { st.sp += k; true }
                        (BinOpType::IntSub, Some(k)) => { st.sp -= k; true }
                        _ => false,
                    },
                    _ => false,
                };
                if !ok { c.oob.push("RSP assigned something else than RSP +- const".into()); }
                return None;
            }
            if sig { flag_inputs(st, value, "r"); }
            let v = eval(c, st, value);
            if is_reg8(var) { set_reg(st, &var.name, v); }
            None
        }
        Def::Load { var, address } => {
            if sig {
                for pv in pointer_inputs(address) { if pv.name != "RSP" { let x = st.regs.get(&pv.name).cloned(); flag_ids(st, &x, "rd"); } }
                flag_inputs(st, address, "r");
            }
            let a = eval_addr(c, st, address);
            let v = match &a {
                Addr::Stack(off) => {
                    if *off >= 0 || off % 8 != 0 || var.size != ByteSize::new(8) { c.oob.push(format!("stack load at {}", off)); }
                    let v = st.slots.get(off).cloned();
                    if sig { flag_ids(st, &v, "r"); }
                    v
                }
                Addr::Val(av) => {
                    if let Some(x) = av { if x.rel.is_empty() && (x.abs || x.u) { c.oob.push("load through a constant / untracked address".into()); } }
                    if sig && mutn() != 8 { flag_ids(st, av, "rd"); }
                    Some(Val::unk())
                }
            };
            if is_reg8(var) { set_reg(st, &var.name, v); }
            Some(a)
        }
        Def::Store { address, value } => {
            if sig {
                for pv in pointer_inputs(address) { if pv.name != "RSP" { let x = st.regs.get(&pv.name).cloned(); flag_ids(st, &x, "rd"); } }
                flag_inputs(st, address, "r");
            }
            let a = eval_addr(c, st, address);
            match &a {
                Addr::Stack(off) => {
                    if *off >= 0 || off % 8 != 0 || value.bytesize() != ByteSize::new(8) { c.oob.push(format!("stack store at {}", off)); }
                    if sig && !matches!(value, Expression::Var(_)) { flag_inputs(st, value, "r"); }
                    let v = eval(c, st, value);
                    match v { Some(x) if !x.is_top() => { st.slots.insert(*off, x); } _ => { st.slots.remove(off); } }
                }
                Addr::Val(av) => {
                    if let Some(x) = av { if x.rel.is_empty() && (x.abs || x.u) { c.oob.push("store through a constant / untracked address".into()); } }
                    if sig { flag_ids(st, av, "rd"); flag_inputs(st, value, "r"); }
                    let v = eval(c, st, value);
                    if let Some(x) = v { if !x.rel.is_empty() { c.oob.push("pointer stored to the heap".into()); } }
                }
            }
            Some(a)
        }
    }
}

pub struct FnRes {
    start: Vec<Option<St>>,
    end: Vec<Option<St>>,
    addr: BTreeMap<String, V>,
    /// None = PI has no value for this def (dead)
    ret_blocks: Vec<usize>,
}

fn after_call_regs(c: &Ctx, st: &St) -> St {
    let mut n = st.clone();
    n.regs.retain(|k, _| c.saved.contains(k));
    if c.x86 { n.sp += 8; }
    n
}

fn extern_transfer(c: &mut Ctx, st: &St, sym: &ExternSymbol, call: &Tid, sig: bool) -> St {
    let mut st = st.clone();
    if sig {
        if let Some(pat) = stub(&sym.name) {
            for (a, k) in sym.parameters.iter().zip(pat.iter()) {
                if let Arg::Register { expr: Expression::Var(v), .. } = a { let x = st.regs.get(&v.name).cloned(); flag_ids(&mut st, &x, k); }
            }
        }
    }
    let mut n = after_call_regs(c, &st);
    if ALLOC.contains(&sym.name.as_str()) {
        let key = call.to_string();
        let cnt = if n.objs.contains_key(&key) { 2 } else { 1 };
        n.objs.insert(key.clone(), cnt);
        let mut v = Val::ptr(Id::Obj(key));
        if sig { v.abs = true; }
        n.regs.insert("RAX".into(), v);
    }
    n
}

fn referenced(st: &St) -> BTreeSet<String> {
    let mut s = BTreeSet::new();
    for v in st.regs.values().chain(st.slots.values()) {
        for id in &v.rel { if let Id::Obj(o) = id { s.insert(o.clone()); } }
    }
    s
}

/// PI: return from the callee (state `sg` at the end of one returning block) to the caller state `st` at the call
fn return_transfer_pi(c: &mut Ctx, st: &St, sg: &St, call: &Tid, gparams: &BTreeSet<String>) -> Option<St> {
    if sg.sp != if c.x86 { 8 } else { 0 } {
        c.oob.push("callee returns with an unexpected stack pointer".into());
        return None;
    }
    let mut n = after_call_regs(c, st);
    let key = call.to_string();
    for ret in ["RAX", "RDX"] {
        let v = match sg.regs.get(ret) { Some(v) => v.clone(), None => continue };
        let heap: Vec<&Id> = v.rel.iter().filter(|i| matches!(i, Id::Obj(o) if sg.objs.contains_key(o))).collect();
        let mut r = Val { rel: BTreeSet::new(), abs: v.abs, flag: v.flag, u: v.u };
        if !heap.is_empty() {
            if ret != "RAX" { c.oob.push("callee returns a heap pointer in RDX".into()); }
            let cnt = if n.objs.contains_key(&key) { 2 } else { 1 };
            n.objs.insert(key.clone(), cnt);
            r.rel.insert(Id::Obj(key.clone()));
        }
        for id in &v.rel {
            if let Id::Par(p) = id {
                debug_assert!(gparams.contains(p));
                match st.regs.get(p) { Some(x) => { r = r.union(x); } None => { r.flag = true; } }
            }
        }
        set_reg(&mut n, ret, Some(r));
    }
    let keep = referenced(&n);
    if mutn() != 2 { n.objs.retain(|k, _| keep.contains(k)); }
    Some(n)
}

/// function signature analysis: return from the callee
fn return_transfer_sig(c: &mut Ctx, st: &St, sg: &St, call: &Tid) -> Option<St> {
    let mut st = st.clone();
    // merge_parameter_access
    let gacc: BTreeSet<String> = sg.flags.iter().map(|(p, _)| p.clone()).collect();
    for p in &gacc {
        let kinds: String = sg.flags.iter().filter(|(q, _)| q == p).map(|(_, k)| *k).collect();
        let x = st.regs.get(p).cloned();
        flag_ids(&mut st, &x, &kinds);
    }
    let mut n = after_call_regs(c, &st);
    for ret in ["RAX", "RDX"] {
        let mut r = Val::ptr(Id::Obj(format!("sig:{}:{}", call, ret)));
        if let Some(v) = sg.regs.get(ret) {
            for id in &v.rel {
                if let Id::Par(p) = id { if let Some(x) = st.regs.get(p) { r.rel.extend(x.rel.iter().cloned()); } }
            }
        }
        n.regs.insert(ret.into(), r);
    }
    Some(n)
}

fn sub_index(p: &Project, t: &Tid) -> Option<usize> { p.program.term.subs.keys().position(|k| k == t) }

pub fn analyze(c: &mut Ctx, s: usize, sig: bool, entry_params: &BTreeSet<String>, callee: Option<&FnRes>, gparams: &BTreeSet<String>) -> FnRes {
    let sub = c.p.program.term.subs.values().nth(s).unwrap().clone();
    let nb = sub.term.blocks.len();
    let idx: BTreeMap<Tid, usize> = sub.term.blocks.iter().enumerate().map(|(i, b)| (b.tid.clone(), i)).collect();
    let mut start: Vec<Option<St>> = vec![None; nb];
    let mut end: Vec<Option<St>> = vec![None; nb];
    let mut e0 = St { sp: 0, regs: BTreeMap::new(), slots: BTreeMap::new(), objs: BTreeMap::new(), flags: BTreeSet::new() };
    for p in entry_params { e0.regs.insert(p.clone(), Val::ptr(Id::Par(p.clone()))); }
    start[0] = Some(e0);
    let mut work: Vec<usize> = vec![0];
    let mut rounds = 0;
    while let Some(b) = work.pop() {
        rounds += 1;
        if rounds > 5000 { c.oob.push("model does not stabilise".into()); break; }
        let mut st = start[b].clone().unwrap();
        let blk = &sub.term.blocks[b];
        for d in &blk.term.defs { step_def(c, &mut st, &d.term, sig); }
        end[b] = Some(st.clone());
        let mut outs: Vec<(usize, St)> = Vec::new();
        for j in &blk.term.jmps {
            match &j.term {
                Jmp::Branch(t) | Jmp::CBranch { target: t, .. } => outs.push((idx[t], st.clone())),
                Jmp::Call { target, return_ } => {
                    if let Some(sym) = c.p.program.term.extern_symbols.get(target).cloned() {
                        if let Some(r) = return_ { let n = extern_transfer(c, &st, &sym, &j.tid, sig); outs.push((idx[r], n)); }
                    } else if let (Some(g), Some(r)) = (callee, return_) {
                        for gb in &g.ret_blocks {
                            if let Some(sg) = &g.end[*gb] {
                                let n = if sig { return_transfer_sig(c, &st, sg, &j.tid) } else { return_transfer_pi(c, &st, sg, &j.tid, gparams) };
                                if let Some(n) = n { outs.push((idx[r], n)); }
                            }
                        }
                    }
                }
                Jmp::Return(_) => {}
                _ => c.oob.push("jump kind outside the class".into()),
            }
        }
        for (t, n) in outs {
            let m = match &start[t] { None => n, Some(old) => merge_st(c, old, &n) };
            if start[t].as_ref() != Some(&m) { start[t] = Some(m); if !work.contains(&t) { work.push(t); } }
        }
    }
    // addresses at defs
    let mut addr = BTreeMap::new();
    for (b, blk) in sub.term.blocks.iter().enumerate() {
        if let Some(st0) = &start[b] {
            let mut st = st0.clone();
            for d in &blk.term.defs {
                if let Some(a) = step_def(c, &mut st, &d.term, sig) {
                    let v = match a { Addr::Stack(_) => None, Addr::Val(v) => v };
                    addr.insert(d.tid.to_string(), v);
                }
            }
        }
    }
    let ret_blocks = (0..nb).filter(|b| sub.term.blocks[*b].term.jmps.iter().any(|j| matches!(j.term, Jmp::Return(_)))).collect();
    FnRes { start, end, addr, ret_blocks }
}

/// flags of a function signature: union over all states
fn sig_flags(r: &FnRes) -> BTreeSet<(String, char)> {
    let mut f = BTreeSet::new();
    for st in r.start.iter().chain(r.end.iter()).flatten() { f.extend(st.flags.iter().cloned()); }
    f
}

// ---------------------------------------------------------------------------------------------------
// the CWE-416 object-state machine: per program point and object the SET of states the object can have on
// some path to that point: N (not freed), D (dangling), F (dangling and already flagged)
// ---------------------------------------------------------------------------------------------------
const N: u8 = 1;
const D: u8 = 2;
const F: u8 = 4;
#[derive(Clone, PartialEq, Eq, Debug, Default)]
struct Mask(BTreeMap<Id, u8>);
impl Mask {
    fn get(&self, id: &Id) -> u8 { *self.0.get(id).unwrap_or(&N) }
    fn set(&mut self, id: &Id, m: u8) { if m == N { self.0.remove(id); } else { self.0.insert(id.clone(), m); } }
    fn merge(&self, o: &Mask) -> Mask {
        let mut r = Mask::default();
        for k in self.0.keys().chain(o.0.keys()) { r.set(k, self.get(k) | o.get(k)); }
        r
    }
}
/// (may, must): `may` = all states possible on some path; `must` = the states derivable without relying on a
/// callee's "freed" outcome that may be hidden by a "flagged" outcome of the same callee
type MM = (Mask, Mask);

struct Uaf<'a> {
    c: &'a Ctx<'a>,
    dealloc: BTreeSet<String>,
    may: BTreeSet<(String, String)>,
    must: BTreeSet<(String, String)>,
    oob2: Vec<String>,
    record: bool,
}

/// targets of a value (the checker looks at relative targets only)
fn targets(v: &V) -> Vec<Id> { match v { Some(x) => x.rel.iter().cloned().collect(), None => vec![] } }
fn mutn() -> u32 { std::env::var("X06_MUT").ok().and_then(|x| x.parse().ok()).unwrap_or(0) }
fn markable(st: &St, id: &Id) -> bool { if mutn() == 1 { return true; } match id { Id::Obj(o) => st.objs.get(o) != Some(&2), Id::Par(_) => true } }
fn used(m: u8) -> u8 { (m & (N | F)) | if m & D != 0 { F } else { 0 } }

/// one check of a list of values (an address, or all checked parameters of one call): warn if a target is
/// dangling; dangling -> flagged (an object that occurs twice is flagged by its first occurrence)
fn check_vals(u: &mut Uaf, mm: &mut MM, vals: &[V], name: &str, site: &str) {
    let (mut wa, mut wm) = (false, false);
    for v in vals {
        for id in targets(v) {
            let (x, y) = (mm.0.get(&id), mm.1.get(&id));
            if x & D != 0 { wa = true; }
            if y & D != 0 && x & F == 0 { wm = true; }
            mm.0.set(&id, used(x));
            mm.1.set(&id, used(y));
        }
    }
    if u.record && wa { u.may.insert((name.into(), site.into())); }
    if u.record && wm { u.must.insert((name.into(), site.into())); }
}

fn uaf_fn(u: &mut Uaf, s: usize, pi: &FnRes, callee: Option<(&FnRes, &Vec<Option<MM>>, &BTreeSet<String>, &BTreeSet<String>)>) -> Vec<Option<MM>> {
    let sub = u.c.p.program.term.subs.values().nth(s).unwrap().clone();
    let nb = sub.term.blocks.len();
    let idx: BTreeMap<Tid, usize> = sub.term.blocks.iter().enumerate().map(|(i, b)| (b.tid.clone(), i)).collect();
    let mut start: Vec<Option<MM>> = vec![None; nb];
    let mut end: Vec<Option<MM>> = vec![None; nb];
    start[0] = Some((Mask::default(), Mask::default()));
    let mut work = vec![0usize];
    u.record = false;
    let mut final_pass = false;
    loop {
        let b = match work.pop() {
            Some(b) => b,
            None => {
                if final_pass { break; }
                // the fixpoint is reached: one more pass over every reached block records the warnings of the FINAL states
                final_pass = true;
                u.record = true;
                work = (0..nb).filter(|b| start[*b].is_some()).collect();
                continue;
            }
        };
        let mut mm = start[b].clone().unwrap();
        let blk = &sub.term.blocks[b];
        for d in &blk.term.defs {
            if let Some(a) = pi.addr.get(&d.tid.to_string()) { check_vals(u, &mut mm, &[a.clone()], "CWE416", &d.tid.to_string()); }
        }
        end[b] = Some(mm.clone());
        let pist = pi.end[b].as_ref();
        let mut outs: Vec<(usize, MM)> = Vec::new();
        for j in &blk.term.jmps {
            match &j.term {
                Jmp::Branch(t) | Jmp::CBranch { target: t, .. } => outs.push((idx[t], mm.clone())),
                Jmp::Call { target, return_ } => {
                    let site = j.tid.to_string();
                    if let Some(sym) = u.c.p.program.term.extern_symbols.get(target).cloned() {
                        let r = match return_ { Some(r) => r, None => continue };
                        let mut n = mm.clone();
                        if let Some(ps) = pist {
                            let argv = |i: usize| -> V { match &sym.parameters[i] { Arg::Register { expr: Expression::Var(v), .. } => ps.regs.get(&v.name).cloned(), _ => None } };
                            if u.dealloc.contains(&sym.name) {
                                if !sym.parameters.is_empty() {
                                    let v = argv(0);
                                    if v.as_ref().map(|x| x.u).unwrap_or(false) { u.oob2.push("untracked value passed to a deallocation symbol".into()); }
                                    let (mut wa, mut wm) = (false, false);
                                    for id in targets(&v) {
                                        if !markable(ps, &id) { continue; }
                                        let (x, y) = (n.0.get(&id), n.1.get(&id));
                                        if x & D != 0 { wa = true; }
                                        if y & D != 0 && x & F == 0 { wm = true; }
                                        if mutn() == 7 && x & F != 0 { continue; }
                                        n.0.set(&id, D);
                                        n.1.set(&id, D);
                                    }
                                    if u.record && wa { u.may.insert(("CWE415".into(), site.clone())); }
                                    if u.record && wm { u.must.insert(("CWE415".into(), site.clone())); }
                                }
                            } else {
                                let vals: Vec<V> = (0..sym.parameters.len()).map(argv).collect();
                                check_vals(u, &mut n, &vals, "CWE416", &site);
                            }
                        }
                        outs.push((idx[r], n));
                    } else if let Some((gpi, gmasks, gparams, gderef)) = callee {
                        // Call edge and return: the parameters the callee dereferences are checked
                        let mut n = mm.clone();
                        let ps = match pist { Some(ps) => ps, None => { continue; } };
                        let vals: Vec<V> = (if mutn() == 4 { gparams } else { gderef }).iter().map(|p| ps.regs.get(p).cloned()).collect();
                        check_vals(u, &mut n, &vals, "CWE416", &site);
                        let r = match return_ { Some(r) => r, None => continue };
                        // the renaming map exists if some returning block of the callee is alive in the pointer inference
                        if !gpi.ret_blocks.iter().any(|gb| gpi.end[*gb].is_some()) { continue; }
                        for gb in &gpi.ret_blocks {
                            let (gmay, _gmust) = match &gmasks[*gb] { Some(x) => x, None => continue };
                            let mut n2 = n.clone();
                            // every caller object some parameter of the callee points to
                            let mut objs: BTreeSet<Id> = BTreeSet::new();
                            for p in gparams { objs.extend(targets(&ps.regs.get(p).cloned())); }
                            for o in objs {
                                if (mutn() != 3 && o == Id::Obj(site.clone())) || !markable(ps, &o) { continue; }
                                let pp: Vec<&String> = gparams.iter().filter(|p| targets(&ps.regs.get(*p).cloned()).contains(&o)).collect();
                                let can_d_may = pp.iter().any(|p| gmay.get(&Id::Par((*p).clone())) & D != 0);
                                let can_d_must = pp.iter().any(|p| { let m = gmay.get(&Id::Par((*p).clone())); m & D != 0 && m & F == 0 });
                                let can_keep = pp.iter().all(|p| gmay.get(&Id::Par((*p).clone())) & (N | F) != 0);
                                let (x, y) = (n.0.get(&o), n.1.get(&o));
                                n2.0.set(&o, (if can_d_may { D } else { 0 }) | (if can_keep { x } else { 0 }));
                                n2.1.set(&o, (if can_d_must { D } else { 0 }) | (if can_keep || !can_d_must { y } else { 0 }));
                            }
                            outs.push((idx[r], n2));
                        }
                    }
                }
                _ => {}
            }
        }
        for (t, n) in outs {
            let m2 = match &start[t] { None => n, Some(old) => (old.0.merge(&n.0), old.1.merge(&n.1)) };
            if start[t].as_ref() != Some(&m2) { start[t] = Some(m2); if !work.contains(&t) { work.push(t); } }
        }
    }
    end
}

pub struct Verdict {
    pub may: BTreeSet<(String, String)>,
    pub must: BTreeSet<(String, String)>,
    pub oob: Vec<String>,
    pub dbg: String,
}

pub fn model(p: &Project, config: &Value) -> Verdict {
    let cc = p.calling_conventions.get("__stdcall").unwrap();
    let mut c = Ctx { p, x86: p.cpu_architecture.starts_with("x86"), oob: vec![], saved: cc.callee_saved_register.iter().map(|v| v.name.clone()).filter(|n| n != "RSP").collect(),
                      params: cc.integer_parameter_register.iter().map(|v| v.name.clone()).collect() };
    let nsubs = p.program.term.subs.len();
    let allp: BTreeSet<String> = c.params.iter().cloned().collect();
    let none = BTreeSet::new();
    // function signatures
    let (gsig, gflags) = if nsubs > 1 { let r = analyze(&mut c, 1, true, &allp, None, &none); let f = sig_flags(&r); (Some(r), f) } else { (None, BTreeSet::new()) };
    let fsig = analyze(&mut c, 0, true, &allp, gsig.as_ref(), &none);
    let fflags = sig_flags(&fsig);
    let gparams: BTreeSet<String> = gflags.iter().map(|(p, _)| p.clone()).collect();
    let gderef: BTreeSet<String> = gflags.iter().filter(|(_, k)| *k == 'd').map(|(p, _)| p.clone()).collect();
    let fparams: BTreeSet<String> = fflags.iter().map(|(p, _)| p.clone()).collect();
    // pointer inference
    let gpi = if nsubs > 1 { Some(analyze(&mut c, 1, false, &gparams, None, &none)) } else { None };
    let fpi = analyze(&mut c, 0, false, &fparams, gpi.as_ref(), &gparams);
    let dealloc: BTreeSet<String> = config["dealloc"].as_array().unwrap().iter().map(|x| x.as_str().unwrap().to_string()).collect();
    let dbg = format!("sig g: params {:?} deref {:?}; sig f: params {:?}\n", gparams, gderef, fparams);
    let oob = c.oob.clone();
    let mut u = Uaf { c: &c, dealloc, may: BTreeSet::new(), must: BTreeSet::new(), oob2: vec![], record: false };
    let gm = gpi.as_ref().map(|g| uaf_fn(&mut u, 1, g, None));
    match (&gpi, &gm) {
        (Some(g), Some(m)) => { uaf_fn(&mut u, 0, &fpi, Some((g, m, &gparams, &gderef))); }
        _ => { uaf_fn(&mut u, 0, &fpi, None); }
    }
    let mut oob = oob;
    oob.extend(u.oob2.iter().cloned());
    Verdict { may: u.may, must: u.must, oob, dbg }
}

fn listing(p: &Project) -> String {
    let mut s = String::new();
    for sub in p.program.term.subs.values() {
        s += &format!("{}:\n", sub.tid);
        for b in &sub.term.blocks {
            s += &format!("  {}:\n", b.tid);
            for d in &b.term.defs {
                s += &format!("    {}: {}\n", d.tid, match &d.term {
                    Def::Assign { var, value } => format!("{} := {}", var.name, value),
                    Def::Load { var, address } => format!("{} := load [{}]", var.name, address),
                    Def::Store { address, value } => format!("store [{}] := {}", address, value),
                });
            }
            for j in &b.term.jmps {
                s += &format!("    {}: {}\n", j.tid, match &j.term {
                    Jmp::Branch(t) => format!("goto {}", t),
                    Jmp::CBranch { target, .. } => format!("if ZF goto {}", target),
                    Jmp::Call { target, return_ } => format!("call {} ret {:?}", p.program.term.extern_symbols.get(target).map(|e| e.name.clone()).unwrap_or(target.to_string()), return_.as_ref().map(|t| t.to_string())),
                    Jmp::Return(_) => "return".to_string(),
                    _ => "?".to_string(),
                });
            }
        }
    }
    s
}

pub fn probe(out: &mut Out) {
    if std::env::var("X06_HAND").is_ok() { return hand_cases(); }
    if let Ok(f) = std::env::var("X06_ONE") { return debug_one(&f); }
    let mut rng = Rng::new(out.seed ^ 0x0A06);
    let n = out.size(2000, 20000);
    let (mut progs, mut inclass, mut mism, mut rep, mut exact, mut mayonly) = (0u64, 0u64, 0u64, 0u64, 0u64, 0u64);
    let show = std::env::var("X06_SHOW").ok().map(|s| s.parse::<u64>().unwrap_or(3)).unwrap_or(3);
    let mut oobs: BTreeMap<String, u64> = BTreeMap::new();
    for _ in 0..n {
        let mut r = rng.fork();
        let project = gen_project(&mut r, (6, 4, 4));
        let config = gen_config(&mut r);
        let ev = exec(&project, &config);
        progs += 1;
        if ev["panic"] != "" { continue; }
        let v = model(&project, &config);
        if !v.oob.is_empty() {
            *oobs.entry(v.oob[0].clone()).or_insert(0) += 1;
            if let Ok(k) = std::env::var("X06_OOB") { if v.oob[0].contains(&k) && oobs[&v.oob[0]] == 1 { eprintln!("### OOB {:?}\n{}", v.oob, listing(&project)); } }
            continue;
        }
        inclass += 1;
        let reported: BTreeSet<(String, String)> = ev["reported"].as_array().unwrap().iter().map(|w| (w["name"].as_str().unwrap().to_string(), w["tid"].as_str().unwrap().to_string())).collect();
        rep += reported.len() as u64;
        exact += v.must.len() as u64;
        mayonly += (v.may.len() - v.must.len()) as u64;
        if std::env::var("X06_LIST").is_ok() && progs <= 4 { eprintln!("### program {} config {}\n{}reported {:?}", progs, config, listing(&project), reported); }
        let ok = v.must.is_subset(&reported) && reported.is_subset(&v.may);
        if !ok {
            mism += 1;
            std::fs::write(format!("{}/mismatch{}.json", out.dir(), mism), serde_json::to_string(&ev).unwrap()).unwrap();
            if mism <= show {
                eprintln!("=== MISMATCH seed-state program #{} config {}\n{}", progs, config, listing(&project));
                eprintln!("reported {:?}\nmay      {:?}\nmust     {:?}\n{}", reported, v.may, v.must, v.dbg);
            }
        }
    }
    eprintln!("programs {} in-class {} mismatches {} reported {} must {} may-only {}", progs, inclass, mism, rep, exact, mayonly);
    eprintln!("out of class: {:?}", oobs);
    out.extra.insert("probe".into(), json!({"programs": progs, "inclass": inclass, "mismatches": mism}));
}

// ---------------------------------------------------------------------------------------------------
// hand-written programs (the same as in spec/mc/MC_UafWalk.tla) run through the real checker
// ---------------------------------------------------------------------------------------------------
use crate::irenc::mk_tid;
use crate::walkgen::{cconv_std, ebin, econst, evar, mk_extern, mk_project, reg, reg_arg, var};

pub enum H {
    Cp(&'static str, &'static str),
    Ld(&'static str, &'static str, i64),
    St(&'static str, i64),
    Spill(i64, &'static str),
    Reload(&'static str, i64),
    Zero(&'static str),
    Sp(i64),
    Flag,
}
pub enum J {
    Br(&'static str),
    Cb(&'static str, &'static str),
    Call(&'static str, &'static str),
    Ret,
}
pub fn hand(subs: Vec<(&'static str, Vec<(&'static str, Vec<H>, J)>)>) -> Project {
    let ext: Vec<ExternSymbol> = EXT.iter().map(|(name, np, ret)| mk_extern(name, ["RDI", "RSI", "RDX"][..*np].iter().map(|x| reg_arg(x)).collect(), if *ret { vec![reg_arg("RAX")] } else { vec![] }, *name == "exit", None)).collect();
    let mut m = BTreeMap::new();
    for (sname, blocks) in subs {
        let mut bl = Vec::new();
        for (bname, defs, j) in blocks {
            let mut n = 0;
            let mut tid = |n: &mut usize| { *n += 1; mk_tid(&format!("{}_{}", bname, *n - 1), bname) };
            let ds: Vec<Term<Def>> = defs.into_iter().map(|d| Term { tid: tid(&mut n), term: match d {
                H::Cp(a, b) => Def::Assign { var: reg(a), value: evar(b) },
                H::Ld(a, b, c) => Def::Load { var: reg(a), address: ebin(BinOpType::IntAdd, evar(b), econst(c)) },
                H::St(b, c) => Def::Store { address: ebin(BinOpType::IntAdd, evar(b), econst(c)), value: econst(1) },
                H::Spill(c, a) => Def::Store { address: ebin(BinOpType::IntAdd, evar("RSP"), econst(c)), value: evar(a) },
                H::Reload(a, c) => Def::Load { var: reg(a), address: ebin(BinOpType::IntAdd, evar("RSP"), econst(c)) },
                H::Zero(a) => Def::Assign { var: reg(a), value: econst(0) },
                H::Sp(c) => Def::Assign { var: reg("RSP"), value: ebin(BinOpType::IntAdd, evar("RSP"), econst(c)) },
                H::Flag => Def::Assign { var: var("ZF", 1), value: Expression::Unknown { description: "flag".into(), size: ByteSize::new(1) } },
            } }).collect();
            let js: Vec<Term<Jmp>> = match j {
                J::Br(t) => vec![Jmp::Branch(Tid::new(t))],
                J::Cb(t, e) => vec![Jmp::CBranch { target: Tid::new(t), condition: Expression::Var(var("ZF", 1)) }, Jmp::Branch(Tid::new(e))],
                J::Call(t, r) => vec![Jmp::Call { target: if t.starts_with("sub_") { Tid::new(t) } else { Tid::new(format!("extern_{}", t)) }, return_: if r.is_empty() { None } else { Some(Tid::new(r)) } }],
                J::Ret => vec![Jmp::Return(econst(0))],
            }.into_iter().map(|j| Term { tid: tid(&mut n), term: j }).collect();
            bl.push(Term { tid: Tid::new(bname), term: Blk { defs: ds, jmps: js, indirect_jmp_targets: vec![] } });
        }
        m.insert(Tid::new(sname), Term { tid: Tid::new(sname), term: Sub { name: sname.to_string(), blocks: bl, calling_convention: None } });
    }
    let program = Program { subs: m, extern_symbols: ext.iter().map(|e| (e.tid.clone(), e.clone())).collect(), entry_points: BTreeSet::new(), address_base_offset: 0 };
    mk_project(program, vec![cconv_std()])
}

pub fn hand_cases() {
    use H::*;
    let cfg = json!({"dealloc": ["free"], "full_path": true});
    let cases: Vec<(&str, Project)> = vec![
        ("uaf", hand(vec![("sub_f", vec![
            ("b0", vec![Sp(-8)], J::Call("malloc", "b1")),
            ("b1", vec![Cp("RBX", "RAX"), Cp("RDI", "RBX"), Sp(-8)], J::Call("free", "b2")),
            ("b2", vec![Ld("R10", "RBX", 8), St("RBX", 0), Sp(8)], J::Ret)])])),
    ];
    for (name, p) in cases {
        let ev = exec(&p, &cfg);
        let v = model(&p, &cfg);
        eprintln!("--- {}\n{}reported {}\nmay {:?}\nmust {:?}\noob {:?}\n{}", name, listing(&p), ev["reported"], v.may, v.must, v.oob, v.dbg);
    }
}

/// debugging: run the pipeline on one recorded project and print the pointer inference's states and signatures
pub fn debug_one(path: &str) {
    use cwe_checker_lib::analysis::graph::get_program_cfg;
    use cwe_checker_lib::pipeline::AnalysisResults;
    let text = std::fs::read_to_string(path).unwrap();
    let v: Value = serde_json::from_str(&text).unwrap();
    let project = crate::walkgen::dec::project(&v["project"]);
    let config = v["config"].clone();
    eprintln!("{}", listing(&project));
    let graph = get_program_cfg(&project.program);
    let binary: Vec<u8> = Vec::new();
    let results = AnalysisResults::new(&binary, &graph, &project);
    let (fn_sigs, _logs) = results.compute_function_signatures();
    for (t, s) in &fn_sigs { eprintln!("fnsig {}: {}", t, s.to_json_compact()); }
    let results = results.with_function_signatures(Some(&fn_sigs));
    let pi = results.compute_pointer_inference(&json!({"allocation_symbols": ["malloc", "calloc", "realloc", "xmalloc", "strdup"]}), false);
    eprintln!("{:#}", pi.generate_compact_json());
    let results = results.with_pointer_inference(Some(&pi));
    let module = cwe_checker_lib::get_modules().into_iter().find(|m| m.name == "CWE416").unwrap();
    let (logs, ws) = (module.run)(&results, &real_config(&config));
    for l in logs { eprintln!("log: {}", l); }
    for w in ws { eprintln!("warning: {} {:?} {:?}", w.name, w.tids, w.other); }
    let m = model(&project, &config);
    eprintln!("may {:?}\nmust {:?}\noob {:?}\n{}", m.may, m.must, m.oob, m.dbg);
}
