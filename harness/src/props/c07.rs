//! C07: the worklist fixpoint solver (`analysis::fixpoint::Computation`) observed through a
//! user-supplied, logging `fixpoint::Context`.
//!
//! The harness generates fixpoint problems (graph, finite join-semilattice as a join table, one
//! table-driven transfer per edge incl. blocking ones, start values, default value, priority list,
//! step bound), runs the REAL solver and records what it does: every `update_edge` and `merge`
//! call-back and the end state (`node_values`, `get_worklist`, `has_stabilized`).  Whether the run is
//! a run of the chaotic-iteration machine ending in the least solution is decided by TLC
//! (spec/trace/T_C07.tla over spec/Fixpoint.tla), never here.
//!
//! Wire format (all node / edge / lattice numbers 1-based, 0 = None):
//!   reset{n, edges[[src,dst]], join[[..]], tr[[..]], start[..], default, maxsteps(-1 = compute()),
//!         mode "new"|"prio"|"bottom_up"|"top_down", prio[..], prog[[[kind,a,b]..]..]}
//!   edge{e, in}   merge{a, b, out}   end{vals[..], worklist[..], stabilized, panic}
//!
//! sub = ""   random problems (gen) ;  sub = "mc"  problems exported by the model-checking
//! instance MC_Fixpoint (file named by $C07_CONFIGS), replayed on the real solver under every
//! priority permutation (spec -> impl direction).
use crate::out::{catch, Out};
use crate::rng::Rng;
use cwe_checker_lib::analysis::fixpoint::{Computation, Context};
use cwe_checker_lib::analysis::forward_interprocedural_fixpoint::{create_bottom_up_worklist, create_top_down_worklist};
use cwe_checker_lib::analysis::graph::get_program_cfg;
use cwe_checker_lib::intermediate_representation::*;
use petgraph::graph::{DiGraph, EdgeIndex, NodeIndex};
use petgraph::visit::EdgeRef;
use serde_json::{json, Value};
use std::cell::{Cell, RefCell};
use std::collections::{BTreeMap, BTreeSet};
use std::panic::AssertUnwindSafe;
use std::rc::Rc;

/// A solver that does not terminate is stopped by a panic of the call-back (recorded in `end.panic`).
/// A node is re-queued only when its value grew, i.e. at most (height of the lattice) <= 3 times, so a
/// problem with m edges needs at most 4*m update_edge and 4*m merge calls (m <= 40): the budget is far
/// above that for every generated problem.  Only the first LOG_CAP call-backs are recorded.
const CALL_BUDGET: u64 = 5_000;
const LOG_CAP: usize = 1_000;
pub const BUDGET_MSG: &str = "harness: call-back budget exceeded (the solver does not terminate)";

struct Ctx {
    graph: DiGraph<(), ()>,
    tr: Vec<Vec<u8>>,
    join: Vec<Vec<u8>>,
    log: Rc<RefCell<Vec<Value>>>,
    calls: Cell<u64>,
}

impl Ctx {
    fn record(&self, ev: Value) {
        let mut log = self.log.borrow_mut();
        if log.len() < LOG_CAP {
            log.push(ev);
        }
    }
    fn tick(&self) {
        self.calls.set(self.calls.get() + 1);
        if self.calls.get() > CALL_BUDGET {
            panic!("{}", BUDGET_MSG);
        }
    }
}

impl Context for Ctx {
    type EdgeLabel = ();
    type NodeLabel = ();
    type NodeValue = u8;

    fn get_graph(&self) -> &DiGraph<(), ()> {
        &self.graph
    }
    fn merge(&self, a: &u8, b: &u8) -> u8 {
        self.tick();
        let out = self.join[*a as usize - 1][*b as usize - 1];
        self.record(json!({"ev": "merge", "a": *a, "b": *b, "out": out}));
        out
    }
    fn update_edge(&self, value: &u8, edge: EdgeIndex) -> Option<u8> {
        self.tick();
        self.record(json!({"ev": "edge", "e": edge.index() + 1, "in": *value}));
        match self.tr[edge.index()][*value as usize - 1] {
            0 => None,
            v => Some(v),
        }
    }
}

fn u8s(v: &Value) -> Vec<u8> {
    v.as_array().unwrap().iter().map(|x| x.as_u64().unwrap() as u8).collect()
}
fn table(v: &Value) -> Vec<Vec<u8>> {
    v.as_array().unwrap().iter().map(u8s).collect()
}

// ------------------------------------------------------------------------------------------------
// CFG-shaped problems: a small program, its interprocedural CFG (the graph of the problem) and the
// bottom-up / top-down worklist orders of forward_interprocedural_fixpoint.rs
// ------------------------------------------------------------------------------------------------
/// prog = one entry per sub = list of blocks [kind, a, b]:
/// 0 return | 1 branch to block a | 2 cbranch to block a, else branch to block b |
/// 3 call sub a, return to block b (b = -1: no return site) | 4 no jump at all
fn build_program(prog: &Value) -> Term<Program> {
    let flag = Expression::Var(Variable { name: "ZF".into(), size: ByteSize::new(1), is_temp: false });
    let blk_tid = |s: usize, b: i64| Tid::new(format!("blk_{}_{}", s, b));
    let sub_tid = |s: i64| Tid::new(format!("sub_{}", s));
    let mut subs = BTreeMap::new();
    for (s, blocks) in prog.as_array().unwrap().iter().enumerate() {
        let mut blks = Vec::new();
        for (b, spec) in blocks.as_array().unwrap().iter().enumerate() {
            let k = spec[0].as_i64().unwrap();
            let a = spec[1].as_i64().unwrap();
            let c = spec[2].as_i64().unwrap();
            let jt = |i: usize| Tid::new(format!("jmp_{}_{}_{}", s, b, i));
            let jmps = match k {
                0 => vec![Term { tid: jt(0), term: Jmp::Return(flag.clone()) }],
                1 => vec![Term { tid: jt(0), term: Jmp::Branch(blk_tid(s, a)) }],
                2 => vec![
                    Term { tid: jt(0), term: Jmp::CBranch { target: blk_tid(s, a), condition: flag.clone() } },
                    Term { tid: jt(1), term: Jmp::Branch(blk_tid(s, c)) },
                ],
                3 => vec![Term {
                    tid: jt(0),
                    term: Jmp::Call { target: sub_tid(a), return_: if c >= 0 { Some(blk_tid(s, c)) } else { None } },
                }],
                _ => vec![],
            };
            blks.push(Term { tid: blk_tid(s, b as i64), term: Blk { defs: vec![], jmps, indirect_jmp_targets: vec![] } });
        }
        let tid = sub_tid(s as i64);
        subs.insert(tid.clone(), Term { tid, term: Sub { name: format!("sub_{}", s), blocks: blks, calling_convention: None } });
    }
    Term {
        tid: Tid::new("prog"),
        term: Program { subs, extern_symbols: BTreeMap::new(), entry_points: BTreeSet::new(), address_base_offset: 0 },
    }
}

fn gen_prog(rng: &mut Rng) -> Value {
    let nsubs = rng.range(1, 3) as usize;
    let nblocks: Vec<usize> = (0..nsubs).map(|_| rng.range(1, if nsubs == 1 { 3 } else { 2 }) as usize).collect();
    let mut prog = Vec::new();
    for s in 0..nsubs {
        let mut blocks = Vec::new();
        for b in 0..nblocks[s] {
            let nb = nblocks[s] as i64;
            let spec = match rng.below(10) {
                0..=2 => json!([0, 0, 0]),
                3..=4 => json!([1, rng.range(0, nb - 1), 0]),
                5 => json!([2, rng.range(0, nb - 1), rng.range(0, nb - 1)]),
                6..=8 => {
                    let ret = if rng.chance(1, 5) { -1 } else { rng.range(0, nb - 1) };
                    json!([3, rng.range(0, nsubs as i64 - 1), ret])
                }
                _ => json!([4, 0, 0]),
            };
            let _ = b;
            blocks.push(spec);
        }
        prog.push(Value::Array(blocks));
    }
    Value::Array(prog)
}

/// (n, edges 1-based) of the CFG of `prog`, in the node / edge index order of the real graph
fn cfg_shape(prog: &Value) -> (usize, Vec<(usize, usize)>) {
    let program = build_program(prog);
    let g = get_program_cfg(&program);
    let edges = g.edge_references().map(|e| (e.source().index() + 1, e.target().index() + 1)).collect();
    (g.node_count(), edges)
}

// ------------------------------------------------------------------------------------------------
// one run of the real solver
// ------------------------------------------------------------------------------------------------
/// Execute the run described by a reset event on the real solver; returns the events of the case
/// (the reset event with the priority list filled in, the call-backs, the end event).
pub fn exec(reset: &Value) -> Vec<Value> {
    let n = reset["n"].as_u64().unwrap() as usize;
    let edges: Vec<(usize, usize)> = reset["edges"]
        .as_array()
        .unwrap()
        .iter()
        .map(|e| (e[0].as_u64().unwrap() as usize, e[1].as_u64().unwrap() as usize))
        .collect();
    let start = u8s(&reset["start"]);
    let default = reset["default"].as_u64().unwrap() as u8;
    let maxsteps = reset["maxsteps"].as_i64().unwrap();
    let mode = reset["mode"].as_str().unwrap().to_string();
    let mut graph: DiGraph<(), ()> = DiGraph::new();
    for _ in 0..n {
        graph.add_node(());
    }
    for (s, d) in &edges {
        graph.add_edge(NodeIndex::new(s - 1), NodeIndex::new(d - 1), ());
    }
    let log = Rc::new(RefCell::new(Vec::new()));
    let ctx = Ctx { graph, tr: table(&reset["tr"]), join: table(&reset["join"]), log: log.clone(), calls: Cell::new(0) };
    let default_value = if default == 0 { None } else { Some(default) };
    let mut panic_msg = String::new();
    let mut reset_out = reset.clone();

    // construction: Computation::new (SCC order) or from_node_priority_list
    let built = catch(AssertUnwindSafe(|| match mode.as_str() {
        "new" => (Computation::new(ctx, default_value), Vec::new()),
        "prio" => {
            let prio: Vec<NodeIndex> = u8s(&reset["prio"]).iter().map(|v| NodeIndex::new(*v as usize - 1)).collect();
            (Computation::from_node_priority_list(ctx, default_value, prio.clone()), prio)
        }
        _ => {
            // the order is computed by the real code from the real CFG of the recorded program
            let program = build_program(&reset["prog"]);
            let cfg = get_program_cfg(&program);
            let prio = if mode == "bottom_up" { create_bottom_up_worklist(&cfg) } else { create_top_down_worklist(&cfg) };
            (Computation::from_node_priority_list(ctx, default_value, prio.clone()), prio)
        }
    }));
    let mut end = json!({"ev": "end", "vals": [], "worklist": [], "stabilized": false, "panic": ""});
    match built {
        Err(p) => panic_msg = format!("construction: {}", p),
        Ok((mut comp, prio)) => {
            if mode != "new" {
                reset_out["prio"] = json!(prio.iter().map(|v| v.index() + 1).collect::<Vec<_>>());
            }
            let r = catch(AssertUnwindSafe(|| {
                for (i, v) in start.iter().enumerate() {
                    if *v != 0 {
                        comp.set_node_value(NodeIndex::new(i), *v);
                    }
                }
                if maxsteps < 0 {
                    comp.compute();
                } else {
                    comp.compute_with_max_steps(maxsteps as u64);
                }
                let vals: Vec<u8> = (0..n).map(|i| comp.get_node_value(NodeIndex::new(i)).copied().unwrap_or(0)).collect();
                // node_values() must agree with get_node_value(); extra keys would be values of non-existing nodes
                let extra = comp.node_values().keys().filter(|k| k.index() >= n).count();
                let wl: Vec<usize> = comp.get_worklist().iter().map(|v| v.index() + 1).collect();
                (vals, wl, comp.has_stabilized(), extra)
            }));
            match r {
                Ok((vals, wl, stab, extra)) => {
                    end["vals"] = json!(vals);
                    end["worklist"] = json!(wl);
                    end["stabilized"] = json!(stab);
                    if extra > 0 {
                        panic_msg = format!("node_values() contains {} entries for non-existing nodes", extra);
                    }
                }
                Err(p) => panic_msg = p,
            }
        }
    }
    end["panic"] = json!(panic_msg);
    let mut evs = vec![reset_out];
    evs.extend(log.borrow().iter().cloned());
    evs.push(end);
    evs
}

// ------------------------------------------------------------------------------------------------
// generators
// ------------------------------------------------------------------------------------------------
/// The lattices: join tables over elements 1..K.
fn lattices() -> Vec<(&'static str, Vec<Vec<u8>>)> {
    // from an order given as "upper bounds" relation: leq[a][b]
    fn from_leq(k: usize, leq: &dyn Fn(usize, usize) -> bool) -> Vec<Vec<u8>> {
        let mut t = vec![vec![0u8; k]; k];
        for a in 0..k {
            for b in 0..k {
                // least upper bound: the upper bound that is below all upper bounds
                let ubs: Vec<usize> = (0..k).filter(|u| leq(a, *u) && leq(b, *u)).collect();
                let lub = ubs.iter().find(|u| ubs.iter().all(|w| leq(**u, *w))).expect("not a join-semilattice");
                t[a][b] = *lub as u8 + 1;
            }
        }
        t
    }
    let m3 = |a: usize, b: usize| a == b || a == 0 || b == 4;
    // pentagon N5: 0 < 1 < 2 < 4, 0 < 3 < 4
    let n5 = |a: usize, b: usize| a == b || a == 0 || b == 4 || (a == 1 && b == 2);
    // join-semilattice without bottom: two incomparable elements below a top
    let vee = |a: usize, b: usize| a == b || b == 2;
    vec![
        ("pow2", from_leq(4, &|a, b| a & b == a)),
        ("pow3", from_leq(8, &|a, b| a & b == a)),
        ("chain4", from_leq(4, &|a, b| a <= b)),
        ("m3", from_leq(5, &m3)),
        ("n5", from_leq(5, &n5)),
        ("vee", from_leq(3, &vee)),
    ]
}

fn leq(join: &[Vec<u8>], a: u8, b: u8) -> bool {
    join[a as usize - 1][b as usize - 1] == b
}

/// A random transfer table that is monotone in the extended order (None below everything):
/// enabled on an up-closed set U (everything / nothing / the elements above one or two generators),
/// and on U the join of a random map over the enabled elements below the argument.
/// (Whether the result really is monotone is checked by TLC: Fixpoint!InClass.)
fn gen_transfer(rng: &mut Rng, join: &[Vec<u8>]) -> Vec<u8> {
    let k = join.len();
    let elems: Vec<u8> = (1..=k as u8).collect();
    match rng.below(12) {
        0 => return elems.clone(),                      // identity
        1 => return vec![0; k],                         // blocked edge
        2 => return vec![*rng.pick(&elems); k],         // constant
        _ => {}
    }
    let gens: Vec<u8> = match rng.below(10) {
        0..=5 => vec![],                                // enabled everywhere
        6..=8 => vec![*rng.pick(&elems)],
        _ => vec![*rng.pick(&elems), *rng.pick(&elems)],
    };
    let enabled = |x: u8| gens.is_empty() || gens.iter().any(|g| leq(join, *g, x));
    let raw: Vec<u8> = (0..k).map(|_| *rng.pick(&elems)).collect();
    // bias towards small images so that fixpoints are not always the top element
    let raw: Vec<u8> = if rng.chance(1, 2) {
        let lo = *rng.pick(&elems);
        raw.iter().map(|r| if rng.chance(1, 2) { lo } else { *r }).collect()
    } else {
        raw
    };
    elems
        .iter()
        .map(|x| {
            if !enabled(*x) {
                return 0;
            }
            let mut acc = 0u8;
            for y in &elems {
                if enabled(*y) && leq(join, *y, *x) {
                    let r = raw[*y as usize - 1];
                    acc = if acc == 0 { r } else { join[acc as usize - 1][r as usize - 1] };
                }
            }
            acc
        })
        .collect()
}

fn gen_edges(rng: &mut Rng, n: usize) -> Vec<(usize, usize)> {
    let mut edges = Vec::new();
    let style = rng.below(4);
    if style == 0 && n > 1 {
        // a chain with back edges (loops)
        for i in 1..n {
            edges.push((i, i + 1));
        }
        for _ in 0..rng.range(1, 3) {
            let a = rng.range(1, n as i64) as usize;
            let b = rng.range(1, a as i64) as usize;
            edges.push((a, b));
        }
    }
    let m = match style {
        0 => rng.range(0, 3),
        1 => rng.range(0, n as i64),
        2 => rng.range(n as i64, 2 * n as i64),
        _ => rng.range(n as i64, (3 * n as i64).min(30)),
    };
    for _ in 0..m {
        let a = rng.range(1, n as i64) as usize;
        let b = if rng.chance(1, 8) { a } else { rng.range(1, n as i64) as usize };
        edges.push((a, b)); // parallel edges and self-loops are allowed
    }
    rng.shuffle(&mut edges);
    edges
}

struct Problem {
    n: usize,
    edges: Vec<(usize, usize)>,
    join: Vec<Vec<u8>>,
    tr: Vec<Vec<u8>>,
    start: Vec<u8>,
    default: u8,
    prog: Value,
}

fn gen_problem(rng: &mut Rng, n: usize, prog: Option<Value>) -> Problem {
    let lats = lattices();
    let (_, join) = rng.pick(&lats).clone();
    let k = join.len() as i64;
    let (n, edges, prog) = match prog {
        Some(p) => {
            let (n, e) = cfg_shape(&p);
            (n, e, p)
        }
        None => (n, gen_edges(rng, n), json!([])),
    };
    let tr = edges.iter().map(|_| gen_transfer(rng, &join)).collect();
    let default = if rng.chance(1, 3) { rng.range(1, k) as u8 } else { 0 };
    let mut start = vec![0u8; n];
    let nstart = if default != 0 && rng.chance(1, 3) { 0 } else { rng.range(1, 1 + n as i64 / 3) };
    for _ in 0..nstart {
        let v = rng.below(n as u64) as usize;
        // low elements more often, so that there is something left to compute
        start[v] = if rng.chance(1, 2) { 1 } else { rng.range(1, k) as u8 };
    }
    Problem { n, edges, join, tr, start, default, prog }
}

fn reset_event(p: &Problem, mode: &str, prio: &[usize], maxsteps: i64) -> Value {
    json!({"ev": "reset", "n": p.n, "edges": p.edges.iter().map(|(a, b)| json!([a, b])).collect::<Vec<_>>(),
           "join": p.join, "tr": p.tr, "start": p.start, "default": p.default, "maxsteps": maxsteps,
           "mode": mode, "prio": prio, "prog": p.prog})
}

/// harness-computed feature tag (only counted): some node was processed more than once, or the step
/// bound left nodes unstabilised
fn nontrivial(evs: &[Value]) -> bool {
    let m = evs[0]["edges"].as_array().unwrap().len();
    let calls = evs.iter().filter(|e| e["ev"] == "edge").count();
    let end = evs.last().unwrap();
    calls > m || !end["worklist"].as_array().unwrap().is_empty()
}

fn permutations(n: usize) -> Vec<Vec<usize>> {
    fn go(cur: &mut Vec<usize>, used: &mut Vec<bool>, n: usize, out: &mut Vec<Vec<usize>>) {
        if cur.len() == n {
            out.push(cur.clone());
            return;
        }
        for i in 0..n {
            if !used[i] {
                used[i] = true;
                cur.push(i + 1);
                go(cur, used, n, out);
                cur.pop();
                used[i] = false;
            }
        }
    }
    let mut out = Vec::new();
    go(&mut Vec::new(), &mut vec![false; n], n, &mut out);
    out
}

fn run(out: &mut Out, p: &Problem, mode: &str, prio: &[usize], maxsteps: i64, stats: &mut Stats) {
    let evs = exec(&reset_event(p, mode, prio, maxsteps));
    let nt = nontrivial(&evs);
    stats.runs += 1;
    stats.max_events = stats.max_events.max(evs.len() as u64);
    if !evs.last().unwrap()["worklist"].as_array().unwrap().is_empty() {
        stats.unstabilized += 1;
    }
    out.emit(evs, nt);
}

#[derive(Default)]
struct Stats {
    runs: u64,
    unstabilized: u64,
    max_events: u64,
    problems: u64,
    exhaustive_perm_problems: u64,
    cfg_problems: u64,
}

/// All runs of one problem under one construction: compute() and compute_with_max_steps(k)
fn bounds_for(rng: &mut Rng, all: bool) -> Vec<i64> {
    if all {
        vec![-1, 1, 2, 3, 100]
    } else {
        vec![-1, *rng.pick(&[1i64, 1, 2, 2, 3, 100])]
    }
}

fn gen_random(out: &mut Out) {
    let mut rng = Rng::new(out.seed ^ 0xC07);
    let mut st = Stats::default();
    // (node count, number of problems, all permutations?)  -- quick / thorough
    let plan: Vec<(usize, u64, bool)> = if out.quick() {
        vec![(1, 2, true), (2, 8, true), (3, 12, true), (4, 8, true), (5, 2, true), (6, 1, true),
             (7, 8, false), (8, 8, false), (9, 8, false), (10, 8, false), (11, 8, false), (12, 10, false)]
    } else {
        vec![(1, 2, true), (2, 30, true), (3, 60, true), (4, 40, true), (5, 10, true), (6, 3, true),
             (7, 30, false), (8, 30, false), (9, 30, false), (10, 30, false), (11, 30, false), (12, 40, false)]
    };
    for (n, count, all_perms) in plan {
        for _ in 0..count {
            let p = gen_problem(&mut rng, n, None);
            st.problems += 1;
            // Computation::new (SCC order), every bound
            for b in bounds_for(&mut rng, true) {
                run(out, &p, "new", &[], b, &mut st);
            }
            if all_perms {
                st.exhaustive_perm_problems += 1;
                // every bound for every permutation where that is cheap, else compute() + one bound
                let all_bounds = n <= 3 || (!out.quick() && n <= 4);
                for (pi, perm) in permutations(n).iter().enumerate() {
                    if out.quick() && n >= 5 {
                        // 120 / 720 permutations: alternate compute() and one bound
                        let b = if pi % 2 == 0 { -1 } else { *rng.pick(&[1i64, 2, 3]) };
                        run(out, &p, "prio", perm, b, &mut st);
                        continue;
                    }
                    for b in bounds_for(&mut rng, all_bounds) {
                        run(out, &p, "prio", perm, b, &mut st);
                    }
                }
            } else {
                let nperm = if out.quick() { 8 } else { 40 };
                for _ in 0..nperm {
                    let mut perm: Vec<usize> = (1..=n).collect();
                    rng.shuffle(&mut perm);
                    for b in bounds_for(&mut rng, false) {
                        run(out, &p, "prio", &perm, b, &mut st);
                    }
                }
            }
        }
    }
    // CFG-shaped graphs with the bottom-up / top-down orders of forward_interprocedural_fixpoint.rs
    let ncfg = out.size(25, 200);
    let mut made = 0;
    while made < ncfg {
        let prog = gen_prog(&mut rng);
        let (n, _) = cfg_shape(&prog);
        if n > 14 {
            continue;
        }
        made += 1;
        let p = gen_problem(&mut rng, n, Some(prog));
        st.problems += 1;
        st.cfg_problems += 1;
        for mode in ["bottom_up", "top_down", "new"] {
            for b in bounds_for(&mut rng, true) {
                run(out, &p, mode, &[], b, &mut st);
            }
        }
    }
    out.extra.insert("problems".into(), json!(st.problems));
    out.extra.insert("problems_with_all_permutations".into(), json!(st.exhaustive_perm_problems));
    out.extra.insert("cfg_shaped_problems".into(), json!(st.cfg_problems));
    out.extra.insert("runs_with_nonempty_final_worklist".into(), json!(st.unstabilized));
    out.extra.insert("max_events_per_run".into(), json!(st.max_events));
}

/// spec -> impl: problems exported by TLC from the model-checking instance (one JSON object per
/// line: n, edges, join, tr, start, default, maxsteps), run under Computation::new and every
/// priority permutation.
fn gen_mc(out: &mut Out) {
    let path = std::env::var("C07_CONFIGS").expect("C07_CONFIGS");
    let text = std::fs::read_to_string(&path).expect("config dump");
    let lines: Vec<&str> = text.lines().filter(|l| !l.trim().is_empty()).collect();
    let limit: usize = std::env::var("C07_MC_SAMPLE").ok().and_then(|s| s.parse().ok()).unwrap_or(usize::MAX);
    let mut idx: Vec<usize> = (0..lines.len()).collect();
    let mut rng = Rng::new(out.seed ^ 0xC07C);
    if limit < lines.len() {
        rng.shuffle(&mut idx);
        idx.truncate(limit);
        idx.sort();
    }
    let mut problems = 0u64;
    for i in &idx {
        let c: Value = serde_json::from_str(lines[*i]).expect("config json");
        let n = c["n"].as_u64().unwrap() as usize;
        let mut base = c.clone();
        base["ev"] = json!("reset");
        base["prog"] = json!([]);
        problems += 1;
        let mut variants: Vec<(String, Vec<usize>)> = vec![("new".into(), vec![])];
        for perm in permutations(n) {
            variants.push(("prio".into(), perm));
        }
        for (mode, prio) in variants {
            let mut r = base.clone();
            r["mode"] = json!(mode);
            r["prio"] = json!(prio);
            let evs = exec(&r);
            let nt = nontrivial(&evs);
            out.emit(evs, nt);
        }
    }
    out.extra.insert("mc_configs_total".into(), json!(lines.len()));
    out.extra.insert("mc_configs_replayed".into(), json!(problems));
}

pub fn gen(out: &mut Out, sub: &str) {
    match sub {
        "mc" => gen_mc(out),
        _ => gen_random(out),
    }
}

/// Re-execute the recorded run: everything needed is in its reset event.
pub fn replay(run: &[Value], _sub: &str) -> Vec<Value> {
    match run.iter().find(|e| e["ev"] == "reset") {
        Some(r) => exec(r),
        None => Vec::new(),
    }
}
