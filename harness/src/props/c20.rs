//! C20: `utils::arguments::parse_format_string_parameters` (with `Datatype::from`,
//! `DatatypeProperties::get_size_from_data_type`) against the format-string grammar machine
//! spec/FormatString.tla.
//!
//! One event per call: {"ev":"fmt","src","tokens","text","sizes","ok","result","panic",...}.
//!   sub ""    (impl -> spec): token sequences drawn here over the FULL supported grammar (all 45
//!             conversion/length forms, every flag, random widths/precisions, literal text biased to
//!             characters that look like parts of a conversion, escapes); the text is the mechanical
//!             concatenation (T_C20 re-checks text = Text(tokens)).
//!   sub "tlc" (spec -> impl): behaviours of the generative machine enumerated/simulated by TLC
//!             (file named by $VERIF_C20_BEHAVIOURS, one {"tokens","text"} per line); the TEXT printed
//!             by TLC is fed to the real parser.
//! Nothing is decided here; spec/trace/T_C20.tla judges result = Expect(tokens).
use crate::out::{catch, Out};
use crate::rng::Rng;
use cwe_checker_lib::intermediate_representation::*;
use cwe_checker_lib::utils::arguments::parse_format_string_parameters;
use serde_json::{json, Value};

const SIZE_FIELDS: [&str; 9] = ["char", "double", "float", "integer", "long_double", "long_long", "long", "pointer", "short"];

fn props_from(sizes: &Value) -> DatatypeProperties {
    let g = |k: &str| ByteSize::new(sizes[k].as_u64().unwrap());
    DatatypeProperties {
        char_size: g("char"),
        double_size: g("double"),
        float_size: g("float"),
        integer_size: g("integer"),
        long_double_size: g("long_double"),
        long_long_size: g("long_long"),
        long_size: g("long"),
        pointer_size: g("pointer"),
        short_size: g("short"),
    }
}

fn cps(s: &str) -> Vec<u32> {
    s.chars().map(|c| c as u32).collect()
}

fn string_of(cp: &[u32]) -> String {
    cp.iter().map(|c| char::from_u32(*c).expect("code point")).collect()
}

fn cp_array(v: &Value) -> Vec<u32> {
    v.as_array().unwrap().iter().map(|x| x.as_u64().unwrap() as u32).collect()
}

const FORMS: [&str; 45] = [
    "c", "C", "d", "i", "o", "u", "x", "X", "e", "E", "f", "F", "g", "G", "a", "A", "n", "p", "s", "S", "hi", "hd", "hu",
    "lf", "lg", "le", "la", "lF", "lG", "lE", "lA", "li", "ld", "lu", "lli", "lld", "llu", "Lf", "Lg", "Le", "La", "LF",
    "LG", "LE", "LA",
];

/// Feature tag only (known-finding matching / counting): some escape is directly followed by literal
/// text that reads like `[flag] digits [. digits] form`.
fn esc_glued(tokens: &[Value]) -> bool {
    for (i, t) in tokens.iter().enumerate() {
        if t["k"] != "esc" {
            continue;
        }
        let lit: Vec<char> = tokens[i + 1..]
            .iter()
            .take_while(|t| t["k"] == "lit")
            .map(|t| char::from_u32(t["c"].as_u64().unwrap() as u32).unwrap())
            .collect();
        let mut j = 0;
        if j < lit.len() && "+-#0".contains(lit[j]) {
            j += 1;
        }
        // the real regex's \d is Unicode aware; so is this tag
        while j < lit.len() && lit[j].is_numeric() { j += 1 }
        if j < lit.len() && lit[j] == '.' { j += 1 }
        while j < lit.len() && lit[j].is_numeric() { j += 1 }
        let rest: String = lit[j..].iter().collect();
        if FORMS.iter().any(|f| rest.starts_with(f)) {
            return true;
        }
    }
    false
}

/// Call the real parser on `text` and build the event.
fn exec(src: &str, tokens: &Value, text: &[u32], sizes: &Value) -> Value {
    let s = string_of(text);
    let props = props_from(sizes);
    let r = catch(move || {
        parse_format_string_parameters(&s, &props)
            .map(|v| v.into_iter().map(|(t, sz)| json!({"t": format!("{:?}", t), "s": u64::from(sz)})).collect::<Vec<Value>>())
            .map_err(|_| ())
    });
    let (ok, result, panic) = match r {
        Ok(Ok(v)) => (true, v, String::new()),
        Ok(Err(())) => (false, Vec::new(), String::new()),
        Err(p) => (false, Vec::new(), p),
    };
    let toks = tokens.as_array().unwrap();
    json!({"ev": "fmt", "src": src, "tokens": tokens, "text": text, "sizes": sizes, "ok": ok, "result": result,
           "panic": panic, "esc_glued": esc_glued(toks),
           // for human readers only (non-printable characters shown as '?')
           "str": string_of(text).chars().map(|c| if (' '..='~').contains(&c) { c } else { '?' }).collect::<String>()})
}

// ---------------------------------------------------------------------------------------------
// generator over the full grammar
// ---------------------------------------------------------------------------------------------
fn lit_tok(c: char) -> Value {
    json!({"k": "lit", "c": c as u32, "flag": [], "width": [], "prec": [], "spec": []})
}
fn esc_tok() -> Value {
    json!({"k": "esc", "c": 0, "flag": [], "width": [], "prec": [], "spec": []})
}
fn digits(rng: &mut Rng, n: u64) -> String {
    (0..n).map(|_| char::from(b'0' + rng.below(10) as u8)).collect()
}
fn conv_tok(rng: &mut Rng) -> (Value, String) {
    let flag = if rng.chance(1, 2) { String::new() } else { rng.pick(&["+", "-", "#", "0"]).to_string() };
    let width = if rng.chance(1, 2) { String::new() } else { let n = 1 + rng.below(3); digits(rng, n) };
    let prec = match rng.below(20) {
        0..=9 => String::new(),
        10..=12 => ".".to_string(),
        _ => { let n = 1 + rng.below(3); format!(".{}", digits(rng, n)) }
    };
    // forms 0..31 are locatable, 31.. are the long / long long / long double forms
    let spec = if rng.chance(9, 10) { FORMS[rng.below(31) as usize] } else { FORMS[31 + rng.below(14) as usize] };
    let text = format!("%{}{}{}{}", flag, width, prec, spec);
    (json!({"k": "conv", "c": 0, "flag": cps(&flag), "width": cps(&width), "prec": cps(&prec), "spec": cps(spec)}), text)
}

fn lit_char(rng: &mut Rng) -> char {
    const LOOKALIKE: &[u8] = b"dsxlhLcfniuoeEgGaApSnCXF.0123456789+-#";
    const PLAIN: &[u8] = b" abyz/:,;=_()[]{}<>\"'\\\n\t!?*$&@^~|`";
    match rng.below(20) {
        0..=10 => LOOKALIKE[rng.below(LOOKALIKE.len() as u64) as usize] as char,
        11..=16 => PLAIN[rng.below(PLAIN.len() as u64) as usize] as char,
        17 => *rng.pick(&['ä', '€', '漢', '😀', '\u{663}', '\u{ff15}', '\u{0}', '\u{7f}', '\u{10ffff}']),
        _ => {
            // any scalar value except '%'
            loop {
                let c = rng.below(0x11_0000) as u32;
                if let Some(ch) = char::from_u32(c) {
                    if ch != '%' { return ch }
                }
            }
        }
    }
}

fn sizes(rng: &mut Rng) -> Value {
    match rng.below(4) {
        0 => json!({"char": 1, "double": 8, "float": 4, "integer": 4, "long_double": 16, "long_long": 8, "long": 8, "pointer": 8, "short": 2}),
        1 => json!({"char": 1, "double": 8, "float": 4, "integer": 4, "long_double": 8, "long_long": 8, "long": 4, "pointer": 4, "short": 2}),
        2 => {
            // pairwise different, so a wrong table entry cannot hide
            let mut v: Vec<u64> = (1..=16).collect();
            rng.shuffle(&mut v);
            Value::Object(SIZE_FIELDS.iter().zip(v).map(|(k, s)| (k.to_string(), json!(s))).collect())
        }
        _ => Value::Object(SIZE_FIELDS.iter().map(|k| (k.to_string(), json!(1 + rng.below(16)))).collect()),
    }
}

fn random_case(rng: &mut Rng) -> (Value, Vec<u32>) {
    let n = match rng.below(10) { 0 => rng.below(2), 1..=5 => 1 + rng.below(5), _ => 4 + rng.below(9) };
    let mut tokens = Vec::new();
    let mut text = String::new();
    // per string: how literal-heavy / escape-heavy it is
    let p_esc = *rng.pick(&[1u64, 3, 6]);
    let p_lit = *rng.pick(&[4u64, 8, 12]);
    for _ in 0..n {
        let r = rng.below(20);
        if r < p_esc {
            tokens.push(esc_tok());
            text.push_str("%%");
        } else if r < p_esc + p_lit {
            let c = lit_char(rng);
            tokens.push(lit_tok(c));
            text.push(c);
        } else {
            let (t, s) = conv_tok(rng);
            tokens.push(t);
            text.push_str(&s);
        }
    }
    (Value::Array(tokens), cps(&text))
}

fn nontrivial(tokens: &Value) -> bool {
    let t = tokens.as_array().unwrap();
    t.iter().filter(|x| x["k"] == "conv").count() >= 2
        || t.windows(2).any(|w| w[0]["k"] == "esc" && w[1]["k"] != "esc")
}

pub fn gen(out: &mut Out, sub: &str) {
    let mut rng = Rng::new(out.seed ^ 0xC20);
    if sub == "tlc" {
        let path = std::env::var("VERIF_C20_BEHAVIOURS").expect("VERIF_C20_BEHAVIOURS");
        let text = std::fs::read_to_string(&path).expect("behaviours file");
        for line in text.lines() {
            if line.trim().is_empty() { continue }
            let b: Value = serde_json::from_str(line).expect("behaviour json");
            let sz = sizes(&mut rng);
            let ev = exec("tlc", &b["tokens"], &cp_array(&b["text"]), &sz);
            let nt = nontrivial(&b["tokens"]);
            out.emit(vec![ev], nt);
        }
        return;
    }
    let n = out.size(20_000, 250_000);
    for _ in 0..n {
        let (tokens, text) = random_case(&mut rng);
        let sz = sizes(&mut rng);
        let ev = exec("gen", &tokens, &text, &sz);
        let nt = nontrivial(&tokens);
        out.emit(vec![ev], nt);
    }
}

pub fn replay(run: &[Value], _sub: &str) -> Vec<Value> {
    run.iter()
        .filter(|e| e["ev"] == "fmt")
        .map(|e| exec(e["src"].as_str().unwrap_or("replay"), &e["tokens"], &cp_array(&e["text"]), &e["sizes"]))
        .collect()
}
