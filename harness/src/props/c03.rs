//! C03: `AbstractDomain::merge` and `merge_with` of BitvectorDomain, IntervalDomain (with widening),
//! DataDomain<IntervalDomain>, Taint, DomainMap under the three merge strategies, MemRegion.
//! One event per pair: {ev:"merge", dom:"val"|"map"|"region", vk, strategy, x, y}
//!   -> m = x.merge(y), mxx = x.merge(x), m2 = m.merge(y), m3 = m.merge(x) and wm, wmxx, wm2, wm3 (the
//!      same through merge_with), panic.
//! The harness records; T_C03.tla decides (Upper / Idem / Absorb on gamma).
use crate::domenc::*;
use crate::ivgen::*;
use crate::out::{catch, Out};
use crate::rng::Rng;
use cwe_checker_lib::abstract_domain::*;
use cwe_checker_lib::analysis::taint::Taint;
use cwe_checker_lib::intermediate_representation::*;
use serde_json::{json, Value};
use std::collections::BTreeMap;
use std::panic::AssertUnwindSafe;

/// A value domain that can be projected to / rebuilt from the tagged JSON encoding.
pub trait Val: AbstractDomain + SizedDomain + HasTop + Clone + std::fmt::Debug {
    const K: &'static str;
    fn enc(&self) -> Value;
    fn dec(v: &Value) -> Self;
}
impl Val for IntervalDomain {
    const K: &'static str = "iv";
    fn enc(&self) -> Value { json!({"k": "iv", "iv": iv(self)}) }
    fn dec(v: &Value) -> Self { iv_from_json(&v["iv"]) }
}
impl Val for BitvectorDomain {
    const K: &'static str = "bvd";
    fn enc(&self) -> Value { json!({"k": "bvd", "bvd": bvd(self)}) }
    fn dec(v: &Value) -> Self { bvd_from_json(&v["bvd"]) }
}
impl Val for Data {
    const K: &'static str = "dd";
    fn enc(&self) -> Value { json!({"k": "dd", "dd": dd(self)}) }
    fn dec(v: &Value) -> Self { dd_from_json(&v["dd"]) }
}
impl Val for Taint {
    const K: &'static str = "taint";
    fn enc(&self) -> Value { json!({"k": "taint", "taint": taint(self)}) }
    fn dec(v: &Value) -> Self { taint_from_json(&v["taint"]) }
}

/// The eight merges of one event, on any abstract domain.
fn merges<T: AbstractDomain + Clone>(x: &T, y: &T, enc: &dyn Fn(&T) -> Value, ev: &mut serde_json::Map<String, Value>) {
    let r = catch(AssertUnwindSafe(|| {
        let m = x.merge(y);
        let mxx = x.merge(x);
        let m2 = m.merge(y);
        let m3 = m.merge(x);
        let with = |a: &T, b: &T| { let mut t = a.clone(); t.merge_with(b); t };
        let wm = with(x, y);
        let wmxx = with(x, x);
        let wm2 = with(&wm, y);
        let wm3 = with(&wm, x);
        [m, mxx, m2, m3, wm, wmxx, wm2, wm3]
    }));
    let names = ["m", "mxx", "m2", "m3", "wm", "wmxx", "wm2", "wm3"];
    match r {
        Ok(vals) => {
            for (n, v) in names.iter().zip(vals.iter()) { ev.insert(n.to_string(), enc(v)); }
            ev.insert("panic".into(), json!(""));
        }
        Err(p) => {
            for n in names { ev.insert(n.to_string(), enc(x)); }
            ev.insert("panic".into(), json!(if p.is_empty() { "panic".to_string() } else { p }));
        }
    }
}

fn base(dom: &str, vk: &str, strategy: &str, x: Value, y: Value) -> serde_json::Map<String, Value> {
    let mut ev = serde_json::Map::new();
    ev.insert("ev".into(), json!("merge"));
    ev.insert("dom".into(), json!(dom));
    ev.insert("vk".into(), json!(vk));
    ev.insert("strategy".into(), json!(strategy));
    ev.insert("x".into(), x);
    ev.insert("y".into(), y);
    ev
}

fn scalar_event<V: Val>(x: &V, y: &V) -> Value {
    let mut ev = base("val", V::K, "", x.enc(), y.enc());
    merges(x, y, &|v: &V| v.enc(), &mut ev);
    Value::Object(ev)
}

type M<V> = BTreeMap<String, V>;
fn enc_map<V: Val>(m: &M<V>) -> Value {
    Value::Array(m.iter().map(|(k, v)| json!({"key": k, "v": v.enc()})).collect())
}
fn dec_map<V: Val>(v: &Value) -> M<V> {
    v.as_array().unwrap().iter().map(|e| (e["key"].as_str().unwrap().to_string(), V::dec(&e["v"]))).collect()
}
fn map_event_s<V: Val, S: MapMergeStrategy<String, V> + Clone + Eq>(strategy: &str, x: &M<V>, y: &M<V>) -> Value {
    let dx: DomainMap<String, V, S> = x.clone().into();
    let dy: DomainMap<String, V, S> = y.clone().into();
    let mut ev = base("map", V::K, strategy, enc_map(x), enc_map(y));
    merges(&dx, &dy, &|m: &DomainMap<String, V, S>| enc_map(&**m), &mut ev);
    Value::Object(ev)
}
fn map_event<V: Val>(strategy: &str, x: &M<V>, y: &M<V>) -> Value {
    match strategy {
        "union" => map_event_s::<V, UnionMergeStrategy>(strategy, x, y),
        "intersect" => map_event_s::<V, IntersectMergeStrategy>(strategy, x, y),
        _ => map_event_s::<V, MergeTopStrategy>(strategy, x, y),
    }
}

type Cells<V> = Vec<(i64, V)>;
fn build_region<V: Val>(cells: &Cells<V>) -> MemRegion<V> {
    let mut r = MemRegion::new(ByteSize::new(8));
    for (off, v) in cells { r.insert_at_byte_index(v.clone(), *off); }
    r
}
fn enc_region<V: Val>(r: &MemRegion<V>) -> Value {
    Value::Array(r.iter().map(|(off, v)| json!({"off": off, "size": u64::from(v.bytesize()), "v": v.enc()})).collect())
}
fn dec_cells<V: Val>(v: &Value) -> Cells<V> {
    v.as_array().unwrap().iter().map(|c| (c["off"].as_i64().unwrap(), V::dec(&c["v"]))).collect()
}
fn region_event<V: Val>(x: &MemRegion<V>, y: &MemRegion<V>) -> Value {
    let mut ev = base("region", V::K, "", enc_region(x), enc_region(y));
    merges(x, y, &|r: &MemRegion<V>| enc_region(r), &mut ev);
    Value::Object(ev)
}

/// Re-execute one recorded event's inputs on the real code.
pub fn exec(input: &Value) -> Value {
    fn go<V: Val>(input: &Value) -> Value {
        match input["dom"].as_str().unwrap() {
            "val" => scalar_event(&V::dec(&input["x"]), &V::dec(&input["y"])),
            "map" => map_event::<V>(input["strategy"].as_str().unwrap(), &dec_map(&input["x"]), &dec_map(&input["y"])),
            _ => region_event(&build_region::<V>(&dec_cells(&input["x"])), &build_region::<V>(&dec_cells(&input["y"]))),
        }
    }
    match input["vk"].as_str().unwrap() {
        "iv" => go::<IntervalDomain>(input),
        "bvd" => go::<BitvectorDomain>(input),
        "dd" => go::<Data>(input),
        _ => go::<Taint>(input),
    }
}

pub fn replay(run: &[Value], _sub: &str) -> Vec<Value> {
    run.iter().map(exec).collect()
}

fn push(out: &mut Out, ev: Value) {
    // rule: the merge is a third value (differs from both inputs)
    let nt = ev["panic"] == "" && ev["m"] != ev["x"] && ev["m"] != ev["y"];
    out.emit(vec![ev], nt);
}

// ---- generators of input values -----------------------------------------------------------------
const HINT_PCT: u64 = 45;

/// A partner for x as it arises in a loop: same start or end, grown by a few strides, hints kept or not.
fn loop_partner(rng: &mut Rng, x: &RawIv, w: u64) -> RawIv {
    let (mn, mx) = (smin(w), smax(w));
    let (s, e) = (to_i128(&x.start), to_i128(&x.end));
    let st = x.stride.max(*rng.pick(&[1u64, 1, 2, 4])) as i128;
    let grow = |rng: &mut Rng| st * rng.range(0, 3) as i128 + if rng.chance(1, 5) { rng.range(0, 2) as i128 } else { 0 };
    let (s2, e2) = match rng.below(4) {
        0 => (s, e + grow(rng)),
        1 => (s - grow(rng), e),
        2 => (s + grow(rng), e + grow(rng)),
        _ => (s - grow(rng), e + grow(rng)),
    };
    let (s2, e2) = (s2.clamp(mn, mx), e2.clamp(mn, mx));
    let (s2, e2) = if s2 <= e2 { (s2, e2) } else { (e2, s2) };
    let stride = if s2 == e2 { 0 } else if rng.chance(2, 3) { x.stride.max(1) } else { 1 };
    // end on the stride
    let e2 = if stride > 0 { s2 + (e2 - s2) / stride as i128 * stride as i128 } else { e2 };
    let stride = if s2 == e2 { 0 } else { stride };
    let (lo, hi, delay) = rand_hints(rng, w, s2, e2, stride, 60);
    let mut r = raw(s2, e2, stride, w);
    // keep x's hints when they are still outside
    r.lo = match &x.lo { Some(b) if rng.chance(1, 2) && to_i128(b) < s2 => Some(b.clone()), _ => lo.map(|v| bvs(v, w)) };
    r.hi = match &x.hi { Some(b) if rng.chance(1, 2) && to_i128(b) > e2 => Some(b.clone()), _ => hi.map(|v| bvs(v, w)) };
    r.delay = if rng.chance(1, 2) { x.delay } else { delay };
    r
}

fn rand_iv_pair(rng: &mut Rng, w: u64) -> (IntervalDomain, IntervalDomain) {
    let x = rand_raw(rng, w, HINT_PCT);
    let y = match rng.below(10) {
        0..=4 => loop_partner(rng, &x, w),
        5 => x.clone(),
        _ => rand_raw(rng, w, HINT_PCT),
    };
    if rng.chance(1, 2) { (x.build(), y.build()) } else { (y.build(), x.build()) }
}

fn rand_bvd(rng: &mut Rng, w: u64) -> BitvectorDomain {
    if rng.chance(1, 4) { BitvectorDomain::Top(ByteSize::new(w)) } else { BitvectorDomain::Value(bvs(*rng.pick(&[0i128, 1, -1, 5, 127, -128]), w)) }
}
fn rand_taint(rng: &mut Rng, w: u64) -> Taint {
    if rng.chance(1, 2) { Taint::Tainted(ByteSize::new(w)) } else { Taint::Top(ByteSize::new(w)) }
}
/// second data value: related to the first (same ids, nearby intervals) half of the time
fn rand_data_pair(rng: &mut Rng, w: u64) -> (Data, Data) {
    let x = rand_data(rng, w, HINT_PCT);
    if rng.chance(1, 2) {
        return (x, rand_data(rng, w, HINT_PCT));
    }
    let mut y = x.clone();
    let mut rel = BTreeMap::new();
    for (i, off) in x.get_relative_values() {
        if rng.chance(3, 4) { rel.insert(i.clone(), loop_partner(rng, &RawIv::of(off), w).build()); }
    }
    if rng.chance(1, 3) { rel.insert(id(*rng.pick(&IDS)), rand_raw(rng, w, HINT_PCT).build()); }
    y.set_relative_values(rel);
    y.set_absolute_value(match x.get_absolute_value() {
        Some(a) if rng.chance(3, 4) => Some(loop_partner(rng, &RawIv::of(a), w).build()),
        _ => if rng.chance(1, 2) { Some(rand_raw(rng, w, HINT_PCT).build()) } else { None },
    });
    if rng.chance(1, 4) { y.set_contains_top_flag(); } else if rng.chance(1, 4) { y.unset_contains_top_flag(); }
    if rng.chance(1, 2) { (x, y) } else { (y, x) }
}

trait Gen: Val {
    fn pair(rng: &mut Rng, w: u64) -> (Self, Self);
    /// one value, possibly the Top element
    fn one(rng: &mut Rng, w: u64) -> Self { Self::pair(rng, w).0 }
}
impl Gen for IntervalDomain { fn pair(rng: &mut Rng, w: u64) -> (Self, Self) { rand_iv_pair(rng, w) } }
impl Gen for BitvectorDomain { fn pair(rng: &mut Rng, w: u64) -> (Self, Self) { let a = rand_bvd(rng, w); let b = if rng.chance(1, 3) { a.clone() } else { rand_bvd(rng, w) }; (a, b) } }
impl Gen for Data { fn pair(rng: &mut Rng, w: u64) -> (Self, Self) { rand_data_pair(rng, w) } }
impl Gen for Taint { fn pair(rng: &mut Rng, w: u64) -> (Self, Self) { (rand_taint(rng, w), rand_taint(rng, w)) } }

const KEYS: [&str; 4] = ["k0", "k1", "k2", "k3"];
fn rand_maps<V: Gen>(rng: &mut Rng, w: u64) -> (M<V>, M<V>) {
    let (mut x, mut y) = (M::new(), M::new());
    for k in KEYS {
        let (a, b) = V::pair(rng, w);
        // explicit Top elements as map values, too
        let a = if rng.chance(1, 8) { a.top() } else { a };
        match rng.below(8) {
            0 => {}
            1 | 2 => { x.insert(k.to_string(), a); }
            3 | 4 => { y.insert(k.to_string(), b); }
            _ => { x.insert(k.to_string(), a); y.insert(k.to_string(), b); }
        }
    }
    (x, y)
}

/// Two regions over the offset window -8..20 with cell sizes 1/2/4/8; the second shares part of the
/// layout of the first (same cell, other value / other size / shifted / missing / extra cells).
fn rand_regions<V: Gen>(rng: &mut Rng) -> (MemRegion<V>, MemRegion<V>) {
    let mut xc: Cells<V> = Vec::new();
    let mut yc: Cells<V> = Vec::new();
    let mut off: i64 = -8 + rng.range(0, 3);
    while off < 20 {
        let size = *rng.pick(&[1u64, 1, 1, 2, 4, 8]);
        let (a, b) = V::pair(rng, size);
        xc.push((off, a.clone()));
        match rng.below(10) {
            0..=4 => yc.push((off, b)),
            5 => yc.push((off, a)),
            6 => {}
            7 => { let s2 = *rng.pick(&[1u64, 2, 4, 8]); yc.push((off, V::one(rng, s2))) }
            8 => yc.push((off + rng.range(-2, 2), b)),
            _ => { yc.push((off, b)); let s2 = *rng.pick(&[1u64, 2]); yc.push((off + size as i64 + rng.range(0, 1), V::one(rng, s2))) }
        }
        off += size as i64 + *rng.pick(&[0i64, 0, 0, 1, 2, 5]);
    }
    if rng.chance(1, 10) { yc.clear(); }
    let (x, y) = (build_region(&xc), build_region(&yc));
    if rng.chance(1, 2) { (x, y) } else { (y, x) }
}

pub fn gen(out: &mut Out, _sub: &str) {
    let mut rng = Rng::new(out.seed ^ 0xC03);
    // ---- scalar domains -----------------------------------------------------------------------
    for _ in 0..out.size(2500, 25000) {
        let (x, y) = rand_iv_pair(&mut rng, 1);
        push(out, scalar_event(&x, &y));
    }
    for w in [2u64, 4, 8] {
        for _ in 0..out.size(100, 800) {
            let (x, y) = rand_iv_pair(&mut rng, w);
            push(out, scalar_event(&x, &y));
        }
    }
    for w in [1u64, 4, 8] {
        for _ in 0..out.size(30, 200) {
            let (x, y) = BitvectorDomain::pair(&mut rng, w);
            push(out, scalar_event(&x, &y));
        }
        for t in [(true, true), (true, false), (false, true), (false, false)] {
            let mk = |b: bool| if b { Taint::Tainted(ByteSize::new(w)) } else { Taint::Top(ByteSize::new(w)) };
            push(out, scalar_event(&mk(t.0), &mk(t.1)));
        }
    }
    for _ in 0..out.size(700, 6000) {
        let (x, y) = rand_data_pair(&mut rng, 1);
        push(out, scalar_event(&x, &y));
    }
    for _ in 0..out.size(60, 500) {
        let (x, y) = rand_data_pair(&mut rng, 8);
        push(out, scalar_event(&x, &y));
    }
    // ---- maps under the three strategies ------------------------------------------------------
    for strategy in ["union", "intersect", "mergetop"] {
        for _ in 0..out.size(250, 2000) {
            let (x, y) = rand_maps::<IntervalDomain>(&mut rng, 1);
            push(out, map_event(strategy, &x, &y));
        }
        for _ in 0..out.size(60, 400) {
            let (x, y) = rand_maps::<BitvectorDomain>(&mut rng, 8);
            push(out, map_event(strategy, &x, &y));
            let (x, y) = rand_maps::<Taint>(&mut rng, 8);
            push(out, map_event(strategy, &x, &y));
        }
        // data domain values: Top is not the greatest element, the case MergeTop exists for (and
        // the one IntersectMergeStrategy documents as outside its contract)
        if strategy != "intersect" {
            for _ in 0..out.size(80, 600) {
                let w = *rng.pick(&[1u64, 1, 8]);
                let (x, y) = rand_maps::<Data>(&mut rng, w);
                push(out, map_event(strategy, &x, &y));
            }
        }
    }
    // ---- memory regions ----------------------------------------------------------------------
    for _ in 0..out.size(70, 500) {
        let (x, y) = rand_regions::<IntervalDomain>(&mut rng);
        push(out, region_event(&x, &y));
        let (x, y) = rand_regions::<Data>(&mut rng);
        push(out, region_event(&x, &y));
    }
    for _ in 0..out.size(40, 300) {
        let (x, y) = rand_regions::<BitvectorDomain>(&mut rng);
        push(out, region_event(&x, &y));
    }
}
