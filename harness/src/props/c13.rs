//! C13 - pointer inference never excludes values that can occur at runtime.
//!
//! Generates single-function programs (pigen.rs), runs the REAL pipeline on each - control flow
//! graph, `compute_function_signatures`, `pointer_inference::run` with the "Memory" section of the
//! shipped config.json, exactly as `pipeline/results.rs` / `caller/src/main.rs` do - and records ONE
//! case per program (one ndjson line) for the TLA+ monitor spec/PiMonitor.tla:
//!
//!   blocks     the function's blocks (irenc.rs), entry block first
//!   sp, physregs, le, seed   the environment of the IR reference machine (spec/IR.tla)
//!   abs        per block: {"has": a state exists at the BlkStart node,
//!                          "regs": VsaResult::eval_at_node(BlkStart, Var(r)) for every r of physregs,
//!                                  as DataDom records (domenc.rs); [] when there is no state}
//!   endstate   per block: a state exists at the BlkEnd node
//!   ids        the identifier environment: every abstract identifier occurring in `abs` with its
//!              MECHANICAL classification read off the identifier itself:
//!                k = "stack"      AbstractLocation::Register(stack pointer), time = the function
//!                k = "reg"        AbstractLocation::Register(r), time = the function        (reg = r)
//!                k = "stackparam" AbstractLocation::Pointer(stack pointer, Location{offset,size}) (off, size)
//!                k = "unknown"    anything else (nested parameters, global memory, path hints ...)
//!   inits      initial register files (every register of physregs)
//!   raw        lossless serde form of the program (replay input; ignored by TLC)
//!   sameid_succ  FEATURE TAG per block, only used to classify a reported violation as the known
//!              finding (never to decide): the block is a jump target of a block whose branch condition
//!              contains an ==/!= comparison whose two sides evaluate (at that BlkEnd) to the same
//!              unique abstract identifier for which the state holds NO memory object
//!   negstride_succ  FEATURE TAG per block (same purpose): the block is a jump target of a block whose
//!              branch condition mentions a variable that evaluates (at that BlkEnd) to a value whose
//!              absolute part is an interval with stride >= 2 and a NEGATIVE start
//!   widesub_succ  FEATURE TAG per block (same purpose): the block is a jump target of a block whose
//!              branch condition contains a Subpiece (low byte 0) of an expression whose value at that
//!              BlkEnd is purely absolute and does NOT fit into the subpiece's size
//!
//! Programs whose pointer-inference log contains "Fixpoint did not stabilize" are outside the
//! property's precondition: skipped and counted.  The harness decides nothing.
use crate::domenc;
use crate::enc::{bv_u64};
use crate::irenc;
use crate::irgen;
use crate::out::{catch, Out};
use crate::pigen;
use crate::rng::Rng;
use cwe_checker_lib::abstract_domain::{AbstractIdentifier, AbstractLocation, AbstractMemoryLocation};
use cwe_checker_lib::analysis::graph::{get_program_cfg, Node};
use cwe_checker_lib::analysis::interprocedural_fixpoint_generic::NodeValue;
use cwe_checker_lib::analysis::pointer_inference::Data;
use cwe_checker_lib::analysis::vsa_results::VsaResult;
use cwe_checker_lib::intermediate_representation::*;
use cwe_checker_lib::pipeline::AnalysisResults;
use serde_json::{json, Value};
use std::collections::BTreeMap;
use std::panic::AssertUnwindSafe;

/// The "Memory" section of the shipped configuration file (what `caller/src/main.rs` passes).
fn memory_config() -> Value {
    let src = std::env::var("CWE_CHECKER_SRC").unwrap_or_else(|_| "/repo/src".to_string());
    let text = std::fs::read_to_string(format!("{}/config.json", src)).expect("config.json of the repository");
    let cfg: Value = serde_json::from_str(&text).expect("config.json");
    cfg["Memory"].clone()
}

fn id_name(id: &AbstractIdentifier) -> String {
    format!("{}", id)
}

/// mechanical classification of an identifier (see module comment)
fn classify(id: &AbstractIdentifier, sub: &Tid, sp: &Variable) -> Value {
    let name = id_name(id);
    let unknown = json!({"id": name, "k": "unknown", "reg": "", "off": 0, "size": 0});
    if id.get_tid() != sub || !id.get_path_hints().is_empty() {
        return unknown;
    }
    match id.get_location() {
        AbstractLocation::Register(v) if v == sp => json!({"id": name, "k": "stack", "reg": v.name, "off": 0, "size": u64::from(v.size)}),
        AbstractLocation::Register(v) => json!({"id": name, "k": "reg", "reg": v.name, "off": 0, "size": u64::from(v.size)}),
        AbstractLocation::Pointer(v, AbstractMemoryLocation::Location { offset, size }) if v == sp && offset.abs() < (1 << 20) => {
            json!({"id": name, "k": "stackparam", "reg": v.name, "off": offset, "size": u64::from(*size)})
        }
        _ => unknown,
    }
}

fn eq_subexprs<'a>(e: &'a Expression, out: &mut Vec<(&'a Expression, &'a Expression)>) {
    match e {
        Expression::BinOp { op, lhs, rhs } => {
            if matches!(op, BinOpType::IntEqual | BinOpType::IntNotEqual) {
                out.push((lhs, rhs));
            }
            eq_subexprs(lhs, out);
            eq_subexprs(rhs, out);
        }
        Expression::UnOp { arg, .. } | Expression::Cast { arg, .. } | Expression::Subpiece { arg, .. } => eq_subexprs(arg, out),
        _ => (),
    }
}

fn subpieces_of<'a>(e: &'a Expression, out: &mut Vec<(&'a Expression, ByteSize)>) {
    match e {
        Expression::Subpiece { low_byte, size, arg } => {
            if *low_byte == ByteSize::new(0) {
                out.push((arg, *size));
            }
            subpieces_of(arg, out);
        }
        Expression::BinOp { lhs, rhs, .. } => {
            subpieces_of(lhs, out);
            subpieces_of(rhs, out);
        }
        Expression::UnOp { arg, .. } | Expression::Cast { arg, .. } => subpieces_of(arg, out),
        _ => (),
    }
}

fn vars_of<'a>(e: &'a Expression, out: &mut Vec<&'a Variable>) {
    match e {
        Expression::Var(v) => out.push(v),
        Expression::BinOp { lhs, rhs, .. } => {
            vars_of(lhs, out);
            vars_of(rhs, out);
        }
        Expression::UnOp { arg, .. } | Expression::Cast { arg, .. } | Expression::Subpiece { arg, .. } => vars_of(arg, out),
        _ => (),
    }
}

pub struct Recorded {
    pub case: Option<Value>,
    pub not_stabilized: bool,
    pub panic: String,
}

/// Run the real pipeline on `program` and project the result (see module comment).
pub fn analyze(program: &Term<Program>, inits: &Value, seed: u64, index: u64, mem_cfg: &Value) -> Recorded {
    let project = irgen::project_of(program.clone());
    let sub_tid = pigen::sub_tid();
    let r = catch(AssertUnwindSafe(|| {
        let graph = get_program_cfg(&project.program);
        let binary: Vec<u8> = Vec::new();
        let results = AnalysisResults::new(&binary, &graph, &project);
        let (fn_sigs, _logs) = results.compute_function_signatures();
        let results = results.with_function_signatures(Some(&fn_sigs));
        let pi = results.compute_pointer_inference(mem_cfg, false);
        let not_stabilized = pi.collected_logs.0.iter().any(|m| m.text.contains("Fixpoint did not stabilize"));
        if not_stabilized {
            return (None, true);
        }
        let sub = &project.program.term.subs[&sub_tid];
        let physregs: Vec<Variable> = project.register_set.iter().cloned().collect();
        let g = pi.get_graph();
        let mut start_of: BTreeMap<Tid, petgraph::graph::NodeIndex> = BTreeMap::new();
        let mut end_of: BTreeMap<Tid, petgraph::graph::NodeIndex> = BTreeMap::new();
        for n in g.node_indices() {
            match g[n] {
                Node::BlkStart(b, _) => { start_of.insert(b.tid.clone(), n); }
                Node::BlkEnd(b, _) => { end_of.insert(b.tid.clone(), n); }
                _ => (),
            }
        }
        let mut ids: BTreeMap<String, Value> = BTreeMap::new();
        let mut abs = Vec::new();
        let mut endstate = Vec::new();
        let mut sameid_succ: BTreeMap<Tid, bool> = BTreeMap::new();
        let mut negstride_succ: BTreeMap<Tid, bool> = BTreeMap::new();
        let mut widesub_succ: BTreeMap<Tid, bool> = BTreeMap::new();
        let mut nontrivial_regs = 0u64;
        for b in &sub.term.blocks {
            let n = start_of[&b.tid];
            let mut regs = Vec::new();
            let mut has = true;
            for r in &physregs {
                match pi.eval_at_node(n, &Expression::Var(r.clone())) {
                    Some(d) => {
                        let d: Data = d;
                        for id in d.referenced_ids() {
                            ids.entry(id_name(id)).or_insert_with(|| classify(id, &sub_tid, &project.stack_pointer_register));
                        }
                        if !d.contains_top() {
                            nontrivial_regs += 1;
                        }
                        regs.push(domenc::dd_with(&d, &id_name));
                    }
                    None => { has = false; break; }
                }
            }
            if !has {
                regs.clear();
            }
            abs.push(json!({"has": has, "regs": regs}));
            let e = end_of[&b.tid];
            endstate.push(matches!(pi.get_node_value(e), Some(NodeValue::Value(_))));
            // feature tag (classification of the known finding only)
            for j in &b.term.jmps {
                if let Jmp::CBranch { condition, .. } = &j.term {
                    if let Some(state) = pi.get_state_at_jmp_tid(&j.tid) {
                        let mut eqs = Vec::new();
                        eq_subexprs(condition, &mut eqs);
                        let tagged = eqs.iter().any(|(l, r)| {
                            let (lv, rv) = (state.eval(l), state.eval(r));
                            match (lv.get_if_unique_target(), rv.get_if_unique_target()) {
                                (Some((li, _)), Some((ri, _))) => li == ri && state.memory.get_object(li).is_none(),
                                _ => false,
                            }
                        });
                        let mut vars = Vec::new();
                        vars_of(condition, &mut vars);
                        let negstride = vars.iter().any(|v| match state.eval(&Expression::Var((*v).clone())).get_absolute_value() {
                            Some(iv) => {
                                let raw = domenc::RawIv::of(iv);
                                raw.stride >= 2 && raw.start.sign_bit().to_bool()
                            }
                            None => false,
                        });
                        let mut subs = Vec::new();
                        subpieces_of(condition, &mut subs);
                        let widesub = subs.iter().any(|(arg, size)| match state.eval(arg).get_if_absolute_value() {
                            Some(iv) => !iv.fits_into_size(*size),
                            None => false,
                        });
                        for j2 in &b.term.jmps {
                            match &j2.term {
                                Jmp::CBranch { target, .. } | Jmp::Branch(target) => {
                                    if widesub {
                                        widesub_succ.insert(target.clone(), true);
                                    }
                                    if tagged {
                                        sameid_succ.insert(target.clone(), true);
                                    }
                                    if negstride {
                                        negstride_succ.insert(target.clone(), true);
                                    }
                                }
                                _ => (),
                            }
                        }
                    }
                }
            }
        }
        let case = json!({
            "ev": "case", "fn": index, "seed": seed % 65521, "le": true,
            "sp": irenc::var(&project.stack_pointer_register),
            "physregs": physregs.iter().map(irenc::var).collect::<Vec<_>>(),
            "blocks": sub.term.blocks.iter().map(irenc::blk).collect::<Vec<_>>(),
            "abs": abs, "endstate": endstate,
            "ids": ids.values().cloned().collect::<Vec<_>>(),
            "sameid_succ": sub.term.blocks.iter().map(|b| sameid_succ.contains_key(&b.tid)).collect::<Vec<_>>(),
            "negstride_succ": sub.term.blocks.iter().map(|b| negstride_succ.contains_key(&b.tid)).collect::<Vec<_>>(),
            "widesub_succ": sub.term.blocks.iter().map(|b| widesub_succ.contains_key(&b.tid)).collect::<Vec<_>>(),
            "inits": inits.clone(),
            "nontrivial_regs": nontrivial_regs,
            "raw": irgen::program_to_string(program),
        });
        (Some(case), false)
    }));
    match r {
        Ok((case, ns)) => Recorded { case, not_stabilized: ns, panic: String::new() },
        Err(p) => Recorded { case: None, not_stabilized: false, panic: p },
    }
}

fn inits_json(inits: &[Vec<(String, u64, u64)>]) -> Value {
    Value::Array(
        inits
            .iter()
            .map(|f| Value::Array(f.iter().map(|(n, x, s)| json!({"n": n, "v": crate::enc::bv(&bv_u64(*x, *s))})).collect()))
            .collect(),
    )
}

/// location of the last panic of the code under test (recorded by the hook installed in `gen`)
static LAST_PANIC_LOC: std::sync::Mutex<String> = std::sync::Mutex::new(String::new());

pub fn gen(out: &mut Out, _sub: &str) {
    // a panic of the analysis is data (counted, with its source location); keep it silent
    std::panic::set_hook(Box::new(|info| {
        if let Ok(mut l) = LAST_PANIC_LOC.lock() {
            *l = info.location().map(|l| format!("{}:{}", l.file(), l.line())).unwrap_or_default();
        }
    }));
    let programs = out.size(160, 3000);
    let n_inits = 12usize;
    let mem_cfg = memory_config();
    let mut rng = Rng::new(out.seed.wrapping_mul(0x0C13_0C13).wrapping_add(13));
    let knobs = pigen::PiKnobs::default();
    let (mut skipped, mut panics, mut blocks_total, mut stateless_blocks, mut dropped_blocks) = (0u64, 0u64, 0u64, 0u64, 0u64);
    let mut panic_samples: Vec<String> = Vec::new();
    let directed = pigen::directed_programs();
    for i in 0..programs + directed.len() as u64 {
        let mut r = rng.fork();
        // the hand-written programs come first, then the generated ones
        let program = if (i as usize) < directed.len() { directed[i as usize].1.clone() } else { pigen::gen_function(&mut r, &knobs) };
        let project = irgen::project_of(program.clone());
        let regs: Vec<Variable> = project.register_set.iter().cloned().collect();
        let consts = pigen::constants_of(&program.term.subs[&pigen::sub_tid()]);
        let tests = pigen::tests_of(&program.term.subs[&pigen::sub_tid()]);
        let inits = inits_json(&pigen::gen_inits(&mut r, &consts, &tests, n_inits, &regs));
        let rec = analyze(&program, &inits, r.next(), i, &mem_cfg);
        if !rec.panic.is_empty() {
            panics += 1;
            if panic_samples.len() < 3 {
                let loc = LAST_PANIC_LOC.lock().map(|l| l.clone()).unwrap_or_default();
                panic_samples.push(format!("program {}: {} at {}", i, rec.panic, loc));
            }
            continue;
        }
        if rec.not_stabilized {
            skipped += 1;
            continue;
        }
        let case = rec.case.unwrap();
        blocks_total += case["blocks"].as_array().unwrap().len() as u64;
        stateless_blocks += case["abs"].as_array().unwrap().iter().filter(|a| !a["has"].as_bool().unwrap()).count() as u64;
        dropped_blocks += case["abs"].as_array().unwrap().iter().zip(case["endstate"].as_array().unwrap().iter())
            .filter(|(a, e)| a["has"].as_bool().unwrap() && !e.as_bool().unwrap()).count() as u64;
        // non-trivial: some register at some block start has a value without the Top flag besides the
        // stack pointer (i.e. the analysis claims something that can be wrong)
        let nontrivial = case["nontrivial_regs"].as_u64().unwrap() > case["blocks"].as_array().unwrap().len() as u64;
        out.emit(vec![case], nontrivial);
    }
    out.extra.insert("programs_generated".into(), json!(programs));
    out.extra.insert("programs_directed".into(), json!(directed.iter().map(|d| d.0).collect::<Vec<_>>()));
    out.extra.insert("skipped_not_stabilized".into(), json!(skipped));
    out.extra.insert("pi_panics".into(), json!(panics));
    out.extra.insert("pi_panic_samples".into(), json!(panic_samples));
    out.extra.insert("inits_per_program".into(), json!(n_inits));
    out.extra.insert("blocks_total".into(), json!(blocks_total));
    out.extra.insert("blocks_without_state".into(), json!(stateless_blocks));
    out.extra.insert("blocks_state_dropped".into(), json!(dropped_blocks));
}

/// Re-execute the real pipeline on the program recorded in the case (`raw`) with the recorded inits.
pub fn replay(run: &[Value], _sub: &str) -> Vec<Value> {
    let mem_cfg = memory_config();
    let mut out = Vec::new();
    for ev in run {
        if let Some(raw) = ev["raw"].as_str() {
            let program = irgen::program_from_string(raw);
            let rec = analyze(&program, &ev["inits"], ev["seed"].as_u64().unwrap_or(1), ev["fn"].as_u64().unwrap_or(0), &mem_cfg);
            if let Some(c) = rec.case {
                out.push(c);
            } else {
                eprintln!("replay: no result (not stabilized: {}, panic: {})", rec.not_stabilized, rec.panic);
            }
        }
    }
    out
}
