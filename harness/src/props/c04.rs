//! C04: conditional refinement (`SpecializeByConditional`) of IntervalDomain and
//! DataDomain<IntervalDomain>: add_signed/unsigned_less/greater_equal_bound, add_not_equal_bound,
//! intersect.  Events:
//!   {ev:"batch", dom:"iv", kind, x}          -> results[256] (bound = unsigned byte value 0..255), panic
//!   {ev:"one",   dom:"iv"|"dd", kind, x, c}  -> r, panic
//!   {ev:"isect", dom:"iv"|"dd", kind:"isect", x, y} -> r, panic
//! A result is {ok, v}: ok = false is the implementation's `Err` ("unsatisfiable"); v then repeats x.
//! `cls` is a feature tag of the INPUTS (used only to key known findings).  T_C04.tla decides.
use crate::domenc::*;
use crate::enc::{bv, bv_from_json};
use crate::ivgen::*;
use crate::out::{catch, Out};
use crate::rng::Rng;
use cwe_checker_lib::abstract_domain::*;
use cwe_checker_lib::intermediate_representation::*;
use serde_json::{json, Value};
use std::panic::AssertUnwindSafe;

pub const KINDS: [&str; 5] = ["sle", "ule", "sge", "uge", "ne"];

fn refine<T: SpecializeByConditional + Clone>(x: &T, kind: &str, c: &Bitvector) -> Result<T, ()> {
    let x = x.clone();
    match kind {
        "sle" => x.add_signed_less_equal_bound(c),
        "ule" => x.add_unsigned_less_equal_bound(c),
        "sge" => x.add_signed_greater_equal_bound(c),
        "uge" => x.add_unsigned_greater_equal_bound(c),
        _ => x.add_not_equal_bound(c),
    }
    .map_err(|_| ())
}

fn res<T>(r: &Result<T, ()>, dflt: &Value, enc: &dyn Fn(&T) -> Value) -> Value {
    match r {
        Ok(v) => json!({"ok": true, "v": enc(v)}),
        Err(()) => json!({"ok": false, "v": dflt}),
    }
}

fn finish(mut ev: serde_json::Map<String, Value>, field: &str, r: Result<Value, String>, dflt: Value) -> Value {
    match r {
        Ok(v) => { ev.insert(field.into(), v); ev.insert("panic".into(), json!("")); }
        Err(p) => { ev.insert(field.into(), dflt); ev.insert("panic".into(), json!(if p.is_empty() { "panic".to_string() } else { p })); }
    }
    Value::Object(ev)
}

fn base(input: &Value, keys: &[&str]) -> serde_json::Map<String, Value> {
    let mut ev = serde_json::Map::new();
    for k in keys { ev.insert(k.to_string(), input[*k].clone()); }
    ev
}

/// inputs-only feature tag of an intersection: both operands strided and one start negative
fn isect_cls(x: &RawIv, y: &RawIv) -> &'static str {
    if x.stride > 1 && y.stride > 1 && (to_i128(&x.start) < 0 || to_i128(&y.start) < 0) { "strided_negative_start" } else { "" }
}
fn dd_isect_cls(x: &Data, y: &Data) -> &'static str {
    let mut pairs: Vec<(RawIv, RawIv)> = Vec::new();
    if let (Some(a), Some(b)) = (x.get_absolute_value(), y.get_absolute_value()) { pairs.push((RawIv::of(a), RawIv::of(b))); }
    for (i, a) in x.get_relative_values() {
        if let Some(b) = y.get_relative_values().get(i) { pairs.push((RawIv::of(a), RawIv::of(b))); }
    }
    if pairs.iter().any(|(a, b)| !isect_cls(a, b).is_empty()) { "strided_negative_start" } else { "" }
}

/// Re-execute the inputs of one event on the real code.
pub fn exec(input: &Value) -> Value {
    let evk = input["ev"].as_str().unwrap();
    let dom = input["dom"].as_str().unwrap();
    let kind = input["kind"].as_str().unwrap().to_string();
    match (evk, dom) {
        ("batch", _) => {
            let x = iv_from_json(&input["x"]);
            let ev = base(input, &["ev", "dom", "kind", "x", "cls"]);
            let dflt = input["x"].clone();
            let r = catch(AssertUnwindSafe(|| {
                Value::Array((0..256u64).map(|c| res(&refine(&x, &kind, &Bitvector::from_u8(c as u8)), &dflt, &|v| iv(v))).collect())
            }));
            finish(ev, "results", r, json!([]))
        }
        ("one", "iv") => {
            let x = iv_from_json(&input["x"]);
            let c = bv_from_json(&input["c"]);
            let ev = base(input, &["ev", "dom", "kind", "x", "c", "cls"]);
            let dflt = input["x"].clone();
            let r = catch(AssertUnwindSafe(|| res(&refine(&x, &kind, &c), &dflt, &|v| iv(v))));
            finish(ev, "r", r, json!({"ok": false, "v": input["x"]}))
        }
        ("one", _) => {
            let x = dd_from_json(&input["x"]);
            let c = bv_from_json(&input["c"]);
            let ev = base(input, &["ev", "dom", "kind", "x", "c", "cls"]);
            let dflt = input["x"].clone();
            let r = catch(AssertUnwindSafe(|| res(&refine(&x, &kind, &c), &dflt, &|v| dd(v))));
            finish(ev, "r", r, json!({"ok": false, "v": input["x"]}))
        }
        (_, "iv") => {
            let (x, y) = (iv_from_json(&input["x"]), iv_from_json(&input["y"]));
            let ev = base(input, &["ev", "dom", "kind", "x", "y", "cls"]);
            let dflt = input["x"].clone();
            let r = catch(AssertUnwindSafe(|| res(&x.clone().intersect(&y).map_err(|_| ()), &dflt, &|v| iv(v))));
            finish(ev, "r", r, json!({"ok": false, "v": input["x"]}))
        }
        _ => {
            let (x, y) = (dd_from_json(&input["x"]), dd_from_json(&input["y"]));
            let ev = base(input, &["ev", "dom", "kind", "x", "y", "cls"]);
            let dflt = input["x"].clone();
            let r = catch(AssertUnwindSafe(|| res(&x.clone().intersect(&y).map_err(|_| ()), &dflt, &|v| dd(v))));
            finish(ev, "r", r, json!({"ok": false, "v": input["x"]}))
        }
    }
}

pub fn replay(run: &[Value], _sub: &str) -> Vec<Value> {
    run.iter().map(exec).collect()
}

fn push(out: &mut Out, inp: Value) {
    let ev = exec(&inp);
    // rule: the refinement changed the value or reported "unsatisfiable" (for a batch: for some bound)
    let changed = |r: &Value| r["ok"] == false || r["v"] != ev["x"];
    let nt = ev["panic"] == "" && if ev["ev"] == "batch" { ev["results"].as_array().unwrap().iter().any(changed) } else { changed(&ev["r"]) };
    out.emit(vec![ev], nt);
}

const HINT_PCT: u64 = 50;
const GRID: [i128; 13] = [-128, -127, -65, -64, -2, -1, 0, 1, 2, 63, 64, 126, 127];

/// inputs-only feature tag of a bound refinement: the stride does not fit a signed value of the width
fn bound_cls(x: &RawIv) -> &'static str {
    if (x.stride as u128) >= 1u128 << (8 * x.width() - 1) { "stride_ge_half_range" } else { "" }
}
fn batch(out: &mut Out, x: &RawIv, kind: &str) {
    push(out, json!({"ev": "batch", "dom": "iv", "kind": kind, "x": x.json(), "cls": bound_cls(x)}));
}

/// bounds that matter for x: around start, end, members, the sign boundary and the extremes
fn pick_bound(rng: &mut Rng, x: &RawIv, w: u64) -> Bitvector {
    let (s, e) = (to_i128(&x.start), to_i128(&x.end));
    let st = x.stride.max(1) as i128;
    let v = match rng.below(10) {
        0 => s + rng.range(-2, 2) as i128,
        1 => e + rng.range(-2, 2) as i128,
        2 => s + st * rng.range(0, 4) as i128 + rng.range(-1, 1) as i128,
        3 => e - st * rng.range(0, 4) as i128 + rng.range(-1, 1) as i128,
        4 => rng.range(-2, 2) as i128,
        5 => *rng.pick(&[smin(w), smin(w) + 1, smax(w), smax(w) - 1]),
        6 => match (&x.lo, &x.hi) { (Some(b), _) if rng.chance(1, 2) => to_i128(b) + rng.range(-1, 1) as i128, (_, Some(b)) => to_i128(b) + rng.range(-1, 1) as i128, _ => s + (e - s) / 2 },
        7 => s + (e - s) / 2 + rng.range(-3, 3) as i128,
        _ => pick_val(rng, w),
    };
    bvs(v.clamp(smin(w), smax(w)), w)
}

/// partner for an intersection: overlapping range, strides with common factors, shifted residue classes
fn isect_partner(rng: &mut Rng, x: &RawIv, w: u64) -> RawIv {
    let (mn, mx) = (smin(w), smax(w));
    let (s, e) = (to_i128(&x.start), to_i128(&x.end));
    let st = *rng.pick(&[1u64, 2, 3, 4, 6, 8, 12, 16, x.stride.max(1), x.stride.max(1) * 2, x.stride.max(1) * 3]);
    let st = st.min(1 << 40) as i128;
    let len = (e - s).max(st * 3);
    let s2 = (s + rng.range(-40, 40) as i128 + if rng.chance(1, 3) { -len / 2 } else { 0 }).clamp(mn, mx);
    let n = ((len / st) + rng.range(-2, 6) as i128).max(0).min((mx - s2) / st);
    let e2 = s2 + n * st;
    let stride = if n == 0 { 0 } else { st as u64 };
    let (lo, hi, d) = rand_hints(rng, w, s2, e2, stride, HINT_PCT);
    let mut r = raw(s2, e2, stride, w);
    r.lo = lo.map(|v| bvs(v, w)); r.hi = hi.map(|v| bvs(v, w)); r.delay = d;
    r
}

fn isect_iv(out: &mut Out, x: &RawIv, y: &RawIv) {
    push(out, json!({"ev": "isect", "dom": "iv", "kind": "isect", "x": x.json(), "y": y.json(), "cls": isect_cls(x, y)}));
}

pub fn gen(out: &mut Out, _sub: &str) {
    let mut rng = Rng::new(out.seed ^ 0xC04);
    let q = out.quick();
    // ---- 1 byte: every bound for each interval ---------------------------------------------------
    // grid family: start, end on the grid, every admissible stride (thorough: all; quick: a sample)
    let mut grid: Vec<RawIv> = Vec::new();
    for &s in &GRID {
        for &e in &GRID {
            if e < s { continue; }
            if e == s { grid.push(raw(s, e, 0, 1)); continue; }
            for st in 1..=(e - s) {
                if (e - s) % st == 0 { grid.push(raw(s, e, st as u64, 1)); }
            }
        }
    }
    out.extra.insert("grid_intervals".into(), json!(grid.len()));
    out.extra.insert("grid_exhaustive".into(), json!(!q));
    if q { rng.shuffle(&mut grid); grid.truncate(30); }
    for x in &grid {
        for kind in KINDS { batch(out, x, kind); }
    }
    for _ in 0..out.size(40, 400) {
        let x = rand_raw(&mut rng, 1, HINT_PCT);
        for kind in KINDS { batch(out, &x, kind); }
    }
    // ---- wider intervals: bounds around start / end / stride multiples ---------------------------
    for w in [2u64, 4, 8] {
        for _ in 0..out.size(if w == 2 { 60 } else { 180 }, 2000) {
            let mut x = rand_raw(&mut rng, w, HINT_PCT);
            if w == 2 && count(&x) > 3000 { x = rand_raw_sized(&mut rng, w, Size::Medium, HINT_PCT); }
            let c = pick_bound(&mut rng, &x, w);
            let kind = *rng.pick(&KINDS);
            push(out, json!({"ev": "one", "dom": "iv", "kind": kind, "x": x.json(), "c": bv(&c), "cls": bound_cls(&x)}));
        }
    }
    // ---- intersections ---------------------------------------------------------------------------
    for _ in 0..out.size(1000, 15000) {
        let x = rand_raw(&mut rng, 1, HINT_PCT);
        let y = if rng.chance(2, 3) { isect_partner(&mut rng, &x, 1) } else { rand_raw(&mut rng, 1, HINT_PCT) };
        if rng.chance(1, 2) { isect_iv(out, &x, &y) } else { isect_iv(out, &y, &x) }
    }
    for w in [2u64, 4, 8] {
        for _ in 0..out.size(if w == 2 { 60 } else { 150 }, 1500) {
            let mut x = rand_raw(&mut rng, w, HINT_PCT);
            if w == 2 && count(&x) > 3000 { x = rand_raw_sized(&mut rng, w, Size::Medium, HINT_PCT); }
            let mut y = if rng.chance(3, 4) { isect_partner(&mut rng, &x, w) } else { rand_raw(&mut rng, w, HINT_PCT) };
            if w == 2 && count(&y) > 3000 { y = rand_raw_sized(&mut rng, w, Size::Medium, HINT_PCT); }
            if rng.chance(1, 2) { isect_iv(out, &x, &y) } else { isect_iv(out, &y, &x) }
        }
    }
    // ---- data domains: the absolute part is refined, relative / Top members are preserved ----------
    for w in [1u64, 8] {
        for _ in 0..out.size(220, 2500) {
            let x = rand_data(&mut rng, w, HINT_PCT);
            let c = match x.get_absolute_value() { Some(a) => pick_bound(&mut rng, &RawIv::of(a), w), None => bvs(pick_val(&mut rng, w), w) };
            let kind = *rng.pick(&KINDS);
            let cls = x.get_absolute_value().map(|a| bound_cls(&RawIv::of(a))).unwrap_or("");
            push(out, json!({"ev": "one", "dom": "dd", "kind": kind, "x": dd(&x), "c": bv(&c), "cls": cls}));
        }
        for _ in 0..out.size(150, 1500) {
            let x = rand_data(&mut rng, w, HINT_PCT);
            let mut y = rand_data(&mut rng, w, HINT_PCT);
            if rng.chance(1, 2) {
                // related partner: intersecting absolute parts and offsets
                if let Some(a) = x.get_absolute_value() { y.set_absolute_value(Some(isect_partner(&mut rng, &RawIv::of(a), w).build())); }
                let mut rel = y.get_relative_values().clone();
                for (i, off) in x.get_relative_values() {
                    if rng.chance(2, 3) { rel.insert(i.clone(), isect_partner(&mut rng, &RawIv::of(off), w).build()); }
                }
                y.set_relative_values(rel);
            }
            push(out, json!({"ev": "isect", "dom": "dd", "kind": "isect", "x": dd(&x), "y": dd(&y), "cls": dd_isect_cls(&x, &y)}));
        }
        // asymmetric shapes, each pair in BOTH receiver/argument orders: absolute-only against
        // pointer-carrying / mixed / Top-flagged values (a relative target or a Top member can denote
        // any absolute value, so the other side's absolute members stay feasible)
        for _ in 0..out.size(60, 600) {
            let sx = *rng.pick(&SHAPES);
            let sy = *rng.pick(&SHAPES);
            // at least one side absolute-only or with an absolute part in two thirds of the cases
            let sx = if rng.chance(1, 3) { (true, 0, false) } else { sx };
            let x = shaped_data(&mut rng, w, sx, None);
            let y = shaped_data(&mut rng, w, sy, Some(&x));
            for (a, b) in [(&x, &y), (&y, &x)] {
                push(out, json!({"ev": "isect", "dom": "dd", "kind": "isect", "x": dd(a), "y": dd(b), "cls": dd_isect_cls(a, b)}));
            }
        }
    }
}

/// (has absolute part, number of relative targets, Top flag)
type Shape = (bool, usize, bool);
const SHAPES: [Shape; 9] = [
    (true, 0, false), (true, 0, true), (false, 1, false), (false, 2, false), (false, 1, true),
    (true, 1, false), (true, 2, false), (true, 1, true), (false, 0, true),
];

/// A data domain value of the given shape; with `near`, its parts overlap the corresponding parts of `near`
/// (same identifiers first, intersecting intervals) in half of the cases.
fn shaped_data(rng: &mut Rng, w: u64, shape: Shape, near: Option<&Data>) -> Data {
    let (has_abs, n_rel, top) = shape;
    let mut d = Data::new_empty(ByteSize::new(w));
    if has_abs {
        let a = match near.and_then(|n| n.get_absolute_value()) {
            Some(a) if rng.chance(1, 2) => isect_partner(rng, &RawIv::of(a), w),
            _ => rand_raw(rng, w, HINT_PCT),
        };
        d.set_absolute_value(Some(a.build()));
    }
    let mut names: Vec<&str> = IDS.to_vec();
    if near.is_none() || rng.chance(1, 2) { rng.shuffle(&mut names); }
    let mut rel = std::collections::BTreeMap::new();
    for name in names.into_iter().take(n_rel) {
        let off = match near.and_then(|n| n.get_relative_values().get(&id(name))) {
            Some(o) if rng.chance(1, 2) => isect_partner(rng, &RawIv::of(o), w),
            _ => rand_raw(rng, w, HINT_PCT),
        };
        rel.insert(id(name), off.build());
    }
    d.set_relative_values(rel);
    if top { d.set_contains_top_flag(); }
    d
}
