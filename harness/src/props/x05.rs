//! X05 (extended coverage): the memory model of the pointer inference - `AbstractObject` /
//! `AbstractObjectList` (analysis/pointer_inference/object, object_list).
//!
//! The harness drives two real `AbstractObjectList`s (the `memory` field of two pointer-inference
//! `State`s; the list type lives in a private module and is reached through that public field)
//! through random operation histories and records, after every mutator, the full projected
//! contents of both lists (objects in identifier order: uniqueness flag, pointer-target set,
//! cells as `iter()` of the memory region yields them), plus `get_value` / `is_unique_object`
//! observations.  Nothing is decided here: TLC validates the recording against
//! spec/AbsObject.tla (spec/trace/T_X05.tla).
//!
//! Wire format.  value = [size, abs, top01, rel_1, rel_2] (spec/MemRegionWire.tla): -2 = absent,
//! -1 = any value; an interval-valued component is projected to its exact value if it is a single
//! value 0..99, else to -1.  cell = [offset] ++ value.  pointer = {"tg": [{"id", "k": "iv"|"top",
//! "lo", "hi", "st", "rlo", "rhi"}..], "abs": bool, "top": bool} - projected from the real `Data`
//! that was passed; lo/hi are clamped to +-1_000_000 (rlo/rhi: the exact bounds as strings, used
//! by replay only).  object = {"id", "uniq", "refs": [ids], "cells": [cell..]}.
use crate::domenc::RawIv;
use crate::enc::{bv_i64, bv_u64};
use crate::out::{catch, Out};
use crate::rng::Rng;
use cwe_checker_lib::abstract_domain::{
    AbstractDomain, AbstractIdentifier, IntervalDomain, MemRegion, SizedDomain, TryToBitvec,
};
use cwe_checker_lib::analysis::pointer_inference::object::{AbstractObject, ObjectType};
use cwe_checker_lib::analysis::pointer_inference::{Data, State};
use cwe_checker_lib::intermediate_representation::{ByteSize, Tid, Variable};
use serde_json::{json, Map, Value};
use std::collections::{BTreeMap, BTreeSet};
use std::panic::AssertUnwindSafe;

const ABSENT: i64 = -2;
const ANY: i64 = -1;
const ADDR: u64 = 8;
const NOBJ: usize = 3; // object identifiers 1..=3; stored values refer to identifiers 1..=2 only
const BIG: i64 = 1_000_000;

// ------------------------------------------------------------------------------------------
// projections (mechanical; public API only)
// ------------------------------------------------------------------------------------------
fn ident(i: usize) -> AbstractIdentifier {
    let var = Variable { name: format!("id{}", i), size: ByteSize::new(8), is_temp: false };
    AbstractIdentifier::from_var(Tid::new("x05"), &var)
}
fn id_index(id: &AbstractIdentifier) -> i64 {
    (1..=NOBJ).find(|i| &ident(*i) == id).expect("identifier the harness never created") as i64
}

fn ivd(x: i64, size: u64) -> IntervalDomain {
    if x == ANY {
        IntervalDomain::new_top(ByteSize::new(size))
    } else {
        IntervalDomain::from(bv_u64(x as u64, size))
    }
}
fn ivd_wire(d: &IntervalDomain) -> i64 {
    match d.try_to_bitvec() {
        Ok(b) => match b.try_to_u64() {
            Ok(v) if v < 100 => v as i64,
            _ => ANY,
        },
        Err(_) => ANY,
    }
}

fn val_from_wire(w: &[i64]) -> Data {
    let size = w[0] as u64;
    let mut d = Data::new_empty(ByteSize::new(size));
    if w[1] != ABSENT {
        d.set_absolute_value(Some(ivd(w[1], size)));
    }
    let mut rel = BTreeMap::new();
    for (i, x) in w[3..].iter().enumerate() {
        if *x != ABSENT {
            rel.insert(ident(i + 1), ivd(*x, size));
        }
    }
    d.set_relative_values(rel);
    if w[2] == 1 {
        d.set_contains_top_flag();
    }
    d
}
fn val_to_wire(d: &Data) -> Vec<i64> {
    let mut w = vec![
        u64::from(d.bytesize()) as i64,
        d.get_absolute_value().map(ivd_wire).unwrap_or(ABSENT),
        d.contains_top() as i64,
    ];
    for i in 1..=2 {
        w.push(d.get_relative_values().get(&ident(i)).map(ivd_wire).unwrap_or(ABSENT));
    }
    // an identifier outside 1..=2 in a stored value cannot be projected: make it visible
    assert!(d.get_relative_values().keys().all(|k| id_index(k) <= 2));
    w
}

fn wire(v: &Value) -> Vec<i64> {
    v.as_array().unwrap().iter().map(|x| x.as_i64().unwrap()).collect()
}
fn cells_of(m: &MemRegion<Data>) -> Vec<Vec<i64>> {
    m.iter()
        .map(|(o, v)| {
            let mut c = vec![*o];
            c.extend(val_to_wire(v));
            c
        })
        .collect()
}
fn obj_json(id: i64, o: &AbstractObject) -> Value {
    let refs: Vec<i64> = o.get_referenced_ids_overapproximation().iter().map(id_index).collect();
    json!({"id": id, "uniq": o.is_unique(), "refs": refs, "cells": cells_of(o.get_mem_region())})
}
/// build an object with exactly these contents through the public API
fn obj_from_json(v: &Value, ty: Option<ObjectType>) -> AbstractObject {
    let mut o = AbstractObject::new(ty, ByteSize::new(ADDR));
    let mut m: MemRegion<Data> = MemRegion::new(ByteSize::new(ADDR));
    for c in v["cells"].as_array().unwrap() {
        let c = wire(c);
        m.insert_at_byte_index(val_from_wire(&c[1..]), c[0]);
    }
    o.overwrite_mem_region(m);
    let refs: BTreeSet<AbstractIdentifier> = wire(&v["refs"]).iter().map(|i| ident(*i as usize)).collect();
    o.add_ids_to_pointer_targets(refs);
    if !v["uniq"].as_bool().unwrap() {
        o.mark_as_not_unique();
    }
    o
}

fn offset_domain(t: &Value) -> IntervalDomain {
    if t["k"] == "top" {
        return IntervalDomain::new_top(ByteSize::new(ADDR));
    }
    let bound = |clamped: &Value, real: &Value| -> i64 {
        match real.as_str() {
            Some(s) => s.parse().unwrap(),
            None => clamped.as_i64().unwrap(),
        }
    };
    let (lo, hi) = (bound(&t["lo"], &t["rlo"]), bound(&t["hi"], &t["rhi"]));
    if lo == hi {
        IntervalDomain::from(bv_i64(lo, ADDR))
    } else {
        RawIv { start: bv_i64(lo, ADDR), end: bv_i64(hi, ADDR), stride: t["st"].as_u64().unwrap(), lo: None, hi: None, delay: 0 }.build()
    }
}
fn ptr_from_json(p: &Value) -> Data {
    let mut d = Data::new_empty(ByteSize::new(ADDR));
    let mut rel = BTreeMap::new();
    for t in p["tg"].as_array().unwrap() {
        rel.insert(ident(t["id"].as_u64().unwrap() as usize), offset_domain(t));
    }
    d.set_relative_values(rel);
    if p["abs"].as_bool().unwrap() {
        d.set_absolute_value(Some(IntervalDomain::from(bv_u64(0x1000, ADDR))));
    }
    if p["top"].as_bool().unwrap() {
        d.set_contains_top_flag();
    }
    d
}
fn tgt_json(id: i64, off: &IntervalDomain) -> Value {
    if off.is_top() {
        return json!({"id": id, "k": "top", "lo": 0, "hi": 0, "st": 0, "rlo": "", "rhi": ""});
    }
    let r = RawIv::of(off);
    let (lo, hi) = (r.start.try_to_i64().unwrap(), r.end.try_to_i64().unwrap());
    let (clo, chi) = (lo.max(-BIG), hi.min(BIG));
    // a clamped bound keeps the residue class only for stride 1
    assert!((clo == lo && chi == hi) || r.stride <= 1, "harness: clamped interval with a stride");
    json!({"id": id, "k": "iv", "lo": clo, "hi": chi, "st": r.stride, "rlo": lo.to_string(), "rhi": hi.to_string()})
}
/// projection of the real pointer value that is passed to the code
fn ptr_json(d: &Data) -> Value {
    let tg: Vec<Value> = d.get_relative_values().iter().map(|(id, off)| tgt_json(id_index(id), off)).collect();
    json!({"tg": tg, "abs": d.get_absolute_value().is_some(), "top": d.contains_top()})
}

fn xidx(v: &Value) -> usize {
    if v.as_str().unwrap() == "A" {
        0
    } else {
        1
    }
}
fn xname(i: usize) -> &'static str {
    ["A", "B"][i]
}
fn obj_type(v: &Value) -> Option<ObjectType> {
    match v.as_str() {
        Some("heap") => Some(ObjectType::Heap),
        Some("stack") => Some(ObjectType::Stack),
        Some("global") => Some(ObjectType::GlobalMem),
        _ => None,
    }
}

// ------------------------------------------------------------------------------------------
// the two real lists and the execution of one operation record
// ------------------------------------------------------------------------------------------
pub struct Machine {
    st: [State; 2],
}

impl Machine {
    fn new() -> Machine {
        let sp = Variable { name: "RSP".to_string(), size: ByteSize::new(ADDR), is_temp: false };
        let mut s = State::new(&sp, Tid::new("x05"), BTreeSet::new());
        s.memory.retain(|_, _| false); // the empty list
        Machine { st: [s.clone(), s] }
    }
    fn list_json(&self, x: usize) -> Vec<Value> {
        self.st[x].memory.iter().map(|(id, o)| obj_json(id_index(id), o)).collect()
    }
    fn state(&self) -> Value {
        json!([self.list_json(0), self.list_json(1)])
    }
    fn has(&self, x: usize, id: usize) -> bool {
        self.st[x].memory.contains(&ident(id))
    }

    /// executes a mutator; returns the extra output fields
    fn mutate(&mut self, op: &Value, out: &mut Map<String, Value>) {
        match op["ev"].as_str().unwrap() {
            "insert" => {
                let x = xidx(&op["x"]);
                let id = ident(op["id"].as_u64().unwrap() as usize);
                let ty = obj_type(&op["ty"]);
                if op["via"] == "add" {
                    self.st[x].memory.add_abstract_object(id, ByteSize::new(ADDR), ty);
                } else {
                    self.st[x].memory.insert(id, obj_from_json(&op["obj"], ty));
                }
            }
            "set" => {
                let x = xidx(&op["x"]);
                let p = ptr_from_json(&op["ptr"]);
                let v = val_from_wire(&wire(&op["val"]));
                let r = if out["via"] == "object" {
                    let (id, off) = p.get_relative_values().iter().next().unwrap();
                    self.st[x].memory.get_object_mut(id).unwrap().set_value(v, off)
                } else {
                    self.st[x].memory.set_value(p, v)
                };
                out.insert("err".into(), json!(r.err().map(|e| e.to_string()).unwrap_or_default()));
            }
            "wmerge" => {
                let x = xidx(&op["x"]);
                let p = ptr_from_json(&op["ptr"]);
                let v = val_from_wire(&wire(&op["val"]));
                let (id, off) = p.get_relative_values().iter().next().unwrap();
                self.st[x].memory.get_object_mut(id).unwrap().merge_value(v, off);
            }
            "arb" => {
                let x = xidx(&op["x"]);
                let add: BTreeSet<AbstractIdentifier> = wire(&op["add"]).iter().map(|i| ident(*i as usize)).collect();
                self.st[x].memory.assume_arbitrary_writes_to_object(&ident(op["id"].as_u64().unwrap() as usize), &add);
            }
            "nonuniq" => {
                let x = xidx(&op["x"]);
                if let Some(o) = self.st[x].memory.get_object_mut(&ident(op["id"].as_u64().unwrap() as usize)) {
                    o.mark_as_not_unique();
                }
            }
            "merge" => {
                let (d, s) = (xidx(&op["dst"]), xidx(&op["src"]));
                let m = self.st[d].memory.merge(&self.st[s].memory);
                self.st[d].memory = m;
            }
            "copy" => {
                let (d, s) = (xidx(&op["dst"]), xidx(&op["src"]));
                let m = self.st[s].memory.clone();
                self.st[d].memory = m;
            }
            other => panic!("harness: unknown op {}", other),
        }
    }

    /// Execute one operation record on the real lists; returns the event (inputs + outputs).
    fn exec(&mut self, op: &Value) -> Value {
        let kind = op["ev"].as_str().unwrap();
        let inputs: &[&str] = match kind {
            "insert" => &["ev", "x", "id", "via", "ty"],
            "set" => &["ev", "x", "val"],
            "wmerge" => &["ev", "x", "val"],
            "arb" => &["ev", "x", "id", "add"],
            "nonuniq" | "isuniq" => &["ev", "x", "id"],
            "merge" | "copy" => &["ev", "dst", "src"],
            "get" => &["ev", "x", "size"],
            other => panic!("harness: unknown op {}", other),
        };
        let mut ev = Map::new();
        for k in inputs {
            ev.insert(k.to_string(), op[*k].clone());
        }
        if ["set", "wmerge", "get"].contains(&kind) {
            // the pointer as the code receives it (re-projected from the real value)
            ev.insert("ptr".into(), ptr_json(&ptr_from_json(&op["ptr"])));
        }
        match kind {
            "insert" => {
                // the object that is inserted, as built
                let o = if op["via"] == "add" { AbstractObject::new(obj_type(&op["ty"]), ByteSize::new(ADDR)) } else { obj_from_json(&op["obj"], obj_type(&op["ty"])) };
                ev.insert("obj".into(), obj_json(op["id"].as_i64().unwrap(), &o));
            }
            "set" => {
                // the object-level entry point exists only for a single target of an existing object
                let p = &op["ptr"];
                let single = p["tg"].as_array().unwrap().len() == 1 && !p["abs"].as_bool().unwrap() && !p["top"].as_bool().unwrap();
                let x = xidx(&op["x"]);
                let via = if op["via"] == "object" && single && self.has(x, p["tg"][0]["id"].as_u64().unwrap() as usize) { "object" } else { "list" };
                ev.insert("via".into(), json!(via));
                ev.insert("err".into(), json!(""));
            }
            _ => {}
        }
        match kind {
            "get" => {
                let x = xidx(&op["x"]);
                let size = op["size"].as_u64().unwrap();
                let p = ptr_from_json(&op["ptr"]);
                match catch(AssertUnwindSafe(|| val_to_wire(&self.st[x].memory.get_value(&p, ByteSize::new(size))))) {
                    Ok(w) => {
                        ev.insert("res".into(), json!(w));
                        ev.insert("panic".into(), json!(""));
                    }
                    Err(msg) => {
                        ev.insert("res".into(), json!([size, ABSENT, 0, ABSENT, ABSENT]));
                        ev.insert("panic".into(), json!(msg));
                    }
                }
            }
            "isuniq" => {
                let x = xidx(&op["x"]);
                let r = self.st[x].memory.is_unique_object(&ident(op["id"].as_u64().unwrap() as usize));
                ev.insert("res".into(), json!(match r { Ok(true) => 1, Ok(false) => 0, Err(_) => -1 }));
                ev.insert("panic".into(), json!(""));
            }
            _ => {
                let p = catch(AssertUnwindSafe(|| self.mutate(op, &mut ev))).err().unwrap_or_default();
                ev.insert("state".into(), self.state());
                ev.insert("panic".into(), json!(p));
            }
        }
        Value::Object(ev)
    }
}

fn reset_event(src: &str, case: u64) -> Value {
    json!({"ev": "reset", "src": src, "case": case, "addr": ADDR, "nobj": NOBJ})
}

// ------------------------------------------------------------------------------------------
// random histories
// ------------------------------------------------------------------------------------------
#[derive(Clone)]
enum Off {
    Exact(i64),
    Iv(i64, i64, u64),
    Top,
}
fn tspec(id: usize, off: &Off) -> Value {
    match off {
        Off::Exact(o) => json!({"id": id, "k": "iv", "lo": o, "hi": o, "st": 0, "rlo": o.to_string(), "rhi": o.to_string()}),
        Off::Iv(a, b, st) => json!({"id": id, "k": "iv", "lo": a, "hi": b, "st": st, "rlo": a.to_string(), "rhi": b.to_string()}),
        Off::Top => json!({"id": id, "k": "top", "lo": 0, "hi": 0, "st": 0, "rlo": "", "rhi": ""}),
    }
}

struct Gen {
    rng: Rng,
    lo: i64,
    hi: i64,
    extreme: bool,
}

const SIZES: [i64; 8] = [1, 2, 4, 4, 8, 8, 8, 2];

impl Gen {
    fn comp(&mut self, hi: i64) -> i64 {
        match self.rng.below(12) {
            0 => ANY,
            _ => self.rng.range(0, hi),
        }
    }
    /// a non-empty value of size s
    fn val(&mut self, s: i64) -> Vec<i64> {
        match self.rng.below(20) {
            0 => vec![s, ABSENT, 1, ABSENT, ABSENT], // Top
            1 | 2 => {
                let a = self.comp(3);
                vec![s, a, 1, ABSENT, ABSENT] // absolute value with the top flag
            }
            3..=6 => {
                // a pointer (one or two targets), sometimes also an absolute part
                let r1 = if self.rng.chance(2, 3) { self.comp(1) } else { ABSENT };
                let r2 = if r1 == ABSENT || self.rng.chance(1, 4) { self.comp(1) } else { ABSENT };
                let a = if self.rng.chance(1, 4) { self.comp(3) } else { ABSENT };
                vec![s, a, self.rng.chance(1, 8) as i64, r1, r2]
            }
            _ => {
                let a = self.comp(3);
                vec![s, a, 0, ABSENT, ABSENT]
            }
        }
    }
    fn cells(m: &Machine, x: usize, id: usize) -> Vec<Vec<i64>> {
        match m.st[x].memory.get_object(&ident(id)) {
            Some(o) => cells_of(o.get_mem_region()),
            None => Vec::new(),
        }
    }
    /// an offset for an access of s bytes into object id: on / next to an existing cell of that
    /// object in either list (all overlap and adjacency positions), a window edge, or uniform
    fn off(&mut self, m: &Machine, id: usize, s: i64) -> i64 {
        let mut cells = Self::cells(m, 0, id);
        cells.extend(Self::cells(m, 1, id));
        let k = self.rng.below(100);
        if k < 60 && !cells.is_empty() {
            let c = self.rng.pick(&cells).clone();
            let (o, cs) = (c[0], c[1]);
            let cands = [o, o, o, o, o + 1, o - 1, o + cs, o + cs - 1, o - s, o - s + 1, o + cs / 2];
            *self.rng.pick(&cands)
        } else if k < 70 {
            *self.rng.pick(&[self.lo, self.hi, -1, 0, self.hi - s + 1])
        } else {
            self.rng.range(self.lo, self.hi)
        }
    }
    /// size of an existing cell at (id, o) in list x, if any
    fn cell_size(m: &Machine, x: usize, id: usize, o: i64) -> Option<i64> {
        Self::cells(m, x, id).iter().find(|c| c[0] == o).map(|c| c[1])
    }
    fn target(&mut self, m: &Machine, id: usize, s: i64, exact_bias: u64) -> Off {
        let k = self.rng.below(100);
        if k < exact_bias {
            Off::Exact(self.off(m, id, s))
        } else if k < 96 {
            let a = self.off(m, id, s);
            if self.extreme && self.rng.chance(1, 6) {
                return match self.rng.below(3) {
                    0 => Off::Iv(a, i64::MAX, 1),
                    1 => Off::Iv(i64::MIN, a, 1),
                    _ => Off::Iv(-(1i64 << 40), 1i64 << 40, 1),
                };
            }
            let st = *self.rng.pick(&[1u64, 1, 1, 2, 4, 8, s as u64]);
            let n = self.rng.range(1, 3);
            Off::Iv(a, a + n * st as i64, st)
        } else {
            Off::Top
        }
    }
    fn some_id(&mut self, m: &Machine, x: usize) -> usize {
        let present: Vec<usize> = (1..=NOBJ).filter(|i| m.has(x, *i)).collect();
        if present.is_empty() || self.rng.chance(1, 25) {
            self.rng.range(1, NOBJ as i64) as usize // possibly not a key of the list
        } else {
            *self.rng.pick(&present)
        }
    }
    /// a pointer for an access of s bytes through list x
    fn ptr(&mut self, m: &Machine, x: usize, s: i64) -> Value {
        let k = self.rng.below(100);
        let n = if k < 62 { 1 } else if k < 90 { 2 } else if k < 96 { 3 } else { 0 };
        let mut ids: Vec<usize> = Vec::new();
        for _ in 0..n {
            let id = self.some_id(m, x);
            if !ids.contains(&id) {
                ids.push(id);
            }
        }
        ids.sort();
        let bias = if n == 1 { 75 } else { 80 };
        let tg: Vec<Value> = ids.iter().map(|id| { let o = self.target(m, *id, s, bias); tspec(*id, &o) }).collect();
        let (mut abs, mut top) = (false, false);
        if tg.is_empty() {
            if self.rng.chance(1, 2) { abs = true } else { top = true }
        } else if self.rng.chance(1, 9) {
            if self.rng.chance(1, 2) { abs = true } else { top = true }
        }
        json!({"tg": tg, "abs": abs, "top": top})
    }
    /// a pointer whose (1..3) targets address existing cells of size s exactly, preferring cells
    /// without the top flag: the accesses through it are where weak updates and merged reads keep
    /// precision.  None if list x holds no cell of size s.
    fn aimed_ptr(&mut self, m: &Machine, x: usize, s: i64) -> Option<Value> {
        let mut tg: Vec<Value> = Vec::new();
        let want = *self.rng.pick(&[1usize, 2, 2, 2, 3]);
        let mut ids: Vec<usize> = (1..=NOBJ).collect();
        self.rng.shuffle(&mut ids);
        for id in ids {
            let cs: Vec<Vec<i64>> = Self::cells(m, x, id).into_iter().filter(|c| c[1] == s).collect();
            let plain: Vec<Vec<i64>> = cs.iter().filter(|c| c[3] == 0).cloned().collect();
            let pool = if !plain.is_empty() && self.rng.chance(4, 5) { plain } else { cs };
            if !pool.is_empty() && tg.len() < want {
                let o = self.rng.pick(&pool)[0];
                tg.push(tspec(id, &Off::Exact(o)));
            }
        }
        if tg.is_empty() {
            return None;
        }
        tg.sort_by_key(|t| t["id"].as_u64().unwrap());
        Some(json!({"tg": tg, "abs": false, "top": false}))
    }
    /// size for an access into list x: mostly the size of some existing cell
    fn size(&mut self, m: &Machine, x: usize) -> i64 {
        let mut all: Vec<Vec<i64>> = Vec::new();
        for id in 1..=NOBJ {
            all.extend(Self::cells(m, x, id));
        }
        if !all.is_empty() && self.rng.chance(3, 5) {
            self.rng.pick(&all)[1]
        } else {
            *self.rng.pick(&SIZES)
        }
    }

    fn op(&mut self, m: &Machine) -> Value {
        let x = if self.rng.chance(3, 5) { 0 } else { 1 };
        let n_obj = (1..=NOBJ).filter(|i| m.has(x, *i)).count();
        let k = self.rng.below(100);
        if n_obj == 0 || k < 7 {
            // a new object; rarely under an identifier that exists already
            let absent: Vec<usize> = (1..=NOBJ).filter(|i| !m.has(x, *i)).collect();
            let id = if absent.is_empty() || self.rng.chance(1, 4) { self.rng.range(1, NOBJ as i64) as usize } else { *self.rng.pick(&absent) };
            let ty = *self.rng.pick(&["heap", "heap", "stack", "none"]);
            if self.rng.chance(1, 2) {
                return json!({"ev": "insert", "x": xname(x), "id": id, "via": "add", "ty": ty});
            }
            // insert an object with contents: a copy of the object of the same identifier in either list
            // (so that equal cells meet), or a few fresh cells
            let mut cells: Vec<Vec<i64>> = Vec::new();
            let src = if self.rng.chance(1, 2) { x } else { 1 - x };
            if self.rng.chance(2, 3) {
                cells = Self::cells(m, src, id);
            }
            if cells.is_empty() || self.rng.chance(1, 3) {
                let mut o = self.rng.range(self.lo, self.lo + 4);
                cells.clear();
                for _ in 0..self.rng.range(0, 3) {
                    let s = *self.rng.pick(&SIZES);
                    let mut c = vec![o];
                    let v = self.val(s);
                    if !(v[1] == ABSENT && v[3] == ABSENT && v[4] == ABSENT) {
                        c.extend(v);
                        cells.push(c);
                    }
                    o += s + self.rng.range(0, 2);
                }
            }
            let mut refs: BTreeSet<i64> = BTreeSet::new();
            for c in cells.iter() {
                for (i, r) in c[4..].iter().enumerate() {
                    if *r != ABSENT {
                        refs.insert(i as i64 + 1);
                    }
                }
            }
            if self.rng.chance(1, 5) {
                refs.insert(self.rng.range(1, NOBJ as i64));
            }
            let refs: Vec<i64> = refs.into_iter().collect();
            let obj = json!({"uniq": !self.rng.chance(1, 5), "refs": refs, "cells": cells});
            json!({"ev": "insert", "x": xname(x), "id": id, "via": "insert", "ty": ty, "obj": obj})
        } else if k < 62 {
            let mut s = self.size(m, x);
            let mut p = self.ptr(m, x, s);
            // often write exactly onto existing cells (same size), so that weak updates keep precision
            if self.rng.chance(1, 2) {
                if let Some(t) = p["tg"].as_array().unwrap().first() {
                    if t["lo"] == t["hi"] {
                        if let Some(cs) = Self::cell_size(m, x, t["id"].as_u64().unwrap() as usize, t["lo"].as_i64().unwrap()) {
                            s = cs;
                        }
                    }
                }
            }
            if self.rng.chance(1, 12) {
                p = self.ptr(m, x, s);
            }
            if self.rng.chance(1, 4) {
                if let Some(q) = self.aimed_ptr(m, x, s) {
                    p = q;
                }
            }
            let via = if self.rng.chance(1, 4) { "object" } else { "list" };
            json!({"ev": "set", "x": xname(x), "ptr": p, "val": self.val(s), "via": via})
        } else if k < 70 {
            let present: Vec<usize> = (1..=NOBJ).filter(|i| m.has(x, *i)).collect();
            let id = *self.rng.pick(&present);
            let s = self.size(m, x);
            let o = self.target(m, id, s, 70);
            let p = json!({"tg": [tspec(id, &o)], "abs": false, "top": false});
            json!({"ev": "wmerge", "x": xname(x), "ptr": p, "val": self.val(s)})
        } else if k < 73 {
            let id = self.some_id(m, x);
            let add: Vec<i64> = if self.rng.chance(1, 2) { vec![self.rng.range(1, NOBJ as i64)] } else { vec![] };
            json!({"ev": "arb", "x": xname(x), "id": id, "add": add})
        } else if k < 78 {
            json!({"ev": "nonuniq", "x": xname(x), "id": self.some_id(m, x)})
        } else if k < 90 {
            let src = if self.rng.chance(1, 12) { x } else { 1 - x };
            json!({"ev": "merge", "dst": xname(x), "src": xname(src)})
        } else {
            json!({"ev": "copy", "dst": xname(x), "src": xname(1 - x)})
        }
    }

    /// an observation of list x: get_value aimed at existing cells (exact, several targets, intervals
    /// whose stride steps from cell to cell), or is_unique_object
    fn observe(&mut self, m: &Machine, x: usize) -> Value {
        if self.rng.chance(1, 8) {
            return json!({"ev": "isuniq", "x": xname(x), "id": self.rng.range(1, NOBJ as i64)});
        }
        let s = self.size(m, x);
        let mut p = self.ptr(m, x, s);
        if self.rng.chance(2, 5) {
            if let Some(q) = self.aimed_ptr(m, x, s) {
                p = q;
            }
        } else if self.rng.chance(1, 4) {
            // an interval that steps exactly over two cells of one object
            for id in 1..=NOBJ {
                let cs: Vec<Vec<i64>> = Self::cells(m, x, id).into_iter().filter(|c| c[1] == s).collect();
                if cs.len() >= 2 {
                    let i = self.rng.below(cs.len() as u64 - 1) as usize;
                    let (a, b) = (cs[i][0], cs[i + 1][0]);
                    p = json!({"tg": [tspec(id, &Off::Iv(a, b, (b - a) as u64))], "abs": false, "top": false});
                    break;
                }
            }
        }
        json!({"ev": "get", "x": xname(x), "ptr": p, "size": s})
    }
}

/// feature tags of one executed event (counted only):
/// "weak" a write that is not a strong update (several targets / absolute part / top flag / non-unique
/// object / merge_value) left an UNFLAGGED cell at an exactly addressed offset; "read" a get_value through
/// two or more targets, or through an interval, returned a value without the top flag; "strong" a strong update
fn features(before: &Value, ev: &Value) -> (bool, bool, bool) {
    let kind = ev["ev"].as_str().unwrap();
    if kind == "get" {
        let tg = ev["ptr"]["tg"].as_array().unwrap();
        let multi = tg.len() >= 2 || tg.iter().any(|t| t["lo"] != t["hi"]);
        return (false, multi && ev["res"][2] == 0 && ev["res"] != json!([ev["size"], ABSENT, 0, ABSENT, ABSENT]), false);
    }
    if kind != "set" && kind != "wmerge" {
        return (false, false, false);
    }
    let x = xidx(&ev["x"]);
    let tg = ev["ptr"]["tg"].as_array().unwrap();
    let obj = |st: &Value, id: &Value| st[x].as_array().unwrap().iter().find(|o| &o["id"] == id).cloned();
    let single = tg.len() == 1 && ev["ptr"]["abs"] == false && ev["ptr"]["top"] == false;
    let strong = kind == "set" && single && tg[0]["lo"] == tg[0]["hi"] && tg[0]["k"] == "iv"
        && obj(before, &tg[0]["id"]).map(|o| o["uniq"] == true).unwrap_or(false);
    let mut weak = false;
    if !strong {
        for t in tg.iter().filter(|t| t["k"] == "iv" && t["lo"] == t["hi"]) {
            if let Some(o) = obj(&ev["state"], &t["id"]) {
                weak |= o["cells"].as_array().unwrap().iter().any(|c| c[0] == t["lo"] && c[3] == 0);
            }
        }
    }
    (weak, false, strong)
}

fn random_case(rng: &mut Rng, case: u64, n_ops: u64, kinds: &mut BTreeMap<String, u64>, feats: &mut [u64; 3]) -> (Vec<Value>, bool) {
    let lo = *rng.pick(&[-8i64, 0, 0, -24]);
    let span = *rng.pick(&[8i64, 16, 24, 32]);
    let mut g = Gen { rng: rng.fork(), lo, hi: lo + span, extreme: std::env::var_os("VERIF_X05_NO_EXTREME").is_none() };
    let mut m = Machine::new();
    let mut evs = vec![reset_event("rand", case)];
    let mut nontrivial = false;
    let mut run = |m: &mut Machine, op: &Value, evs: &mut Vec<Value>| {
        let before = m.state();
        let ev = m.exec(op);
        let (w, r, s) = features(&before, &ev);
        feats[0] += w as u64;
        feats[1] += r as u64;
        feats[2] += s as u64;
        *kinds.entry(ev["ev"].as_str().unwrap().to_string()).or_insert(0) += 1;
        evs.push(ev);
        w || r
    };
    for _ in 0..n_ops {
        let op = g.op(&m);
        nontrivial |= run(&mut m, &op, &mut evs);
        let x = if op["ev"] == "merge" || op["ev"] == "copy" { xidx(&op["dst"]) } else { xidx(&op["x"]) };
        for _ in 0..g.rng.below(3) {
            let q = g.observe(&m, x);
            nontrivial |= run(&mut m, &q, &mut evs);
        }
    }
    (evs, nontrivial)
}

/// Re-execute the operations of a list of recorded events / operation records (outputs ignored).
fn run_ops(src: &str, case: u64, ops: &[Value]) -> Vec<Value> {
    let mut m = Machine::new();
    let mut evs = vec![reset_event(src, case)];
    for op in ops {
        evs.push(m.exec(op));
    }
    evs
}

pub fn gen(out: &mut Out, _sub: &str) {
    let mut rng = Rng::new(out.seed ^ 0x0A05);
    let cases = out.size(400, 16000);
    let mut kinds: BTreeMap<String, u64> = BTreeMap::new();
    let mut feats = [0u64; 3];
    for case in 0..cases {
        let n_ops = *rng.pick(&[12u64, 25, 40, 40]);
        let (evs, nt) = random_case(&mut rng, case, n_ops, &mut kinds, &mut feats);
        out.emit(evs, nt);
    }
    out.extra.insert("events_by_kind".into(), json!(kinds));
    out.extra.insert("weak_writes_keeping_an_unflagged_cell".into(), json!(feats[0]));
    out.extra.insert("multi_target_or_interval_reads_without_top_flag".into(), json!(feats[1]));
    out.extra.insert("strong_updates".into(), json!(feats[2]));
}

pub fn replay(run: &[Value], _sub: &str) -> Vec<Value> {
    let (src, case, ops) = match run.first() {
        Some(e) if e["ev"] == "reset" => (e["src"].as_str().unwrap_or("replay").to_string(), e["case"].as_u64().unwrap_or(0), &run[1..]),
        _ => ("replay".to_string(), 0, run),
    };
    run_ops(&src, case, ops)
}
