//! C01: constant folding (`Bitvector::bin_op/un_op/cast/subpiece`, `BitvectorDomain`, `Expression::bytesize`).
use crate::enc::*;
use crate::out::{catch, Out};
use crate::rng::Rng;
use cwe_checker_lib::abstract_domain::{BitvectorDomain, RegisterDomain, SizedDomain};
use cwe_checker_lib::intermediate_representation::*;
use serde_json::{json, Value};

pub const INT_BIN_OPS: [&str; 26] = [
    "Piece", "IntEqual", "IntNotEqual", "IntLess", "IntSLess", "IntLessEqual", "IntSLessEqual", "IntAdd",
    "IntSub", "IntCarry", "IntSCarry", "IntSBorrow", "IntXOr", "IntAnd", "IntOr", "IntLeft", "IntRight",
    "IntSRight", "IntMult", "IntDiv", "IntRem", "IntSDiv", "IntSRem", "BoolXOr", "BoolAnd", "BoolOr",
];
const FLOAT_BIN_OPS: [&str; 8] = [
    "FloatEqual", "FloatNotEqual", "FloatLess", "FloatLessEqual", "FloatAdd", "FloatSub", "FloatMult", "FloatDiv",
];
const UN_OPS: [&str; 10] = [
    "IntNegate", "Int2Comp", "BoolNegate", "FloatNegate", "FloatAbs", "FloatSqrt", "FloatCeil", "FloatFloor",
    "FloatRound", "FloatNaN",
];
const CAST_OPS: [&str; 7] = ["IntZExt", "IntSExt", "Int2Float", "Float2Float", "Trunc", "PopCount", "LzCount"];

pub fn parse<T: serde::de::DeserializeOwned>(name: &str) -> T {
    serde_json::from_value(Value::String(name.to_string())).unwrap()
}

fn dom_fields(ev: &mut serde_json::Map<String, Value>, d: Result<BitvectorDomain, String>) {
    match d {
        Ok(BitvectorDomain::Value(v)) => {
            ev.insert("dom_k".into(), json!("value"));
            ev.insert("dom_s".into(), json!(u64::from(v.bytesize())));
            ev.insert("dom_v".into(), bv(&v));
        }
        Ok(d) => {
            ev.insert("dom_k".into(), json!("top"));
            ev.insert("dom_s".into(), json!(u64::from(d.bytesize())));
            ev.insert("dom_v".into(), json!([]));
        }
        Err(p) => {
            ev.insert("dom_k".into(), json!("panic"));
            ev.insert("dom_s".into(), json!(0));
            ev.insert("dom_v".into(), json!([]));
            ev.insert("panic".into(), json!(p));
        }
    }
}

/// Re-execute one recorded event's inputs on the real code.
pub fn exec(input: &Value) -> Value {
    let kind = input["kind"].as_str().unwrap().to_string();
    let op = input["op"].as_str().unwrap().to_string();
    let a = bv_from_json(&input["a"]);
    let size = input["size"].as_u64().unwrap();
    let low = input["low"].as_u64().unwrap();
    let mut ev = serde_json::Map::new();
    for k in ["kind", "op", "a", "b", "size", "low"] {
        ev.insert(k.to_string(), input[k].clone());
    }
    ev.insert("ev".into(), json!("op"));
    ev.insert("panic".into(), json!(""));
    let (res, dom, expr_size): (Result<Result<Bitvector, ()>, String>, Result<BitvectorDomain, String>, Result<u64, String>) =
        match kind.as_str() {
            "bin" => {
                let b = bv_from_json(&input["b"]);
                let o: BinOpType = parse(&op);
                let (a1, b1) = (a.clone(), b.clone());
                let r = catch(move || a1.bin_op(o, &b1).map_err(|_| ()));
                let (a2, b2) = (a.clone(), b.clone());
                let d = catch(move || BitvectorDomain::Value(a2).bin_op(o, &BitvectorDomain::Value(b2)));
                let e = Expression::BinOp { op: o, lhs: Box::new(Expression::Const(a.clone())), rhs: Box::new(Expression::Const(b.clone())) };
                (r, d, catch(move || u64::from(e.bytesize())))
            }
            "un" => {
                let o: UnOpType = parse(&op);
                let a1 = a.clone();
                let r = catch(move || a1.un_op(o).map_err(|_| ()));
                let a2 = a.clone();
                let d = catch(move || BitvectorDomain::Value(a2).un_op(o));
                let e = Expression::UnOp { op: o, arg: Box::new(Expression::Const(a.clone())) };
                (r, d, catch(move || u64::from(e.bytesize())))
            }
            "cast" => {
                let o: CastOpType = parse(&op);
                let a1 = a.clone();
                let r = catch(move || a1.cast(o, ByteSize::new(size)).map_err(|_| ()));
                let a2 = a.clone();
                let d = catch(move || BitvectorDomain::Value(a2).cast(o, ByteSize::new(size)));
                let e = Expression::Cast { op: o, size: ByteSize::new(size), arg: Box::new(Expression::Const(a.clone())) };
                (r, d, catch(move || u64::from(e.bytesize())))
            }
            _ => {
                let a1 = a.clone();
                let r = catch(move || Ok(a1.subpiece(ByteSize::new(low), ByteSize::new(size))));
                let a2 = a.clone();
                let d = catch(move || BitvectorDomain::Value(a2).subpiece(ByteSize::new(low), ByteSize::new(size)));
                let e = Expression::Subpiece { low_byte: ByteSize::new(low), size: ByteSize::new(size), arg: Box::new(Expression::Const(a.clone())) };
                (r, d, catch(move || u64::from(e.bytesize())))
            }
        };
    match res {
        Ok(Ok(v)) => { ev.insert("res".into(), bv(&v)); }
        Ok(Err(())) => { ev.insert("res".into(), json!([])); }
        Err(p) => { ev.insert("res".into(), json!([])); ev.insert("panic".into(), json!(p)); }
    }
    dom_fields(&mut ev, dom);
    match expr_size {
        Ok(s) => { ev.insert("expr_size".into(), json!(s)); }
        Err(p) => { ev.insert("expr_size".into(), json!(0)); ev.insert("panic".into(), json!(p)); }
    }
    Value::Object(ev)
}

fn bytes_of(x: u128, w: u64) -> Value {
    Value::Array((0..w).map(|i| json!(((x >> (8 * i)) & 0xff) as u64)).collect())
}

fn boundary(w: u64) -> Vec<u128> {
    let bits = 8 * w as u32;
    let mask: u128 = if bits == 128 { u128::MAX } else { (1u128 << bits) - 1 };
    let min = 1u128 << (bits - 1);
    let mut v = vec![0, 1, 2, mask, mask - 1, min, min + 1, min - 1, min - 2];
    for k in [3, 7, 8, 15, 16, 31, 32, 63, 64] {
        if k < bits {
            v.push(1u128 << k);
            v.push((1u128 << k) - 1);
            v.push((1u128 << k) + 1);
            v.push(mask - (1u128 << k));
        }
    }
    v.sort();
    v.dedup();
    v
}

fn rand_val(rng: &mut Rng, w: u64) -> u128 {
    let bits = 8 * w as u32;
    let mask: u128 = if bits == 128 { u128::MAX } else { (1u128 << bits) - 1 };
    let x = ((rng.next() as u128) << 64) | rng.next() as u128;
    match rng.below(4) {
        0 => *rng.pick(&boundary(w)),
        1 => x & mask & 0xffff,                  // small
        2 => (mask - (x & 0xff)) & mask,         // small negative
        _ => x & mask,
    }
}

fn input(kind: &str, op: &str, a: Value, b: Value, size: u64, low: u64) -> Value {
    json!({"kind": kind, "op": op, "a": a, "b": b, "size": size, "low": low})
}

fn nontrivial(ev: &Value) -> bool {
    // rule: result is a value, not equal to either operand and not zero
    let r = ev["res"].as_array().unwrap();
    !r.is_empty() && ev["res"] != ev["a"] && ev["res"] != ev["b"] && r.iter().any(|x| x.as_u64() != Some(0))
}

fn push(out: &mut Out, inp: Value) {
    let ev = exec(&inp);
    let nt = nontrivial(&ev);
    out.emit(vec![ev], nt);
}

pub fn replay(run: &[Value], _sub: &str) -> Vec<Value> {
    run.iter().map(exec).collect()
}

pub fn gen(out: &mut Out, _sub: &str) {
    let mut rng = Rng::new(out.seed ^ 0xC01);
    let thorough = !out.quick();
    // ---- width 1 -------------------------------------------------------------------------
    let w1: Vec<u128> = if thorough {
        (0..256).collect()
    } else {
        let mut v = boundary(1);
        for _ in 0..24 { v.push(rng.below(256) as u128); }
        v.sort(); v.dedup(); v
    };
    for op in INT_BIN_OPS {
        let boolop = op.starts_with("Bool");
        for &a in &w1 {
            for &b in &w1 {
                let _ = boolop;
                push(out, input("bin", op, bytes_of(a, 1), bytes_of(b, 1), 0, 0));
            }
        }
    }
    out.extra.insert("width1_pairs_per_op".into(), json!(w1.len() * w1.len()));
    out.extra.insert("width1_exhaustive".into(), json!(thorough));
    for a in 0..256u128 {
        for op in ["IntNegate", "Int2Comp"] {
            push(out, input("un", op, bytes_of(a, 1), json!([]), 0, 0));
        }
        for op in ["IntZExt", "IntSExt", "PopCount", "LzCount"] {
            for size in [1u64, 2, 4, 8] {
                push(out, input("cast", op, bytes_of(a, 1), json!([]), size, 0));
            }
        }
    }
    for a in 0..2u128 {
        push(out, input("un", "BoolNegate", bytes_of(a, 1), json!([]), 0, 0));
    }
    // ---- wider widths --------------------------------------------------------------------
    let n_rand = out.size(40, 1500);
    for w in [2u64, 4, 8, 16] {
        let bnd = boundary(w);
        for op in INT_BIN_OPS {
            if op.starts_with("Bool") { continue; }
            let shift = matches!(op, "IntLeft" | "IntRight" | "IntSRight");
            let mut pairs: Vec<(u128, u128, u64)> = Vec::new();
            if shift {
                for &a in bnd.iter().chain([rand_val(&mut rng, w), rand_val(&mut rng, w)].iter()) {
                    for wb in [1u64, 2, 4, 8] {
                        for amt in [0u128, 1, 7, 8, 9, 8 * w as u128 - 1, 8 * w as u128, 8 * w as u128 + 1, 255, 256, 65535, 65536] {
                            if wb == 1 && amt > 255 { continue; }
                            if wb == 2 && amt > 65535 { continue; }
                            pairs.push((a, amt, wb));
                        }
                        pairs.push((a, rand_val(&mut rng, wb), wb));
                    }
                }
            } else {
                let wb = if op == "Piece" { *rng.pick(&[1u64, 2, 4, 8]) } else { w };
                let bb = boundary(wb);
                let stride = if thorough { 1 } else { 3 };
                for (i, &a) in bnd.iter().enumerate() {
                    for (j, &b) in bb.iter().enumerate() {
                        if (i + j) % stride == 0 { pairs.push((a, b, wb)); }
                    }
                }
                for _ in 0..n_rand {
                    let a = rand_val(&mut rng, w);
                    let b = match rng.below(6) { 0 => a, 1 => a.wrapping_add(1), 2 => a.wrapping_sub(1), _ => rand_val(&mut rng, wb) };
                    let maskb: u128 = if wb == 16 { u128::MAX } else { (1u128 << (8 * wb)) - 1 };
                    pairs.push((a, b & maskb, wb));
                }
            }
            for (a, b, wb) in pairs {
                push(out, input("bin", op, bytes_of(a, w), bytes_of(b, wb), 0, 0));
            }
        }
        for op in FLOAT_BIN_OPS {
            for _ in 0..3 {
                push(out, input("bin", op, bytes_of(rand_val(&mut rng, w), w), bytes_of(rand_val(&mut rng, w), w), 0, 0));
            }
        }
        let mut vals = bnd.clone();
        for _ in 0..n_rand { vals.push(rand_val(&mut rng, w)); }
        for &a in &vals {
            for op in UN_OPS {
                if op == "BoolNegate" { continue; }
                if op.starts_with("Float") && rng.chance(9, 10) { continue; }
                push(out, input("un", op, bytes_of(a, w), json!([]), 0, 0));
            }
            for op in CAST_OPS {
                let sizes: Vec<u64> = match op {
                    "IntZExt" | "IntSExt" => [1u64, 2, 4, 8, 16, 32].iter().cloned().filter(|s| *s >= w).collect(),
                    "PopCount" | "LzCount" => vec![1, 2, 4, 8],
                    _ => if rng.chance(1, 10) { vec![4, 8] } else { vec![] },
                };
                for size in sizes {
                    push(out, input("cast", op, bytes_of(a, w), json!([]), size, 0));
                }
            }
            // all subpieces for small widths, sampled for 16
            for low in 0..w {
                for size in 1..=(w - low) {
                    if w >= 8 && !thorough && rng.chance(3, 4) { continue; }
                    push(out, input("sub", "Subpiece", bytes_of(a, w), json!([]), size, low));
                }
            }
        }
    }
}
