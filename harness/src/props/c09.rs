//! C09: `Project::normalize_basic` on raw programs "as the P-Code extractor may emit them".
//! One event per program: the raw program, the normalised program, whether normalisation or the
//! subsequent `get_program_cfg` panicked, and the graph that was built.  spec/trace/T_C09.tla checks
//! the invariants of spec/Normalize.tla and (reusing C08) the graph against spec/Cfg.tla.
use crate::cfgenc;
use crate::irenc;
use crate::irgen::{self, Knobs, RawKnobs, RawStats};
use crate::out::{catch, Out};
use crate::rng::Rng;
use cwe_checker_lib::analysis::graph::get_program_cfg;
use cwe_checker_lib::intermediate_representation::*;
use serde_json::{json, Value};

pub fn exec(raw: &Term<Program>, origin: &str) -> Value {
    let mut project = irgen::project_of(raw.clone());
    let norm_res = catch(std::panic::AssertUnwindSafe(|| {
        let logs = project.normalize_basic();
        logs.len()
    }));
    let empty = json!({"subs": [], "externs": [], "entry_points": []});
    let (norm, logs, norm_panic) = match &norm_res {
        Ok(n) => (irenc::program(&project.program.term), *n, String::new()),
        Err(msg) => (empty, 0, msg.clone()),
    };
    let (nodes, edges, entries, cfg_panic) = if norm_res.is_ok() {
        let p2 = project.program.clone();
        match catch(move || {
            let g = get_program_cfg(&p2);
            cfgenc::graph(&g)
        }) {
            Ok((n, e, en)) => (n, e, en, String::new()),
            Err(msg) => (json!([]), json!([]), json!([]), msg),
        }
    } else {
        (json!([]), json!([]), json!([]), String::new())
    };
    json!({"ev": "norm", "origin": origin, "raw": irenc::program(&raw.term), "norm": norm, "logs": logs,
           "norm_panic": norm_panic, "cfg_panic": cfg_panic, "nodes": nodes, "edges": edges, "entries": entries,
           "serde": irgen::program_to_string(raw)})
}

pub fn replay(run: &[Value], _sub: &str) -> Vec<Value> {
    run.iter()
        .map(|e| exec(&irgen::program_from_string(e["serde"].as_str().unwrap()), e["origin"].as_str().unwrap_or("replay")))
        .collect()
}

pub fn gen(out: &mut Out, _sub: &str) {
    let mut rng = Rng::new(out.seed ^ 0xC09);
    let n = out.size(900, 24000);
    let mut kinds = [0u64; 3];
    for i in 0..n {
        let mut r = rng.fork();
        let mut k = Knobs::default();
        // conditionally executed calls (CBranch + call-like instruction in second position)
        k.w_cbranch_call_internal = 6;
        k.w_cbranch_call_extern = 4;
        k.w_cbranch_callind = 2;
        k.w_cbranch_callother = 1;
        let mut rk = RawKnobs::default();
        match i % 5 {
            0 => { k.max_subs = 2; k.max_blocks = 3; }
            1 => { k.max_subs = 3; k.max_blocks = 4; rk.shared_listed = 2; rk.shared_reached = 3; k.pct_forward = 80; }
            2 => { k.max_subs = 4; k.max_blocks = 5; rk.dup_blocks = 2; rk.dup_defs = 2; rk.dup_jmps = 2; k.max_defs = 3; }
            3 => { k.max_subs = 3; k.max_blocks = 4; rk.dangling_jumps = 3; rk.dangling_calls = 2; rk.dangling_rets = 2; rk.dangling_hints = 2;
                   k.w_call_extern = 16; k.pct_last_returns = 30; }
            _ => { k.max_subs = 5; k.max_blocks = 6; k.pct_forward = 70; }
        }
        let (raw, st): (Term<Program>, RawStats) = irgen::gen_raw_program_stats(&mut r, &k, &rk);
        let ev = exec(&raw, "raw");
        let present = [st.dangling > 0, st.shared > 0, st.dups > 0];
        for (c, p) in kinds.iter_mut().zip(present) {
            *c += p as u64;
        }
        // feature tag (counted only): at least two kinds of irregularity were injected
        let nt = present.iter().filter(|x| **x).count() >= 2;
        out.emit(vec![ev], nt);
    }
    out.extra.insert("programs_with_dangling_targets".into(), json!(kinds[0]));
    out.extra.insert("programs_with_shared_blocks".into(), json!(kinds[1]));
    out.extra.insert("programs_with_duplicate_tids".into(), json!(kinds[2]));
}
