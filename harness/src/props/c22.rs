//! C22: check selection runs exactly the requested checks.
//! One case = one generated input: reset{versions, baseline = all-checks run} + several selections.
use crate::cli;
use crate::out::Out;
use crate::pcodegen::Knobs;
use crate::props::c21;
use crate::rng::Rng;
use serde_json::{json, Value};

fn knobs(rng: &mut Rng, lkm: bool) -> Knobs {
    // trigger several syntactic checks at once
    Knobs { n_funcs: 2 + rng.below(3) as usize, max_blocks: 6 + rng.below(6) as usize, must_call: c21::TRIGGERS.to_vec(), lkm, lost_roots: false }
}

/// Re-execute one case from its reset event (which carries the inputs of every invocation).
pub fn exec_case(reset: &Value) -> Vec<Value> {
    let seed = reset["gen_seed"].as_u64().unwrap();
    let kind = reset["kind"].as_str().unwrap().to_string();
    let dir = reset["dir"].as_str().unwrap().to_string();
    let id = reset["id"].as_str().unwrap().to_string();
    let lkm = kind == "lkm";
    let mut rng = Rng::new(seed);
    let kn = knobs(&mut rng, lkm);
    let (pj, bp) = cli::materialize(&dir, &id, &mut rng, &kn, &kind);
    let all = if lkm { c21::LKM_MODULES.join(",") } else { cli::ALL_MODULES.join(",") };
    let baseline = cli::invoke(&pj, &bp, lkm, Some(&all), 180);
    let versions = cli::module_versions();
    let mut evs = vec![json!({"ev": "reset", "gen_seed": seed, "kind": kind, "dir": dir, "id": id,
        "selections": reset["selections"], "versions": versions["list"], "versions_exit": versions["exit"],
        "versions_header": versions["header"], "baseline": baseline})];
    for sel in reset["selections"].as_array().unwrap() {
        let partial = if sel["has_partial"].as_bool().unwrap() { Some(sel["partial_raw"].as_str().unwrap().to_string()) } else { None };
        evs.push(cli::invoke(&pj, &bp, lkm, partial.as_deref(), 180));
    }
    evs
}

pub fn replay(run: &[Value], _sub: &str) -> Vec<Value> {
    match run.iter().find(|e| e["ev"] == "reset") {
        Some(r) => exec_case(r),
        None => Vec::new(),
    }
}

pub fn gen(out: &mut Out, _sub: &str) {
    let mut rng = Rng::new(out.seed ^ 0xC22);
    let n = out.size(16, 400);
    let nsel = out.size(7, 16);
    let dir = std::env::var("VERIF_SCRATCH").unwrap_or_else(|_| "/verif/.build/cli_inputs".to_string());
    let mut inputs = Vec::new();
    for i in 0..n {
        let kind = match rng.below(5) { 0 => "lkm", 1 => "rel", _ => "exec" };
        let mut sels = Vec::new();
        for k in 0..nsel {
            let kk = if k == 0 { 0 } else if k < 3 { 2 } else { 3 };
            let sel = c21::selection(&mut rng, kk, kind == "lkm");
            sels.push(json!({"has_partial": sel.is_some(), "partial_raw": sel.unwrap_or_default()}));
        }
        // systematic part: every check alone (scheduling of the analyses each single check needs) and
        // every check paired with one random other check, spread over the first inputs of the run
        let pool: Vec<&str> = if kind == "lkm" { c21::LKM_MODULES.to_vec() } else { cli::ALL_MODULES.to_vec() };
        for (j, m) in pool.iter().enumerate() {
            if j as u64 % n.min(4) == i % n.min(4) {
                sels.push(json!({"has_partial": true, "partial_raw": m}));
                let other = *rng.pick(&pool);
                sels.push(json!({"has_partial": true, "partial_raw": format!("{},{}", other, m)}));
            }
        }
        inputs.push(json!({"ev": "reset", "gen_seed": rng.next(), "kind": kind, "dir": dir, "id": format!("c22_{}", i), "selections": sels}));
    }
    let cases = crate::par::map(inputs, 8, |inp| exec_case(&inp));
    for evs in cases {
        let nt = evs[0]["baseline"]["warnings"].as_array().map(|a| {
            let names: std::collections::HashSet<&str> = a.iter().map(|w| w["name"].as_str().unwrap()).collect();
            names.len() >= 3
        }).unwrap_or(false);
        out.emit(evs, nt);
    }
}
