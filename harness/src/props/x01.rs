//! X01: the interprocedural fixpoint wrappers
//! (`analysis::forward_interprocedural_fixpoint`, `analysis::backward_interprocedural_fixpoint`,
//! `analysis::interprocedural_fixpoint_generic`) observed through table-driven, logging
//! implementations of their `Context` traits.
//!
//! The harness generates a well-formed normalised program (irgen), a finite join-semilattice and one
//! random MONOTONE table per call-back and argument combination the program can give rise to
//! (latgen), start values and (rarely) a default value; it builds the REAL computation with
//! `create_computation` / `.._with_bottom_up_worklist_order` / `.._with_top_down_worklist_order`,
//! runs `compute()` and records every call-back invocation and the final node values.  Whether these
//! are the least solution of the edge equations is decided by TLC (spec/trace/T_X01.tla over
//! spec/InterprocFix.tla), never here.
//!
//! Wire format (lattice elements 1..K, 0 = None):
//!   reset{dir "fwd"|"bwd", mode "plain"|"bottom_up"|"top_down", program (irenc), an{join,t1[],t2[]},
//!         start[{node{k,blk,sub,blk2,sub2}, v}], default, serde (replay input), lattice}
//!   cb{f,a,b,c,d, x,y,o, tag}     one call-back invocation: key, input(s), answer; tag = feature tag
//!   end{nodes[node], vals[[p,s,f]], stabilized, panic, capped, default, has_default, dir, mode}
//!         p = 0 no value | 1 NodeValue::Value(s) | 2 CallFlowCombinator{call_stub s, interprocedural_flow f}
use crate::cfgenc;
use crate::irenc;
use crate::irgen::{self, Knobs};
use crate::latgen;
use crate::out::{catch, Out};
use crate::rng::Rng;
use cwe_checker_lib::analysis::backward_interprocedural_fixpoint as bwd;
use cwe_checker_lib::analysis::fixpoint::{Computation, Context as GeneralContext};
use cwe_checker_lib::analysis::forward_interprocedural_fixpoint as fwd;
use cwe_checker_lib::analysis::graph::{get_program_cfg, Graph, Node};
use cwe_checker_lib::analysis::interprocedural_fixpoint_generic::NodeValue;
use cwe_checker_lib::intermediate_representation::*;
use petgraph::graph::NodeIndex;
use serde_json::{json, Value};
use std::cell::{Cell, RefCell};
use std::collections::HashMap;
use std::panic::AssertUnwindSafe;
use std::rc::Rc;

/// A solver that does not terminate is stopped by a panic of the call-back (recorded in `end.panic`).
/// Node values only grow and the lattices have height <= 3 (combinators: <= 7), so every edge is
/// evaluated a bounded number of times; the budget is far above that for every generated problem.
const CALL_BUDGET: u64 = 200_000;
const LOG_CAP: usize = 6_000;
pub const BUDGET_MSG: &str = "harness: call-back budget exceeded (the computation does not terminate)";

type Key = [String; 5];
fn key(f: &str, a: &str, b: &str, c: &str, d: &str) -> Key {
    [f.to_string(), a.to_string(), b.to_string(), c.to_string(), d.to_string()]
}
fn ts(t: &Tid) -> String {
    t.to_string()
}
fn cond_sig(e: &Expression) -> String {
    match e {
        Expression::Var(v) => v.name.clone(),
        _ => "?".to_string(),
    }
}
fn cconv(c: &Option<String>) -> String {
    c.clone().unwrap_or_default()
}

/// the table-driven analysis and the log, shared by both Context implementations
struct Shared {
    join: Vec<Vec<u8>>,
    t1: HashMap<Key, Vec<u8>>,
    t2: HashMap<Key, Vec<Vec<u8>>>,
    log: RefCell<Vec<Value>>,
    calls: Cell<u64>,
    capped: Cell<bool>,
}

impl Shared {
    fn tick(&self) {
        self.calls.set(self.calls.get() + 1);
        if self.calls.get() > CALL_BUDGET {
            panic!("{}", BUDGET_MSG);
        }
    }
    fn record(&self, k: &Key, x: u8, y: u8, o: u8, tag: &str) {
        let mut log = self.log.borrow_mut();
        if log.len() < LOG_CAP {
            log.push(json!({"ev": "cb", "f": k[0], "a": k[1], "b": k[2], "c": k[3], "d": k[4], "x": x, "y": y, "o": o, "tag": tag}));
        } else {
            self.capped.set(true);
        }
    }
    /// a call-back of one value.  A key without table (arguments that the harness did not foresee)
    /// is answered by the identity and tagged; the specification decides what that means.
    fn one(&self, k: Key, x: u8, tag: &str) -> Option<u8> {
        self.tick();
        let (o, tag) = match self.t1.get(&k) {
            Some(t) => (t[x as usize - 1], tag.to_string()),
            None => (x, format!("{}{}no-table", tag, if tag.is_empty() { "" } else { " " })),
        };
        self.record(&k, x, 0, o, &tag);
        if o == 0 {
            None
        } else {
            Some(o)
        }
    }
    /// a call-back of two optional values (x = interprocedural flow, y = call stub)
    fn two(&self, k: Key, x: Option<&u8>, y: Option<&u8>, tag: &str) -> Option<u8> {
        self.tick();
        let (x, y) = (x.copied().unwrap_or(0), y.copied().unwrap_or(0));
        let (o, tag) = match self.t2.get(&k) {
            Some(t) => (t[x as usize][y as usize], tag.to_string()),
            None => (if x != 0 { x } else { y }, format!("{}{}no-table", tag, if tag.is_empty() { "" } else { " " })),
        };
        self.record(&k, x, y, o, &tag);
        if o == 0 {
            None
        } else {
            Some(o)
        }
    }
    fn merge(&self, a: u8, b: u8) -> u8 {
        self.tick();
        let o = self.join[a as usize - 1][b as usize - 1];
        self.record(&key("merge", "", "", "", ""), a, b, o, "");
        o
    }
}

struct Fwd<'a> {
    graph: &'a Graph<'a>,
    sh: Rc<Shared>,
}

impl<'a> fwd::Context<'a> for Fwd<'a> {
    type Value = u8;
    fn get_graph(&self) -> &Graph<'a> {
        self.graph
    }
    fn merge(&self, a: &u8, b: &u8) -> u8 {
        self.sh.merge(*a, *b)
    }
    fn update_def(&self, value: &u8, def: &Term<Def>) -> Option<u8> {
        self.sh.one(key("def", &ts(&def.tid), "", "", ""), *value, "")
    }
    fn update_jump(&self, value: &u8, jump: &Term<Jmp>, untaken: Option<&Term<Jmp>>, target: &Term<Blk>) -> Option<u8> {
        let u = untaken.map(|j| ts(&j.tid)).unwrap_or_default();
        self.sh.one(key("jump", &ts(&jump.tid), &u, &ts(&target.tid), ""), *value, "")
    }
    fn update_call(&self, value: &u8, call: &Term<Jmp>, target: &Node, calling_convention: &Option<String>) -> Option<u8> {
        let (b, s) = match target {
            Node::BlkStart(b, s) => (ts(&b.tid), ts(&s.tid)),
            _ => ("?".to_string(), "?".to_string()),
        };
        self.sh.one(key("call", &ts(&call.tid), &b, &s, &cconv(calling_convention)), *value, "")
    }
    fn update_return(
        &self,
        value: Option<&u8>,
        value_before_call: Option<&u8>,
        call_term: &Term<Jmp>,
        return_term: &Term<Jmp>,
        calling_convention: &Option<String>,
    ) -> Option<u8> {
        // feature tag only: what kind of term was handed over as the return instruction
        let tag = match &return_term.term {
            Jmp::Return(_) => "",
            Jmp::CBranch { .. } => "return-term-is-a-cbranch",
            _ => "return-term-is-not-a-return",
        };
        self.sh.two(key("ret", &ts(&call_term.tid), &ts(&return_term.tid), &cconv(calling_convention), ""), value, value_before_call, tag)
    }
    fn update_call_stub(&self, value: &u8, call: &Term<Jmp>) -> Option<u8> {
        self.sh.one(key("stub", &ts(&call.tid), "", "", ""), *value, "")
    }
    fn specialize_conditional(&self, value: &u8, condition: &Expression, block: &Term<Blk>, is_true: bool) -> Option<u8> {
        self.sh.one(key("spec", &ts(&block.tid), &cond_sig(condition), if is_true { "T" } else { "F" }, ""), *value, "")
    }
}

struct Bwd<'a> {
    graph: &'a Graph<'a>,
    sh: Rc<Shared>,
}

impl<'a> bwd::Context<'a> for Bwd<'a> {
    type Value = u8;
    fn get_graph(&self) -> &Graph<'a> {
        self.graph
    }
    fn merge(&self, a: &u8, b: &u8) -> u8 {
        self.sh.merge(*a, *b)
    }
    fn update_def(&self, value: &u8, def: &Term<Def>) -> Option<u8> {
        self.sh.one(key("def", &ts(&def.tid), "", "", ""), *value, "")
    }
    fn update_jumpsite(&self, value: &u8, jump: &Term<Jmp>, untaken: Option<&Term<Jmp>>, jumpsite: &Term<Blk>) -> Option<u8> {
        let u = untaken.map(|j| ts(&j.tid)).unwrap_or_default();
        self.sh.one(key("jumpsite", &ts(&jump.tid), &u, &ts(&jumpsite.tid), ""), *value, "")
    }
    fn update_callsite(
        &self,
        target_value: Option<&u8>,
        return_value: Option<&u8>,
        caller_sub: &Term<Sub>,
        call: &Term<Jmp>,
        return_: &Term<Jmp>,
    ) -> Option<u8> {
        self.sh.two(key("callsite", &ts(&caller_sub.tid), &ts(&call.tid), &ts(&return_.tid), ""), target_value, return_value, "")
    }
    fn split_call_stub(&self, combined_value: &u8) -> Option<u8> {
        self.sh.one(key("splitcall", "", "", "", ""), *combined_value, "")
    }
    fn split_return_stub(&self, combined_value: &u8, returned_from_sub: &Term<Sub>) -> Option<u8> {
        self.sh.one(key("splitret", &ts(&returned_from_sub.tid), "", "", ""), *combined_value, "")
    }
    fn update_call_stub(&self, value: &u8, call: &Term<Jmp>) -> Option<u8> {
        self.sh.one(key("stub", &ts(&call.tid), "", "", ""), *value, "")
    }
    /// The backward wrapper's documentation does not say on which edge this would be applied (the
    /// wrapper never calls it): the identity, not logged, so that either reading gives the same values.
    fn specialize_conditional(&self, value: &u8, _condition: &Expression, _is_true: bool) -> Option<u8> {
        Some(*value)
    }
}

// ------------------------------------------------------------------------------------------------
// the analysis: one table per call-back and argument combination the PROGRAM (not the graph) can
// give rise to
// ------------------------------------------------------------------------------------------------
fn returning_jmp(b: &Term<Blk>) -> Option<&Term<Jmp>> {
    b.term.jmps.iter().find(|j| matches!(j.term, Jmp::Return(_)))
}

/// (one-value keys, two-value keys)
fn keys_of(prog: &Program, dir: &str) -> (Vec<Key>, Vec<Key>) {
    let fw = dir == "fwd";
    let mut k1 = Vec::new();
    let mut k2 = Vec::new();
    if !fw {
        k1.push(key("splitcall", "", "", "", ""));
    }
    for s in prog.subs.values() {
        if !fw {
            k1.push(key("splitret", &ts(&s.tid), "", "", ""));
        }
        for b in &s.term.blocks {
            for d in &b.term.defs {
                k1.push(key("def", &ts(&d.tid), "", "", ""));
            }
            for (i, j) in b.term.jmps.iter().enumerate() {
                let untaken = if i == 1 { ts(&b.term.jmps[0].tid) } else { String::new() };
                let mut targets: Vec<String> = Vec::new();
                match &j.term {
                    Jmp::Branch(t) => targets.push(ts(t)),
                    Jmp::CBranch { target, condition } => {
                        targets.push(ts(target));
                        if fw {
                            k1.push(key("spec", &ts(&b.tid), &cond_sig(condition), "T", ""));
                            k1.push(key("spec", &ts(&b.tid), &cond_sig(condition), "F", ""));
                        }
                    }
                    Jmp::BranchInd(_) => targets.extend(b.term.indirect_jmp_targets.iter().map(ts)),
                    Jmp::Call { target, return_ } => {
                        if prog.extern_symbols.contains_key(target) {
                            if return_.is_some() {
                                k1.push(key("stub", &ts(&j.tid), "", "", ""));
                            }
                        } else if let Some(callee) = prog.subs.get(target) {
                            if let Some(entry) = callee.term.blocks.first() {
                                if fw {
                                    k1.push(key("call", &ts(&j.tid), &ts(&entry.tid), &ts(&callee.tid), &cconv(&callee.term.calling_convention)));
                                    for rb in &callee.term.blocks {
                                        if let Some(r) = returning_jmp(rb) {
                                            k2.push(key("ret", &ts(&j.tid), &ts(&r.tid), &cconv(&callee.term.calling_convention), ""));
                                        }
                                    }
                                } else {
                                    k2.push(key("callsite", &ts(&s.tid), &ts(&b.term.jmps[0].tid), &ts(&j.tid), ""));
                                }
                            }
                        }
                    }
                    Jmp::CallInd { return_, .. } => {
                        if return_.is_some() {
                            k1.push(key("stub", &ts(&j.tid), "", "", ""));
                        }
                    }
                    Jmp::CallOther { .. } | Jmp::Return(_) => (),
                }
                for t in targets {
                    if fw {
                        k1.push(key("jump", &ts(&j.tid), &untaken, &t, ""));
                    } else {
                        k1.push(key("jumpsite", &ts(&j.tid), &untaken, &ts(&b.tid), ""));
                    }
                }
            }
        }
    }
    k1.sort();
    k1.dedup();
    k2.sort();
    k2.dedup();
    (k1, k2)
}

fn entry_json(k: &Key, t: Value) -> Value {
    json!({"f": k[0], "a": k[1], "b": k[2], "c": k[3], "d": k[4], "t": t})
}

fn gen_analysis(rng: &mut Rng, prog: &Program, dir: &str, join: &[Vec<u8>]) -> Value {
    let (k1, k2) = keys_of(prog, dir);
    // per run two biases: how often call-backs are the identity, and how often the others are guarded
    // (None below a generator) - so that in many runs values travel far and in some they do not
    let pct_id = *rng.pick(&[30u64, 60, 85]);
    let pct_guard = *rng.pick(&[5u64, 15, 40]);
    let ident: Vec<u8> = (1..=join.len() as u8).collect();
    let t1: Vec<Value> = k1
        .iter()
        .map(|k| {
            let t = if rng.chance(pct_id, 100) { ident.clone() } else { latgen::table1_with(rng, join, pct_guard) };
            entry_json(k, json!(t))
        })
        .collect();
    let t2: Vec<Value> = k2.iter().map(|k| entry_json(k, json!(latgen::table2(rng, join)))).collect();
    json!({"join": join, "t1": t1, "t2": t2})
}

fn u8s(v: &Value) -> Vec<u8> {
    v.as_array().unwrap().iter().map(|x| x.as_u64().unwrap() as u8).collect()
}
fn table(v: &Value) -> Vec<Vec<u8>> {
    v.as_array().unwrap().iter().map(u8s).collect()
}
fn key_of_entry(e: &Value) -> Key {
    let s = |n: &str| e[n].as_str().unwrap().to_string();
    [s("f"), s("a"), s("b"), s("c"), s("d")]
}

// ------------------------------------------------------------------------------------------------
// one run of the real wrappers
// ------------------------------------------------------------------------------------------------
fn node_value(v: Option<&NodeValue<u8>>) -> Value {
    match v {
        None => json!([0, 0, 0]),
        Some(NodeValue::Value(x)) => json!([1, *x, 0]),
        Some(NodeValue::CallFlowCombinator { call_stub, interprocedural_flow }) => {
            json!([2, call_stub.unwrap_or(0), interprocedural_flow.unwrap_or(0)])
        }
    }
}

fn run_computation<T: GeneralContext<NodeValue = NodeValue<u8>>>(comp: &mut Computation<T>, starts: &[(usize, u8)], n: usize) -> (Vec<Value>, bool) {
    for (i, v) in starts {
        comp.set_node_value(NodeIndex::new(*i), NodeValue::Value(*v));
    }
    comp.compute();
    let vals = (0..n).map(|i| node_value(comp.get_node_value(NodeIndex::new(i)))).collect();
    (vals, comp.has_stabilized())
}

/// Execute the run described by a reset event; returns the events of the case.
pub fn exec(reset: &Value) -> Vec<Value> {
    let prog = irgen::program_from_string(reset["serde"].as_str().unwrap());
    let dir = reset["dir"].as_str().unwrap().to_string();
    let mode = reset["mode"].as_str().unwrap().to_string();
    let default = reset["default"].as_u64().unwrap() as u8;
    let an = &reset["an"];
    let sh = Rc::new(Shared {
        join: table(&an["join"]),
        t1: an["t1"].as_array().unwrap().iter().map(|e| (key_of_entry(e), u8s(&e["t"]))).collect(),
        t2: an["t2"].as_array().unwrap().iter().map(|e| (key_of_entry(e), table(&e["t"]))).collect(),
        log: RefCell::new(Vec::new()),
        calls: Cell::new(0),
        capped: Cell::new(false),
    });
    let mut end = json!({"ev": "end", "nodes": [], "vals": [], "stabilized": false, "panic": "", "capped": false,
                         "default": default, "has_default": default != 0, "dir": dir, "mode": mode});
    let built = catch(AssertUnwindSafe(|| {
        let mut g = get_program_cfg(&prog);
        if dir == "bwd" {
            g.reverse();
        }
        g
    }));
    match built {
        Err(p) => end["panic"] = json!(format!("get_program_cfg: {}", p)),
        Ok(graph) => {
            let nodes: Vec<Value> = graph.node_indices().map(|i| cfgenc::node(&graph[i])).collect();
            let n = nodes.len();
            // start nodes are named by their node record; a record that names no node is dropped
            // (the specification then misses the start value and says so)
            let starts: Vec<(usize, u8)> = reset["start"]
                .as_array()
                .unwrap()
                .iter()
                .filter_map(|s| nodes.iter().position(|x| *x == s["node"]).map(|i| (i, s["v"].as_u64().unwrap() as u8)))
                .collect();
            let dv = if default == 0 { None } else { Some(default) };
            let r = catch(AssertUnwindSafe(|| {
                if dir == "fwd" {
                    let ctx = Fwd { graph: &graph, sh: sh.clone() };
                    let mut comp = match mode.as_str() {
                        "bottom_up" => fwd::create_computation_with_bottom_up_worklist_order(ctx, dv),
                        "top_down" => fwd::create_computation_with_top_down_worklist_order(ctx, dv),
                        _ => fwd::create_computation(ctx, dv),
                    };
                    run_computation(&mut comp, &starts, n)
                } else {
                    let ctx = Bwd { graph: &graph, sh: sh.clone() };
                    let mut comp = match mode.as_str() {
                        "bottom_up" => bwd::create_computation_with_bottom_up_worklist_order(ctx, dv),
                        "top_down" => bwd::create_computation_with_top_down_worklist_order(ctx, dv),
                        _ => bwd::create_computation(ctx, dv),
                    };
                    run_computation(&mut comp, &starts, n)
                }
            }));
            end["nodes"] = json!(nodes);
            match r {
                Ok((vals, stab)) => {
                    end["vals"] = json!(vals);
                    end["stabilized"] = json!(stab);
                }
                Err(p) => end["panic"] = json!(p),
            }
        }
    }
    end["capped"] = json!(sh.capped.get());
    let mut evs = vec![reset.clone()];
    evs.extend(sh.log.borrow().iter().cloned());
    evs.push(end);
    evs
}

// ------------------------------------------------------------------------------------------------
// generator
// ------------------------------------------------------------------------------------------------
fn is_value_node(dir: &str, n: &Node) -> bool {
    match n {
        Node::CallReturn { .. } => dir != "fwd",
        Node::CallSource { .. } => dir == "fwd",
        _ => true,
    }
}

fn gen_case(rng: &mut Rng, k: &Knobs, dir: &str, mode: &str, want_default: bool, origin: &str) -> Value {
    let prog = irgen::gen_program(rng, k);
    let lats = latgen::lattices();
    let (lname, join) = rng.pick(&lats).clone();
    let kk = join.len() as i64;
    let an = gen_analysis(rng, &prog.term, dir, &join);
    // start values: where information enters (function entries forwards; returning blocks and dead
    // ends backwards, as dead_variable_elimination does), now and then on any value-carrying node
    let graph = get_program_cfg(&prog);
    let mut cands: Vec<NodeIndex> = Vec::new();
    let mut any: Vec<NodeIndex> = Vec::new();
    for i in graph.node_indices() {
        if !is_value_node(dir, &graph[i]) {
            continue;
        }
        any.push(i);
        match graph[i] {
            Node::BlkStart(b, s) if dir == "fwd" && s.term.blocks.first().map(|x| x.tid == b.tid).unwrap_or(false) => cands.push(i),
            Node::BlkEnd(b, _) if dir == "bwd" && (returning_jmp(b).is_some() || graph.neighbors(i).next().is_none()) => cands.push(i),
            _ => (),
        }
    }
    let mut start = Vec::new();
    let low = |rng: &mut Rng| if rng.chance(1, 2) { 1 } else { rng.range(1, kk) };
    // every candidate with probability 1/2 (at least one), sometimes one of them twice (the later value counts)
    if !cands.is_empty() {
        let forced = *rng.pick(&cands);
        for i in cands.iter() {
            if *i == forced || rng.chance(1, 2) {
                start.push(json!({"node": cfgenc::node(&graph[*i]), "v": low(rng)}));
            }
        }
        if rng.chance(1, 8) {
            start.push(json!({"node": cfgenc::node(&graph[forced]), "v": low(rng)}));
        }
    }
    if !any.is_empty() && (start.is_empty() || rng.chance(1, 4)) {
        for _ in 0..rng.range(1, 2) {
            let i = *rng.pick(&any);
            start.push(json!({"node": cfgenc::node(&graph[i]), "v": low(rng)}));
        }
    }
    let default = if want_default { rng.range(1, kk) } else { 0 };
    json!({"ev": "reset", "dir": dir, "mode": mode, "program": irenc::program(&prog.term), "an": an, "start": start,
           "default": default, "lattice": lname, "origin": origin, "serde": irgen::program_to_string(&prog)})
}

#[derive(Default)]
struct Stats {
    runs: u64,
    fwd: u64,
    bwd: u64,
    with_default: u64,
    comb_both: u64,
    comb_one_sided: u64,
    some_node_without_value: u64,
    panics: u64,
    capped: u64,
    max_events: u64,
    max_nodes: u64,
    callbacks: u64,
}

/// feature tag (only counted): a combinator node ends with BOTH components, i.e. a call-site value
/// and an interprocedural value really met
fn features(evs: &[Value], st: &mut Stats) -> bool {
    let end = evs.last().unwrap();
    let vals = end["vals"].as_array().unwrap();
    let both = vals.iter().any(|v| v[0] == 2 && v[1] != 0 && v[2] != 0);
    let one = vals.iter().any(|v| v[0] == 2 && (v[1] == 0 || v[2] == 0));
    st.runs += 1;
    if evs[0]["dir"] == "fwd" { st.fwd += 1 } else { st.bwd += 1 }
    if evs[0]["default"] != 0 { st.with_default += 1 }
    if both { st.comb_both += 1 }
    if one { st.comb_one_sided += 1 }
    if vals.iter().any(|v| v[0] == 0) { st.some_node_without_value += 1 }
    if end["panic"] != "" { st.panics += 1 }
    if end["capped"] == true { st.capped += 1 }
    st.max_events = st.max_events.max(evs.len() as u64);
    st.max_nodes = st.max_nodes.max(vals.len() as u64);
    st.callbacks += evs.len() as u64 - 2;
    both
}

pub fn gen(out: &mut Out, _sub: &str) {
    let mut rng = Rng::new(out.seed ^ 0x0101);
    let mut st = Stats::default();
    let n = out.size(400, 6000);
    for i in 0..n {
        let mut r = rng.fork();
        let mut k = Knobs::default();
        k.max_defs = 3;
        match i % 4 {
            // call-heavy: every function has blocks, most calls return
            0 => { k.min_subs = 2; k.max_subs = 3; k.max_blocks = 5; k.w_call_internal = 30; k.pct_last_returns = 90; k.pct_empty_sub = 0; k.w_cbranch_return = 6; k.w_none = 1; }
            // conditionals and indirect jumps inside one or two larger functions
            1 => { k.max_subs = 2; k.max_blocks = 8; k.w_cbranch_branch = 16; k.w_cbranch_branchind = 6; k.w_branchind = 6; k.w_cbranch_return = 6; k.pct_forward = 70; }
            // the default mix, up to four functions
            2 => { k.min_subs = 2; k.max_subs = 4; k.max_blocks = 5; k.w_cbranch_return = 4; }
            // recursion-prone: two functions calling around
            _ => { k.min_subs = 2; k.max_subs = 2; k.max_blocks = 6; k.w_call_internal = 40; k.w_call_extern = 10; k.pct_ret_site = 95; k.w_cbranch_return = 8; k.pct_empty_sub = 0; }
        }
        let dir = if (i / 4) % 2 == 0 { "fwd" } else { "bwd" };
        let mode = ["plain", "bottom_up", "top_down"][(i / 8) as usize % 3];
        let want_default = i % 7 == 3;
        let reset = gen_case(&mut r, &k, dir, mode, want_default, "random");
        let evs = exec(&reset);
        let nt = features(&evs, &mut st);
        out.emit(evs, nt);
    }
    out.extra.insert("runs".into(), json!(st.runs));
    out.extra.insert("forward_runs".into(), json!(st.fwd));
    out.extra.insert("backward_runs".into(), json!(st.bwd));
    out.extra.insert("runs_with_default_value".into(), json!(st.with_default));
    out.extra.insert("runs_where_a_combinator_has_both_values".into(), json!(st.comb_both));
    out.extra.insert("runs_where_a_combinator_has_one_value_only".into(), json!(st.comb_one_sided));
    out.extra.insert("runs_with_unreached_nodes".into(), json!(st.some_node_without_value));
    out.extra.insert("runs_ending_in_a_panic".into(), json!(st.panics));
    out.extra.insert("runs_with_capped_log".into(), json!(st.capped));
    out.extra.insert("max_events_per_run".into(), json!(st.max_events));
    out.extra.insert("max_nodes".into(), json!(st.max_nodes));
    out.extra.insert("callback_invocations".into(), json!(st.callbacks));
}

/// Re-execute the recorded run: everything needed is in its reset event.
pub fn replay(run: &[Value], _sub: &str) -> Vec<Value> {
    match run.iter().find(|e| e["ev"] == "reset") {
        Some(r) => exec(r),
        None => Vec::new(),
    }
}
