//! C10: optimising normalisation preserves behaviour.
//!
//! Generates small functions, runs the REAL `normalize_basic` and then the real optimisation passes of
//! `Project::normalize_optimize` one after the other (and the whole `normalize_optimize`), and records
//! one case per pass that changed the function: the function before (p1) and after (p2), the IR
//! environment and six initial register files.  TLC (spec/EquivMonitor.tla via spec/trace/T_C10.tla)
//! runs both functions in the IR reference semantics and decides.  Nothing here decides anything: the
//! `f_*` fields are syntactic feature tags used only to key known findings, `nontrivial` is counted.
use crate::enc::*;
use crate::irenc;
use crate::irenc::mk_tid;
use crate::exprgen::*;
use crate::out::{catch, Out};
use crate::rng::Rng;
use cwe_checker_lib::analysis;
use cwe_checker_lib::intermediate_representation::*;
use serde_json::{json, Value};

pub const PASSES: [&str; 5] =
    ["expression_propagation", "trivial_substitution", "dead_variable_elimination", "control_flow", "stack_alignment"];

/// Apply one pass of `Project::normalize_optimize` (in its order) to the project.
pub fn apply_pass(p: &mut Project, pass: &str) {
    match pass {
        "expression_propagation" => analysis::expression_propagation::propagate_input_expression(p),
        "trivial_substitution" => p.substitute_trivial_expressions(),
        "dead_variable_elimination" => analysis::dead_variable_elimination::remove_dead_var_assignments(p),
        "control_flow" => propagate_control_flow::propagate_control_flow(p),
        "stack_alignment" => {
            let _ = analysis::stack_alignment_substitution::substitute_and_on_stackpointer(p);
        }
        "full" => {
            let _ = p.normalize_optimize();
        }
        _ => panic!("unknown pass"),
    }
}

// ------------------------------------------------------------------------------------------------
// function generator
// ------------------------------------------------------------------------------------------------
const FN_ADDR: u64 = 0x1000;
const HELPER_RET: &str = "sub_9000"; // internal callee with a Return
const HELPER_NORET: &str = "sub_9100"; // internal callee without a Return (non-returning)
const EXT_FN: &str = "sub_a000"; // extern symbol that returns
const EXT_EXIT: &str = "sub_a100"; // extern symbol marked no_return

fn blk_addr(i: usize) -> String {
    format!("{:x}", FN_ADDR + 0x10 * i as u64)
}
fn blk_tid(i: usize) -> Tid {
    mk_tid(&format!("blk_{}", blk_addr(i)), &blk_addr(i))
}
fn def_tid(b: usize, n: usize) -> Tid {
    mk_tid(&format!("instr_{}_{}", blk_addr(b), n), &blk_addr(b))
}

#[derive(Clone, Copy, PartialEq, Eq, Debug)]
enum Mode {
    General,
    Chain,    // conditional chains re-testing shared conditions, empty conditional blocks
    Join,     // a block entered over a c-conditioned edge AND unconditional edges / call returns, then a re-test of c
    Forward,  // many empty forwarding blocks, cycles of them, back edges to the entry block
    Prologue, // SP = SP -+ c ; SP = SP & -2^k prologue
    Memory,   // loads / stores, registers re-assigned by loads
}

struct FnGen<'a> {
    rng: &'a mut Rng,
    mode: Mode,
    nblocks: usize,
    /// index of the first block that may be a jump target (> 0 iff there is a prologue)
    first_target: usize,
    chain_conds: Vec<Expression>,
}

fn eg<'b>(rng: &'b mut Rng) -> ExprGen<'b> {
    ExprGen { rng, sp_weight: 4 }
}

impl<'a> FnGen<'a> {
    fn target(&mut self, from: usize) -> usize {
        // forward biased; back edges (loops) with lower probability
        let lo = self.first_target;
        let n = self.nblocks;
        if from + 1 < n && self.rng.chance(7, 10) {
            (from + 1 + self.rng.below((n - from - 1).min(3) as u64) as usize).max(lo)
        } else {
            lo + self.rng.below((n - lo) as u64) as usize
        }
    }
    fn cond(&mut self, ctx: &Ctx) -> Expression {
        if !self.chain_conds.is_empty() && self.rng.chance(if self.mode == Mode::Chain { 5 } else { 2 }, 6) {
            let c = self.rng.pick(&self.chain_conds).clone();
            if self.rng.chance(1, 3) {
                // the negated condition, as `negate_condition` would build it
                if let Expression::UnOp { op: UnOpType::BoolNegate, arg } = c {
                    *arg
                } else {
                    un(UnOpType::BoolNegate, c)
                }
            } else {
                c
            }
        } else {
            let d = 1 + self.rng.below(2) as u32;
            eg(self.rng).expr(Ty::Bool, d, ctx)
        }
    }
    fn addr_expr(&mut self, ctx: &Ctx) -> Expression {
        use BinOpType::*;
        match self.rng.below(10) {
            0..=4 => {
                let off = 8 * self.rng.range(-6, 6);
                if off == 0 {
                    var(&sp_var())
                } else if off < 0 && self.rng.chance(1, 2) {
                    bin(IntSub, var(&sp_var()), cst(-off, 8))
                } else {
                    bin(IntAdd, var(&sp_var()), cst(off, 8))
                }
            }
            5 | 6 => {
                let r = reg(*self.rng.pick(&GPRS), 8);
                let off = self.rng.range(-16, 16);
                bin(IntAdd, var(&r), cst(off, 8))
            }
            7 => var(&reg(*self.rng.pick(&GPRS), 8)),
            8 => cst(0x60_0000 + 8 * self.rng.below(4) as i64, 8),
            _ => eg(self.rng).expr(Ty::Int(8), 2, ctx),
        }
    }
    fn dest(&mut self, ty: Ty, ctx: &mut Ctx) -> Variable {
        match ty {
            Ty::Bool => {
                if self.rng.chance(2, 3) {
                    reg(*self.rng.pick(&FLAGS), 1)
                } else {
                    ctx.fresh(ty)
                }
            }
            Ty::Int(8) => {
                if self.rng.chance(3, 4) {
                    reg(*self.rng.pick(&GPRS), 8)
                } else {
                    ctx.fresh(ty)
                }
            }
            _ => ctx.fresh(ty),
        }
    }
    fn push_def(&mut self, defs: &mut Vec<Term<Def>>, b: usize, d: Def) {
        let n = defs.len();
        defs.push(Term { tid: def_tid(b, n), term: d });
    }
    fn gen_defs(&mut self, b: usize, n: usize, defs: &mut Vec<Term<Def>>, ctx: &mut Ctx) {
        use BinOpType::*;
        let mem_w = if self.mode == Mode::Memory { 45 } else { 25 };
        for _ in 0..n {
            let roll = self.rng.below(100);
            if roll < mem_w / 2 {
                // load
                let size = *self.rng.pick(&[8, 8, 8, 4, 2, 1]);
                if size == 8 && self.rng.chance(1, 4) {
                    // pointer chasing: r := address computation ; r := [r (+ off)]
                    let r = reg(*self.rng.pick(&GPRS), 8);
                    let d = 1 + self.rng.below(2) as u32;
                    let mut e = eg(self.rng).expr(Ty::Int(8), d, ctx);
                    if self.rng.chance(2, 3) {
                        // the address depends on the old value of r (so the assignment cannot be propagated into the load)
                        let op = *self.rng.pick(&[IntAdd, IntAdd, IntSub, IntXOr, IntAnd]);
                        e = if self.rng.chance(1, 2) { bin(op, var(&r), cst(8 * self.rng.range(1, 8), 8)) } else { bin(op, var(&r), e) };
                    }
                    self.push_def(defs, b, Def::Assign { var: r.clone(), value: e });
                    let a = if self.rng.chance(1, 2) { var(&r) } else { bin(IntAdd, var(&r), cst(8 * self.rng.range(-2, 4), 8)) };
                    self.push_def(defs, b, Def::Load { var: r, address: a });
                    continue;
                }
                let a = self.addr_expr(ctx);
                let v = if size == 8 { self.dest(Ty::Int(8), ctx) } else { ctx.fresh(Ty::Int(size)) };
                self.push_def(defs, b, Def::Load { var: v.clone(), address: a });
                if v.is_temp {
                    ctx.define(&v, Ty::Int(size));
                }
            } else if roll < mem_w {
                // store
                let size = *self.rng.pick(&[8, 8, 8, 4, 2, 1]);
                let a = self.addr_expr(ctx);
                let d = self.rng.below(3) as u32;
                let e = eg(self.rng).expr(Ty::Int(size), d, ctx);
                self.push_def(defs, b, Def::Store { address: a, value: e });
            } else if roll < mem_w + 8 {
                // two-step idiom through a temporary:  $U := x - y ; flag := $U ==/!= c
                let s = *self.rng.pick(&[8, 8, 4, 1]);
                let x = eg(self.rng).expr(Ty::Int(s), 1, ctx);
                let y = eg(self.rng).expr(Ty::Int(s), 1, ctx);
                let t = ctx.fresh(Ty::Int(s));
                self.push_def(defs, b, Def::Assign { var: t.clone(), value: bin(IntSub, x.clone(), y.clone()) });
                ctx.define(&t, Ty::Int(s));
                let f = reg(*self.rng.pick(&FLAGS), 1);
                if self.rng.chance(1, 2) {
                    let c = cst(*self.rng.pick(&[0, 1, 1, 2]), s);
                    let op = if self.rng.chance(1, 2) { IntEqual } else { IntNotEqual };
                    self.push_def(defs, b, Def::Assign { var: f, value: bin(op, var(&t), c) });
                } else {
                    // borrow idiom: OF := x sborrow y ; SF := $U s< 0 ; flag := OF != SF
                    let (of, sf) = (reg("OF", 1), reg("SF", 1));
                    self.push_def(defs, b, Def::Assign { var: of.clone(), value: bin(IntSBorrow, x, y) });
                    self.push_def(defs, b, Def::Assign { var: sf.clone(), value: bin(IntSLess, var(&t), cst(0, s)) });
                    let op = if self.rng.chance(1, 2) { IntNotEqual } else { IntEqual };
                    let t2 = ctx.fresh(Ty::Bool);
                    self.push_def(defs, b, Def::Assign { var: t2.clone(), value: bin(op, var(&of), var(&sf)) });
                    ctx.define(&t2, Ty::Bool);
                }
            } else {
                // plain assignment
                let ty = match self.rng.below(10) {
                    0..=4 => Ty::Int(8),
                    5..=7 => Ty::Bool,
                    8 => Ty::Int(4),
                    _ => Ty::Int(*self.rng.pick(&[1, 2])),
                };
                let d = 1 + self.rng.below(3) as u32;
                let e = eg(self.rng).expr(ty, d, ctx);
                let v = self.dest(ty, ctx);
                self.push_def(defs, b, Def::Assign { var: v.clone(), value: e });
                if v.is_temp {
                    ctx.define(&v, ty);
                }
            }
        }
    }
    fn prologue(&mut self, b: usize, defs: &mut Vec<Term<Def>>) {
        use BinOpType::*;
        let sp = sp_var();
        // push rbp ; mov rbp, rsp ; sub rsp, c ; and rsp, -2^k     (each part optional)
        if self.rng.chance(2, 3) {
            self.push_def(defs, b, Def::Assign { var: sp.clone(), value: bin(IntSub, var(&sp), cst(8, 8)) });
            self.push_def(defs, b, Def::Store { address: var(&sp), value: var(&reg("RBP", 8)) });
            if self.rng.chance(1, 2) {
                self.push_def(defs, b, Def::Assign { var: reg("RBP", 8), value: var(&sp) });
            }
        }
        if self.rng.chance(2, 3) {
            let c = *self.rng.pick(&[8i64, 16, 24, 40, 100, 4, 0x1008]);
            let e = match self.rng.below(4) {
                0 => bin(IntAdd, var(&sp), cst(-c, 8)),
                1 => bin(IntAdd, cst(-c, 8), var(&sp)),
                2 => bin(IntAdd, var(&sp), cst(c, 8)),
                _ => bin(IntSub, var(&sp), cst(c, 8)),
            };
            self.push_def(defs, b, Def::Assign { var: sp.clone(), value: e });
        }
        if self.rng.chance(3, 4) {
            // as a real `sub` would: a flag computation between the SP adjustment and the mask
            // (consecutive assignments to SP would be merged into one expression by the optimiser)
            self.push_def(defs, b, Def::Assign { var: reg("ZF", 1), value: bin(IntEqual, var(&sp), cst(0, 8)) });
        }
        let k = *self.rng.pick(&[3u32, 4, 4, 4, 5, 6, 8, 12]);
        let mask = cst(-(1i64 << k), 8);
        let e = if self.rng.chance(3, 4) { bin(IntAnd, var(&sp), mask) } else { bin(IntAnd, mask, var(&sp)) };
        self.push_def(defs, b, Def::Assign { var: sp.clone(), value: e });
        if self.rng.chance(1, 2) {
            let c = *self.rng.pick(&[16i64, 32, 8]);
            self.push_def(defs, b, Def::Assign { var: sp.clone(), value: bin(IntSub, var(&sp), cst(c, 8)) });
        }
    }
    fn gen_jmps(&mut self, b: usize, last: bool, defs: &mut Vec<Term<Def>>, ctx: &mut Ctx, ind: &mut Vec<Tid>) -> Vec<Term<Jmp>> {
        let jt = |n: usize| mk_tid(&format!("instr_{}_j{}", blk_addr(b), n), &blk_addr(b));
        let roll = if last { 80 + self.rng.below(20) } else { self.rng.below(100) };
        let uncond = |s: &mut Self, n: usize| -> Term<Jmp> {
            let t = s.target(b);
            Term { tid: jt(n), term: Jmp::Branch(blk_tid(t)) }
        };
        match roll {
            0..=34 => vec![uncond(self, 0)],
            35..=64 => {
                let c = self.cond(ctx);
                let t = self.target(b);
                vec![Term { tid: jt(0), term: Jmp::CBranch { target: blk_tid(t), condition: c } }, uncond(self, 1)]
            }
            65..=76 => {
                // calls
                let ret = if self.rng.chance(1, 12) { None } else { Some(blk_tid(self.target(b))) };
                let call = match self.rng.below(10) {
                    0..=3 => Jmp::Call { target: mk_tid(EXT_FN, "a000"), return_: ret },
                    4 => Jmp::Call { target: mk_tid(EXT_EXIT, "a100"), return_: ret },
                    5 | 6 => Jmp::Call { target: mk_tid(HELPER_RET, "9000"), return_: ret },
                    7 => Jmp::Call { target: mk_tid(HELPER_NORET, "9100"), return_: ret },
                    8 => {
                        let e = eg(self.rng).expr(Ty::Int(8), 1, ctx);
                        Jmp::CallInd { target: e, return_: ret }
                    }
                    _ => Jmp::CallOther { description: "syscall".to_string(), return_: ret },
                };
                vec![Term { tid: jt(0), term: call }]
            }
            77..=81 => {
                // indirect jump; sometimes through a register that selects one of two known targets
                let t1 = self.target(b);
                let e = match self.rng.below(3) {
                    0 => eg(self.rng).expr(Ty::Int(8), 1, ctx),
                    1 => cst((FN_ADDR + 0x10 * t1 as u64) as i64, 8),
                    _ => {
                        let f = reg(*self.rng.pick(&FLAGS), 1);
                        let r = reg(*self.rng.pick(&GPRS), 8);
                        let sel = bin(
                            BinOpType::IntAdd,
                            bin(BinOpType::IntMult, cast(CastOpType::IntZExt, 8, var(&f)), cst(0x10, 8)),
                            cst((FN_ADDR + 0x10 * t1 as u64) as i64, 8),
                        );
                        self.push_def(defs, b, Def::Assign { var: r.clone(), value: sel });
                        var(&r)
                    }
                };
                if self.rng.chance(4, 5) {
                    ind.push(blk_tid(t1));
                    if t1 + 1 < self.nblocks && self.rng.chance(2, 3) {
                        ind.push(blk_tid(t1 + 1));
                    }
                }
                vec![Term { tid: jt(0), term: Jmp::BranchInd(e) }]
            }
            82..=83 => vec![], // dead end
            _ => {
                // return
                let e = match self.rng.below(10) {
                    0..=5 => var(&reg(*self.rng.pick(&GPRS), 8)),
                    6 => cst(0x4000, 8),
                    _ => {
                        // ret: $U := [RSP] ; RSP := RSP + 8 ; return $U
                        let t = ctx.fresh(Ty::Int(8));
                        self.push_def(defs, b, Def::Load { var: t.clone(), address: var(&sp_var()) });
                        self.push_def(defs, b, Def::Assign { var: sp_var(), value: bin(BinOpType::IntAdd, var(&sp_var()), cst(8, 8)) });
                        var(&t)
                    }
                };
                vec![Term { tid: jt(0), term: Jmp::Return(e) }]
            }
        }
    }

    fn gen_function(&mut self) -> Term<Sub> {
        self.nblocks = 2 + self.rng.below(if self.mode == Mode::General { 9 } else { 10 }) as usize;
        if self.mode == Mode::Join {
            self.nblocks = self.nblocks.max(8);
        }
        let n = self.nblocks;
        // shared conditions of conditional chains: over flags / registers
        let nc = 1 + self.rng.below(2);
        self.chain_conds = (0..nc)
            .map(|_| {
                let ctx = Ctx::default();
                match self.rng.below(5) {
                    0 | 1 => var(&reg(*self.rng.pick(&FLAGS), 1)),
                    2 => un(UnOpType::BoolNegate, var(&reg(*self.rng.pick(&FLAGS), 1))),
                    _ => eg(self.rng).expr(Ty::Bool, 1, &ctx),
                }
            })
            .collect();
        // prologue layout: optional chain of empty forwarding blocks, then the block with the SP prologue;
        // none of them is a jump target
        let mut prologue_at = None;
        self.first_target = 0;
        if self.mode == Mode::Prologue {
            let fwd = if self.rng.chance(1, 3) { 1 + self.rng.below(2) as usize } else { 0 };
            let at = fwd.min(n - 2);
            prologue_at = Some(at);
            self.first_target = at + 1;
        }
        let mut blocks: Vec<Term<Blk>> = Vec::new();
        for b in 0..n {
            let mut defs = Vec::new();
            let mut ctx = Ctx::default();
            let mut ind = Vec::new();
            let jmps;
            if let Some(at) = prologue_at.filter(|at| b <= *at) {
                if b < at {
                    jmps = vec![Term { tid: mk_tid(&format!("instr_{}_j0", blk_addr(b)), &blk_addr(b)), term: Jmp::Branch(blk_tid(b + 1)) }];
                } else {
                    let pre = self.rng.below(2) as usize;
                    self.gen_defs(b, pre, &mut defs, &mut ctx);
                    self.prologue(b, &mut defs);
                    let post = self.rng.below(3) as usize;
                    self.gen_defs(b, post, &mut defs, &mut ctx);
                    jmps = self.gen_jmps(b, false, &mut defs, &mut ctx, &mut ind);
                }
            } else {
                let empty_p = match self.mode {
                    Mode::Forward => 55,
                    Mode::Chain => 40,
                    Mode::Join => 30,
                    _ => 18,
                };
                let ndefs = if self.rng.below(100) < empty_p { 0 } else { 1 + self.rng.below(6) as usize };
                self.gen_defs(b, ndefs, &mut defs, &mut ctx);
                jmps = self.gen_jmps(b, b + 1 == n, &mut defs, &mut ctx, &mut ind);
            }
            blocks.push(Term { tid: blk_tid(b), term: Blk { defs, jmps, indirect_jmp_targets: ind } });
        }
        // planted pattern "several predecessors of different kinds in front of a re-test of the same condition":
        //   b0: if c goto b2 else b1          (b2 is entered with c true over this edge ...)
        //   b1: defs ; goto b2 | call .. ret=b2 | goto b4, b4 (empty, maybe b4 -> b5 empty) -> b2
        //                                     (... and with c FALSE over an unconditional edge / a call return /
        //                                      a chain of empty forwarding blocks)
        //   b2: defs that do not redefine the inputs of c ; goto b3
        //   b3: (empty) if c goto g else h    (g, h start with different stores)
        if self.mode == Mode::Join && n >= 8 {
            use BinOpType::*;
            let c = self.chain_conds[0].clone();
            let inputs: Vec<Variable> = c.input_vars().into_iter().cloned().collect();
            let jt = |b: usize, k: usize| mk_tid(&format!("instr_{}_j{}", blk_addr(b), k), &blk_addr(b));
            let keeps_c = |d: &Term<Def>| match &d.term {
                Def::Assign { var, .. } | Def::Load { var, .. } => var.is_temp || !inputs.contains(var),
                Def::Store { .. } => true,
            };
            let neg = self.rng.chance(1, 3);
            let c0 = if neg {
                if let Expression::UnOp { op: UnOpType::BoolNegate, arg } = &c { (**arg).clone() } else { un(UnOpType::BoolNegate, c.clone()) }
            } else {
                c.clone()
            };
            for b in 0..4 {
                blocks[b].term.indirect_jmp_targets.clear();
            }
            blocks[0].term.defs.retain(|d| keeps_c(d));
            blocks[0].term.jmps = if neg {
                vec![Term { tid: jt(0, 0), term: Jmp::CBranch { target: blk_tid(1), condition: c0 } }, Term { tid: jt(0, 1), term: Jmp::Branch(blk_tid(2)) }]
            } else {
                vec![Term { tid: jt(0, 0), term: Jmp::CBranch { target: blk_tid(2), condition: c0 } }, Term { tid: jt(0, 1), term: Jmp::Branch(blk_tid(1)) }]
            };
            // the other way into b2
            let kind = self.rng.below(9);
            let keep_c_in_b1 = kind < 5 && self.rng.chance(3, 4); // (a call havocs the inputs of c anyway)
            if keep_c_in_b1 {
                blocks[1].term.defs.retain(|d| keeps_c(d));
            }
            let fwd = |blocks: &mut Vec<Term<Blk>>, b: usize, to: usize| {
                blocks[b].term.defs.clear();
                blocks[b].term.indirect_jmp_targets.clear();
                blocks[b].term.jmps = vec![Term { tid: jt(b, 0), term: Jmp::Branch(blk_tid(to)) }];
            };
            blocks[1].term.jmps = match kind {
                0 | 1 => vec![Term { tid: jt(1, 0), term: Jmp::Branch(blk_tid(2)) }],
                2 | 3 => {
                    // through one or two empty forwarding blocks
                    if self.rng.chance(1, 2) {
                        fwd(&mut blocks, 4, 2);
                    } else {
                        fwd(&mut blocks, 4, 5);
                        fwd(&mut blocks, 5, 2);
                    }
                    vec![Term { tid: jt(1, 0), term: Jmp::Branch(blk_tid(4)) }]
                }
                4 => {
                    // a second, differently conditioned edge and an unconditional one
                    let d = eg(self.rng).expr(Ty::Bool, 1, &Ctx::default());
                    vec![Term { tid: jt(1, 0), term: Jmp::CBranch { target: blk_tid(6), condition: d } }, Term { tid: jt(1, 1), term: Jmp::Branch(blk_tid(2)) }]
                }
                5 => vec![Term { tid: jt(1, 0), term: Jmp::Call { target: mk_tid(EXT_FN, "a000"), return_: Some(blk_tid(2)) } }],
                6 => vec![Term { tid: jt(1, 0), term: Jmp::Call { target: mk_tid(HELPER_RET, "9000"), return_: Some(blk_tid(2)) } }],
                7 => vec![Term { tid: jt(1, 0), term: Jmp::CallInd { target: var(&reg("RBX", 8)), return_: Some(blk_tid(2)) } }],
                _ => vec![Term { tid: jt(1, 0), term: Jmp::CallOther { description: "syscall".to_string(), return_: Some(blk_tid(2)) } }],
            };
            // b2 keeps c, b3 re-tests it
            blocks[2].term.defs.retain(|d| keeps_c(d));
            blocks[2].term.jmps = vec![Term { tid: jt(2, 0), term: Jmp::Branch(blk_tid(3)) }];
            blocks[3].term.defs.clear();
            let (g, h) = if self.rng.chance(1, 2) { (n - 1, n - 2) } else { (n - 2, n - 1) };
            blocks[3].term.jmps = vec![Term { tid: jt(3, 0), term: Jmp::CBranch { target: blk_tid(g), condition: c.clone() } }, Term { tid: jt(3, 1), term: Jmp::Branch(blk_tid(h)) }];
            for (b, tag) in [(g, 0x11i64), (h, 0x22)] {
                blocks[b].term.defs.insert(0, Term {
                    tid: mk_tid(&format!("instr_{}_m", blk_addr(b)), &blk_addr(b)),
                    term: Def::Store { address: bin(IntSub, var(&sp_var()), cst(24, 8)), value: cst(tag, 8) },
                });
            }
            // usually no further way into b2 and b3 (other predecessors would be yet another mix of edge kinds)
            if self.rng.chance(3, 4) {
                for (bi, blk) in blocks.iter_mut().enumerate() {
                    let planted = bi <= 3 || ((kind == 2 || kind == 3) && (bi == 4 || bi == 5));
                    if planted {
                        continue;
                    }
                    for j in blk.term.jmps.iter_mut() {
                        match &mut j.term {
                            Jmp::Branch(t) | Jmp::CBranch { target: t, .. } if *t == blk_tid(2) || *t == blk_tid(3) => *t = blk_tid(n - 1),
                            Jmp::Call { return_: Some(t), .. } | Jmp::CallInd { return_: Some(t), .. } | Jmp::CallOther { return_: Some(t), .. }
                                if *t == blk_tid(2) || *t == blk_tid(3) => *t = blk_tid(n - 1),
                            _ => (),
                        }
                    }
                    blk.term.indirect_jmp_targets.retain(|t| *t != blk_tid(2) && *t != blk_tid(3));
                }
            }
        }
        // planted pattern "block entered only under condition c, then an empty block re-testing c":
        //   b0: if c goto b1 else ..   b1: defs (half of the time overwriting an input of c) ; goto b2
        //   b2: (empty) if c goto g else h
        if self.mode == Mode::Chain && n >= 4 && self.rng.chance(2, 3) {
            let c = self.chain_conds[0].clone();
            let jt = |b: usize, k: usize| mk_tid(&format!("instr_{}_j{}", blk_addr(b), k), &blk_addr(b));
            let other = 1 + self.rng.below((n - 1) as u64) as usize;
            let (c0, neg) = if self.rng.chance(1, 3) {
                (if let Expression::UnOp { op: UnOpType::BoolNegate, arg } = &c { (**arg).clone() } else { un(UnOpType::BoolNegate, c.clone()) }, true)
            } else {
                (c.clone(), false)
            };
            // b0 reaches b1 on the edge where c holds
            blocks[0].term.indirect_jmp_targets.clear();
            blocks[0].term.jmps = if neg {
                vec![Term { tid: jt(0, 0), term: Jmp::CBranch { target: blk_tid(other), condition: c0 } }, Term { tid: jt(0, 1), term: Jmp::Branch(blk_tid(1)) }]
            } else {
                vec![Term { tid: jt(0, 0), term: Jmp::CBranch { target: blk_tid(1), condition: c0 } }, Term { tid: jt(0, 1), term: Jmp::Branch(blk_tid(other)) }]
            };
            // no other way into b1
            for (bi, blk) in blocks.iter_mut().enumerate() {
                if bi == 0 {
                    continue;
                }
                for j in blk.term.jmps.iter_mut() {
                    match &mut j.term {
                        Jmp::Branch(t) | Jmp::CBranch { target: t, .. } if *t == blk_tid(1) => *t = blk_tid(n - 1),
                        Jmp::Call { return_: Some(t), .. } | Jmp::CallInd { return_: Some(t), .. } | Jmp::CallOther { return_: Some(t), .. } if *t == blk_tid(1) => *t = blk_tid(n - 1),
                        _ => (),
                    }
                }
                blk.term.indirect_jmp_targets.retain(|t| *t != blk_tid(1));
            }
            if self.rng.chance(2, 3) {
                // overwrite an input of c in b1
                let inputs: Vec<Variable> = c.input_vars().into_iter().filter(|v| !v.is_temp && **v != sp_var()).cloned().collect();
                if !inputs.is_empty() {
                    let v = self.rng.pick(&inputs).clone();
                    let ctx = Ctx::default();
                    let ty = if v.size == ByteSize::new(1) { Ty::Bool } else { Ty::Int(u64::from(v.size)) };
                    let e = eg(self.rng).expr(ty, 2, &ctx);
                    let k = blocks[1].term.defs.len();
                    blocks[1].term.defs.push(Term { tid: mk_tid(&format!("instr_{}_q{}", blk_addr(1), k), &blk_addr(1)), term: Def::Assign { var: v, value: e } });
                }
            }
            blocks[1].term.indirect_jmp_targets.clear();
            blocks[1].term.jmps = vec![Term { tid: jt(1, 0), term: Jmp::Branch(blk_tid(2)) }];
            let (g, h) = (2 + self.rng.below((n - 2) as u64) as usize, 2 + self.rng.below((n - 2) as u64) as usize);
            blocks[2].term.defs.clear();
            blocks[2].term.indirect_jmp_targets.clear();
            blocks[2].term.jmps = vec![Term { tid: jt(2, 0), term: Jmp::CBranch { target: blk_tid(g.max(3).min(n - 1)), condition: c } }, Term { tid: jt(2, 1), term: Jmp::Branch(blk_tid(h.max(3).min(n - 1))) }];
        }
        // planted pattern "empty forwarding entry block that is also the target of a back edge"
        if self.mode == Mode::Forward && n >= 3 && self.rng.chance(2, 3) {
            let t = 1 + self.rng.below((n - 1) as u64) as usize;
            blocks[0].term.defs.clear();
            blocks[0].term.indirect_jmp_targets.clear();
            blocks[0].term.jmps = vec![Term { tid: mk_tid(&format!("instr_{}_j0", blk_addr(0)), &blk_addr(0)), term: Jmp::Branch(blk_tid(t)) }];
            // retarget one direct jump of a later block to the entry block
            let from = 1 + self.rng.below((n - 1) as u64) as usize;
            // (two rounds: first only blocks with defs - an empty source block would be bypassed itself)
            for k in 0..2 * (n - 1) {
                let b = 1 + (from - 1 + k) % (n - 1);
                if k < n - 1 && blocks[b].term.defs.is_empty() {
                    continue;
                }
                let mut done = false;
                for j in blocks[b].term.jmps.iter_mut().rev() {
                    match &mut j.term {
                        Jmp::Branch(tgt) | Jmp::CBranch { target: tgt, .. } => {
                            *tgt = blk_tid(0);
                            done = true;
                            break;
                        }
                        _ => (),
                    }
                }
                if done {
                    break;
                }
            }
        }
        // planted pattern "register re-assigned by a load": x: r := e ; goto x+1 | x+1: r := [a] ; goto x+2 |
        // x+2: uses r.  (Other jumps may still target these blocks.)
        let p_plant = if self.mode == Mode::Memory { 70 } else { 12 };
        if n >= self.first_target + 3 && self.rng.below(100) < p_plant {
            use BinOpType::*;
            let x = self.first_target + self.rng.below((n - self.first_target - 2) as u64) as usize;
            let r = reg(*self.rng.pick(&GPRS), 8);
            let others: Vec<&str> = GPRS.iter().cloned().filter(|g| *g != r.name).collect();
            let o = reg(*self.rng.pick(&others), 8);
            let e = match self.rng.below(3) {
                0 => var(&o),
                1 => bin(IntAdd, var(&o), cst(self.rng.range(1, 64), 8)),
                _ => cst(self.rng.range(0, 1000), 8),
            };
            let ctx = Ctx::default();
            let a = self.addr_expr(&ctx);
            let k0 = blocks[x].term.defs.len();
            blocks[x].term.defs.push(Term { tid: mk_tid(&format!("instr_{}_p{}", blk_addr(x), k0), &blk_addr(x)), term: Def::Assign { var: r.clone(), value: e } });
            blocks[x].term.jmps = vec![Term { tid: mk_tid(&format!("instr_{}_j0", blk_addr(x)), &blk_addr(x)), term: Jmp::Branch(blk_tid(x + 1)) }];
            blocks[x].term.indirect_jmp_targets.clear();
            let k1 = blocks[x + 1].term.defs.len();
            blocks[x + 1].term.defs.push(Term { tid: mk_tid(&format!("instr_{}_p{}", blk_addr(x + 1), k1), &blk_addr(x + 1)), term: Def::Load { var: r.clone(), address: a } });
            blocks[x + 1].term.jmps = vec![Term { tid: mk_tid(&format!("instr_{}_j0", blk_addr(x + 1)), &blk_addr(x + 1)), term: Jmp::Branch(blk_tid(x + 2)) }];
            blocks[x + 1].term.indirect_jmp_targets.clear();
            let use_def = if self.rng.chance(1, 2) {
                Def::Store { address: bin(IntSub, var(&sp_var()), cst(16, 8)), value: var(&r) }
            } else {
                Def::Assign { var: o.clone(), value: bin(IntXOr, var(&r), cst(0x55, 8)) }
            };
            blocks[x + 2].term.defs.insert(0, Term { tid: mk_tid(&format!("instr_{}_p", blk_addr(x + 2)), &blk_addr(x + 2)), term: use_def });
        }
        Term {
            tid: mk_tid("sub_1000", "1000"),
            term: Sub { name: "f".to_string(), blocks, calling_convention: Some("__stdcall".to_string()) },
        }
    }
}

fn helper_sub(tid: &str, addr: &str, returns: bool) -> Term<Sub> {
    let b = mk_tid(&format!("blk_{}", addr), addr);
    let j = mk_tid(&format!("instr_{}_j0", addr), addr);
    let jmp = if returns { Jmp::Return(var(&reg("RBX", 8))) } else { Jmp::Branch(b.clone()) };
    let def = Term {
        tid: mk_tid(&format!("instr_{}_0", addr), addr),
        term: Def::Assign { var: reg("RAX", 8), value: cst(1, 8) },
    };
    Term {
        tid: mk_tid(tid, addr),
        term: Sub {
            name: tid.to_string(),
            blocks: vec![Term { tid: b, term: Blk { defs: vec![def], jmps: vec![Term { tid: j, term: jmp }], indirect_jmp_targets: vec![] } }],
            calling_convention: None,
        },
    }
}

/// The generated input in a JSON-serialisable form (`Project` itself has maps with struct keys).
#[derive(serde::Serialize, serde::Deserialize, Clone)]
pub struct RawProg {
    pub subs: Vec<Term<Sub>>,
    pub externs: Vec<ExternSymbol>,
}
impl RawProg {
    pub fn project(&self) -> Project {
        mk_project(self.subs.clone(), self.externs.clone())
    }
}

/// The raw program of function number `idx` (deterministic in (seed, idx)).
pub fn gen_project(seed: u64, idx: u64) -> RawProg {
    let mut rng = Rng::new(seed.wrapping_mul(0x1_0000_01B3).wrapping_add(idx).wrapping_add(0xC10));
    let mode = match rng.below(20) {
        0..=2 => Mode::General,
        3..=5 => Mode::Chain,
        6..=8 => Mode::Join,
        9..=12 => Mode::Forward,
        13..=15 => Mode::Prologue,
        _ => Mode::Memory,
    };
    let with_caller = rng.chance(1, 3);
    let f = {
        let mut g = FnGen { rng: &mut rng, mode, nblocks: 0, first_target: 0, chain_conds: vec![] };
        g.gen_function()
    };
    let mut subs = vec![f, helper_sub(HELPER_RET, "9000", true), helper_sub(HELPER_NORET, "9100", false)];
    if with_caller {
        // a function that calls f, so that f's entry block has a caller edge in the CFG
        let addr = "8000";
        let call = Term {
            tid: mk_tid("instr_8000_j0", addr),
            term: Jmp::Call { target: mk_tid("sub_1000", "1000"), return_: Some(mk_tid("blk_8010", "8010")) },
        };
        let ret = Term { tid: mk_tid("instr_8010_j0", "8010"), term: Jmp::Return(var(&reg("RBX", 8))) };
        subs.push(Term {
            tid: mk_tid("sub_8000", addr),
            term: Sub {
                name: "caller".to_string(),
                blocks: vec![
                    Term { tid: mk_tid("blk_8000", addr), term: Blk { defs: vec![], jmps: vec![call], indirect_jmp_targets: vec![] } },
                    Term { tid: mk_tid("blk_8010", "8010"), term: Blk { defs: vec![], jmps: vec![ret], indirect_jmp_targets: vec![] } },
                ],
                calling_convention: None,
            },
        });
    }
    let externs = vec![
        mk_extern("ext_fn", "a000", vec![Arg::from_var(reg("RDI", 8), None)], false),
        mk_extern("exit", "a100", vec![Arg::from_var(reg("RDI", 8), None)], true),
    ];
    RawProg { subs, externs }
}

/// Six initial register files: boundary-biased values, several registers equal / 1 apart / 2 apart,
/// flags in {0,1}, SP aligned to 4096.
pub fn gen_inits(rng: &mut Rng, count: usize) -> Vec<Value> {
    let mut out = Vec::new();
    for _ in 0..count {
        let base = match rng.below(4) {
            0 => 0u64,
            1 => u64::MAX - 1,
            2 => 0x7fff_ffff_ffff_fffe,
            _ => rng.next(),
        };
        let mut regs = Vec::new();
        for r in GPRS {
            let v = match rng.below(12) {
                0 => 0,
                1 => 1,
                2 => u64::MAX,
                3 => 0x8000_0000_0000_0000,
                4 => base,
                5 => base.wrapping_add(1),
                6 => base.wrapping_add(2),
                7 => base.wrapping_sub(1),
                8 => rng.below(300),
                9 => 0x60_0000 + 8 * rng.below(4),
                _ => rng.next(),
            };
            regs.push(json!({"n": r, "v": bv(&bv_u64(v, 8))}));
        }
        let sp = 0x7ffd_0000_0000u64 + 4096 * (1 + rng.below(1 << 16));
        regs.push(json!({"n": SP, "v": bv(&bv_u64(sp, 8))}));
        for f in FLAGS {
            regs.push(json!({"n": f, "v": [rng.below(2)]}));
        }
        out.push(Value::Array(regs));
    }
    out
}

// ------------------------------------------------------------------------------------------------
// projection + syntactic feature tags
// ------------------------------------------------------------------------------------------------
fn sub_json(s: &Term<Sub>) -> Value {
    let mut v = irenc::sub(s);
    // block address as a bit vector (pointer size), used by IR.tla to resolve indirect jumps
    if let Some(blocks) = v["blocks"].as_array_mut() {
        for (b, blk) in blocks.iter_mut().zip(s.term.blocks.iter()) {
            let abv = u64::from_str_radix(&blk.tid.address, 16).map(|a| bv(&bv_u64(a, 8))).unwrap_or(json!([]));
            b["abv"] = abv;
        }
    }
    v
}

fn exprs_of(s: &Term<Sub>) -> Vec<&Expression> {
    let mut v = Vec::new();
    for b in &s.term.blocks {
        for d in &b.term.defs {
            match &d.term {
                Def::Assign { value, .. } => v.push(value),
                Def::Load { address, .. } => v.push(address),
                Def::Store { address, value } => {
                    v.push(address);
                    v.push(value)
                }
            }
        }
        for j in &b.term.jmps {
            match &j.term {
                Jmp::BranchInd(e) | Jmp::CBranch { condition: e, .. } | Jmp::CallInd { target: e, .. } | Jmp::Return(e) => v.push(e),
                _ => (),
            }
        }
    }
    v
}
fn any_subexpr(e: &Expression, p: &dyn Fn(&Expression) -> bool) -> bool {
    if p(e) {
        return true;
    }
    match e {
        Expression::BinOp { lhs, rhs, .. } => any_subexpr(lhs, p) || any_subexpr(rhs, p),
        Expression::UnOp { arg, .. } | Expression::Cast { arg, .. } | Expression::Subpiece { arg, .. } => any_subexpr(arg, p),
        _ => false,
    }
}
fn is_one(e: &Expression) -> bool {
    matches!(e, Expression::Const(c) if c.is_one())
}
/// `x ==/!= 1` where x is a subtraction or a variable (that propagation may replace by one), in a
/// function that contains a subtraction: the syntactic precondition of the `(x-y)==1` rewrite.
fn feat_eq1(s: &Term<Sub>) -> bool {
    let es = exprs_of(s);
    let has_sub = es.iter().any(|e| any_subexpr(e, &|x| matches!(x, Expression::BinOp { op: BinOpType::IntSub, .. })));
    let shape = |x: &Expression| -> bool {
        if let Expression::BinOp { op: BinOpType::IntEqual | BinOpType::IntNotEqual, lhs, rhs } = x {
            let other_ok = |o: &Expression| matches!(o, Expression::Var(_) | Expression::BinOp { op: BinOpType::IntSub, .. });
            (is_one(lhs) && other_ok(rhs)) || (is_one(rhs) && other_ok(lhs))
        } else {
            false
        }
    };
    has_sub && es.iter().any(|e| any_subexpr(e, &shape))
}
/// some variable is the target of a `Load` and also of an `Assign` whose value does not mention it
fn feat_loadredef(s: &Term<Sub>) -> bool {
    let mut loaded = std::collections::HashSet::new();
    let mut assigned = std::collections::HashSet::new();
    for b in &s.term.blocks {
        for d in &b.term.defs {
            match &d.term {
                Def::Load { var, .. } => {
                    loaded.insert(var.clone());
                }
                Def::Assign { var, value } if !value.input_vars().contains(&var) => {
                    assigned.insert(var.clone());
                }
                _ => (),
            }
        }
    }
    loaded.intersection(&assigned).next().is_some()
}

/// the return site of some `CallOther` is also the target of another jump / call return / indirect jump
/// (the CFG has no edge from a CallOther to its return site)
fn feat_callother_join(s: &Term<Sub>) -> bool {
    let mut sites = Vec::new();
    for b in &s.term.blocks {
        for j in &b.term.jmps {
            if let Jmp::CallOther { return_: Some(r), .. } = &j.term {
                sites.push((r.clone(), j.tid.clone()));
            }
        }
    }
    sites.iter().any(|(r, via)| {
        s.term.blocks.iter().any(|b| {
            b.term.indirect_jmp_targets.contains(r)
                || b.term.jmps.iter().any(|j| {
                    j.tid != *via
                        && match &j.term {
                            Jmp::Branch(t) | Jmp::CBranch { target: t, .. } => t == r,
                            Jmp::Call { return_: Some(t), .. } | Jmp::CallInd { return_: Some(t), .. } | Jmp::CallOther { return_: Some(t), .. } => t == r,
                            _ => false,
                        }
                })
        })
    })
}

fn find_fn(p: &Project) -> &Term<Sub> {
    &p.program.term.subs[&mk_tid("sub_1000", "1000")]
}

/// One case event for the pair (before, after).
fn case_event(pass: &str, idx: u64, before: &Project, after: &Project, inits: &[Value], seed: u64, raw_file: &str, panic: &str) -> Value {
    let (f1, f2) = (find_fn(before), find_fn(after));
    let e1 = f1.term.blocks.first().map(|b| b.tid.to_string()).unwrap_or_default();
    let e2 = f2.term.blocks.first().map(|b| b.tid.to_string()).unwrap_or_default();
    json!({"ev": "case", "pass": pass, "fn": idx, "p1": sub_json(f1), "p2": sub_json(f2),
           "sp": irenc::var(&before.stack_pointer_register),
           "physregs": before.register_set.iter().map(irenc::var).collect::<Vec<_>>(),
           "le": true, "seed": seed % 60000, "inits": inits, "panic": panic,
           "f_eq1": feat_eq1(f1), "f_loadredef": feat_loadredef(f1), "f_entry_changed": e1 != e2, "f_callother_join": feat_callother_join(f1),
           "raw_file": raw_file})
}

/// Run the real passes on a raw project and build the case events (one per pass that changed f, plus
/// the whole pipeline).  Returns (events, number of unchanged pairs).
pub fn cases_of(raw: &Project, idx: u64, inits: &[Value], seed: u64, raw_file: &str, only: Option<&str>) -> (Vec<Value>, u64) {
    let keep_unchanged = only.is_some(); // replay: always re-emit the requested pair
    let mut p1 = raw.clone();
    let _ = p1.normalize_basic();
    let mut events = Vec::new();
    let mut unchanged = 0;
    let mut cur = p1.clone();
    let run = |pass: &str, before: &Project| -> (Project, String) {
        let mut after = before.clone();
        let r = catch(std::panic::AssertUnwindSafe(|| {
            let mut q = before.clone();
            apply_pass(&mut q, pass);
            q
        }));
        let mut panic = String::new();
        match r {
            Ok(q) => after = q,
            Err(m) => panic = if m.is_empty() { "panic".to_string() } else { m },
        }
        (after, panic)
    };
    for pass in PASSES {
        let (after, panic) = run(pass, &cur);
        if only.map_or(true, |o| o == pass) {
            if keep_unchanged || find_fn(&cur) != find_fn(&after) || !panic.is_empty() {
                events.push(case_event(pass, idx, &cur, &after, inits, seed, raw_file, &panic));
            } else {
                unchanged += 1;
            }
        }
        cur = after;
    }
    if only.map_or(true, |o| o == "full") {
        let (after, panic) = run("full", &p1);
        if keep_unchanged || find_fn(&p1) != find_fn(&after) || !panic.is_empty() {
            events.push(case_event("full", idx, &p1, &after, inits, seed, raw_file, &panic));
        } else {
            unchanged += 1;
        }
    }
    (events, unchanged)
}

pub fn gen(out: &mut Out, _sub: &str) {
    let nfun = out.size(120, 600);
    let seed = out.seed;
    let rawdir = format!("{}/raw", out_dir(out));
    std::fs::create_dir_all(&rawdir).unwrap();
    let mut unchanged = 0u64;
    let mut per_pass = serde_json::Map::new();
    for idx in 0..nfun {
        let raw = match catch(|| gen_project(seed, idx)) {
            Ok(p) => p,
            Err(m) => {
                eprintln!("generator panic at function {}: {}", idx, m);
                std::process::exit(2)
            }
        };
        let raw_file = format!("{}/{}.json", rawdir, idx);
        std::fs::write(&raw_file, serde_json::to_string(&raw).unwrap()).unwrap();
        let mut rng = Rng::new(seed.wrapping_mul(31).wrapping_add(idx).wrapping_add(0x1A17));
        let inits = gen_inits(&mut rng, 6);
        let (events, u) = cases_of(&raw.project(), idx, &inits, seed.wrapping_add(idx), &raw_file, None);
        unchanged += u;
        for ev in events {
            let pass = ev["pass"].as_str().unwrap().to_string();
            let c = per_pass.get(&pass).and_then(|x| x.as_u64()).unwrap_or(0);
            per_pass.insert(pass, json!(c + 1));
            out.emit(vec![ev], true);
        }
    }
    out.extra.insert("functions".into(), json!(nfun));
    out.extra.insert("inits_per_function".into(), json!(6));
    out.extra.insert("unchanged_pairs_skipped".into(), json!(unchanged));
    out.extra.insert("pairs_per_pass".into(), Value::Object(per_pass));
}

fn out_dir(out: &Out) -> String {
    out.dir().to_string()
}

/// Re-execute the real passes on the recorded raw project (`raw_serde`, embedded in the replay file by
/// the driver; falls back to the side file `raw_file`).
pub fn replay(run: &[Value], _sub: &str) -> Vec<Value> {
    let mut out = Vec::new();
    for ev in run {
        let text = match ev.get("raw_serde").and_then(|x| x.as_str()) {
            Some(s) => s.to_string(),
            None => std::fs::read_to_string(ev["raw_file"].as_str().unwrap_or("")).unwrap_or_default(),
        };
        let raw: Project = match serde_json::from_str::<RawProg>(&text) {
            Ok(p) => p.project(),
            Err(_) => continue,
        };
        let inits: Vec<Value> = ev["inits"].as_array().cloned().unwrap_or_default();
        let idx = ev["fn"].as_u64().unwrap_or(0);
        let seed = ev["seed"].as_u64().unwrap_or(0);
        let pass = ev["pass"].as_str().unwrap_or("full");
        let (mut events, _) = cases_of(&raw, idx, &inits, seed, ev["raw_file"].as_str().unwrap_or(""), Some(pass));
        for e in events.iter_mut() {
            e["raw_serde"] = json!(text);
        }
        out.append(&mut events);
    }
    out
}
