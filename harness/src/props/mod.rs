//! Registry of the per-property harness modules.  Every module offers
//!   gen(out, sub): generate cases, call the real code, emit events
//!   replay(run, sub): re-execute the real code on the inputs recorded in `run` (events of one case)
use crate::out::Out;
use serde_json::Value;

macro_rules! props {
    ($($id:literal => $m:ident),* $(,)?) => {
        $(pub mod $m;)*
        pub fn gen(prop: &str, out: &mut Out) -> bool {
            let (p, sub) = match prop.split_once(':') { Some((a, b)) => (a, b), None => (prop, "") };
            match p {
                $($id => $m::gen(out, sub),)*
                _ => return false,
            }
            true
        }
        pub fn replay(prop: &str, run: &[Value]) -> Option<Vec<Value>> {
            let (p, sub) = match prop.split_once(':') { Some((a, b)) => (a, b), None => (prop, "") };
            Some(match p {
                $($id => $m::replay(run, sub),)*
                _ => return None,
            })
        }
    };
}

props! {
    "C01" => c01,
    "C02" => c02,
    "C03" => c03,
    "C04" => c04,
    "C05" => c05,
    "C06" => c06,
    "C07" => c07,
    "C08" => c08,
    "C09" => c09,
    "C10" => c10,
    "C11" => c11,
    "C12" => c12,
    "C13" => c13,
    "C14" => c14,
    "C15" => c15,
    "C16" => c16,
    "C17" => c17,
    "C18" => c18,
    "C19" => c19,
    "C20" => c20,
    "C21" => c21,
    "C22" => c22,
    "C23" => c23,
    "C24" => c24,
    "C25" => c25,
    "X03" => x03,
    "X01" => x01,
    "X04" => x04,
    "X05" => x05,
    "X02" => x02,
    "X08" => x08,
    "X06" => x06,
}
