use crate::out::Out;
use serde_json::Value;

pub mod c01;

pub fn gen(prop: &str, out: &mut Out) -> bool {
    match prop {
        "C01" => c01::gen(out),
        _ => return false,
    }
    true
}

/// Re-execute the real code on the inputs recorded in `run` (the events of one case).
pub fn replay(prop: &str, run: &[Value]) -> Option<Vec<Value>> {
    Some(match prop {
        "C01" => run.iter().map(c01::exec).collect(),
        _ => return None,
    })
}
