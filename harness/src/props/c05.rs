//! C05: `MemRegion<T>` as a store of non-overlapping typed cells.
//!
//! The harness drives two real `MemRegion<T>` (T = `BitvectorDomain` "flat" or
//! `DataDomain<BitvectorDomain>` "flagged") through operation histories and records, after every
//! mutator, the full `iter()` contents of both regions, plus bursts of `get` / `get_unsized`.
//! Histories come from the seeded random generator (sub "" - impl -> spec) or from TLC
//! (sub "spec": operation records printed by spec/mc/MC_MemRegion_hist, file named by the
//! environment variable VERIF_C05_HIST - spec -> impl).  Nothing is decided here: TLC validates
//! the recording against spec/MemRegion.tla (spec/trace/T_C05.tla).
//!
//! Wire format (spec/MemRegionWire.tla): value = [size, abs, top01, rel_1, rel_2] (flat values
//! have no rel entries), -2 = absent, -1 = Top(size) of the BitvectorDomain; cell = [offset] ++ value.
use crate::enc::{bv_i64, bv_u64};
use crate::out::{catch, Out};
use crate::rng::Rng;
use cwe_checker_lib::abstract_domain::{
    AbstractDomain, AbstractIdentifier, BitvectorDomain, DataDomain, HasTop, MemRegion, SizedDomain, TryToBitvec,
};
use cwe_checker_lib::intermediate_representation::{ByteSize, Tid, Variable};
use serde_json::{json, Map, Value};
use std::collections::BTreeMap;
use std::panic::AssertUnwindSafe;

type Data = DataDomain<BitvectorDomain>;
const ABSENT: i64 = -2;
const BVTOP: i64 = -1;
const ADDR: u64 = 8; // address bytesize of the regions

// ------------------------------------------------------------------------------------------
// projection of the two value domains to / from the wire (mechanical; public API only)
// ------------------------------------------------------------------------------------------
pub trait Val: AbstractDomain + SizedDomain + HasTop + std::fmt::Debug + Clone {
    fn from_wire(w: &[i64]) -> Self;
    fn to_wire(&self) -> Vec<i64>;
}

fn bvd(x: i64, size: u64) -> BitvectorDomain {
    if x == BVTOP {
        BitvectorDomain::Top(ByteSize::new(size))
    } else {
        BitvectorDomain::Value(bv_u64(x as u64, size))
    }
}
fn bvd_wire(d: &BitvectorDomain) -> i64 {
    match d {
        BitvectorDomain::Top(_) => BVTOP,
        v => v.try_to_bitvec().unwrap().try_to_u64().unwrap() as i64,
    }
}
fn ident(i: usize) -> AbstractIdentifier {
    let var = Variable { name: format!("id{}", i + 1), size: ByteSize::new(8), is_temp: false };
    AbstractIdentifier::from_var(Tid::new("c05"), &var)
}

impl Val for BitvectorDomain {
    fn from_wire(w: &[i64]) -> Self {
        bvd(w[1], w[0] as u64)
    }
    fn to_wire(&self) -> Vec<i64> {
        vec![u64::from(self.bytesize()) as i64, bvd_wire(self), 0]
    }
}

impl Val for Data {
    fn from_wire(w: &[i64]) -> Self {
        let size = w[0] as u64;
        let mut d = Data::new_empty(ByteSize::new(size));
        if w[1] != ABSENT {
            d.set_absolute_value(Some(bvd(w[1], size)));
        }
        let mut rel = BTreeMap::new();
        for (i, x) in w[3..].iter().enumerate() {
            if *x != ABSENT {
                rel.insert(ident(i), bvd(*x, size));
            }
        }
        d.set_relative_values(rel);
        if w[2] == 1 {
            d.set_contains_top_flag();
        }
        d
    }
    fn to_wire(&self) -> Vec<i64> {
        let mut w = vec![
            u64::from(self.bytesize()) as i64,
            self.get_absolute_value().map(bvd_wire).unwrap_or(ABSENT),
            self.contains_top() as i64,
        ];
        let ids = [ident(0), ident(1)];
        for id in ids.iter() {
            w.push(self.get_relative_values().get(id).map(bvd_wire).unwrap_or(ABSENT));
        }
        // an identifier the harness never created cannot be projected: make it visible
        assert!(self.get_relative_values().keys().all(|k| ids.contains(k)));
        w
    }
}

fn wire(v: &Value) -> Vec<i64> {
    v.as_array().unwrap().iter().map(|x| x.as_i64().unwrap()).collect()
}
fn ridx(v: &Value) -> usize {
    if v.as_str().unwrap() == "A" {
        0
    } else {
        1
    }
}
fn rname(i: usize) -> &'static str {
    ["A", "B"][i]
}

// ------------------------------------------------------------------------------------------
// the two real regions and the execution of one operation record
// ------------------------------------------------------------------------------------------
pub struct Machine<T: Val> {
    regs: [MemRegion<T>; 2],
}

impl<T: Val> Machine<T> {
    fn new() -> Self {
        Machine { regs: [MemRegion::new(ByteSize::new(ADDR)), MemRegion::new(ByteSize::new(ADDR))] }
    }
    /// contents of region i as `iter()` yields them
    fn cells(&self, i: usize) -> Vec<Vec<i64>> {
        self.regs[i]
            .iter()
            .map(|(o, v)| {
                let mut c = vec![*o];
                c.extend(v.to_wire());
                c
            })
            .collect()
    }
    fn state(&self) -> Value {
        json!([self.cells(0), self.cells(1)])
    }

    fn mutate(&mut self, op: &Value) {
        let ev = op["ev"].as_str().unwrap();
        match ev {
            "add" => {
                let r = ridx(&op["r"]);
                let v = T::from_wire(&wire(&op["val"]));
                let off = op["off"].as_i64().unwrap();
                if op["via"].as_str() == Some("index") {
                    self.regs[r].insert_at_byte_index(v, off);
                } else {
                    self.regs[r].add(v, bv_i64(off, ADDR));
                }
            }
            "remove" => {
                let r = ridx(&op["r"]);
                self.regs[r].remove(bv_i64(op["off"].as_i64().unwrap(), ADDR), bv_i64(op["n"].as_i64().unwrap(), ADDR));
            }
            "wtop" => {
                let r = ridx(&op["r"]);
                self.regs[r].merge_write_top(bv_i64(op["off"].as_i64().unwrap(), ADDR), ByteSize::new(op["s"].as_u64().unwrap()));
            }
            "mtop" => {
                let r = ridx(&op["r"]);
                self.regs[r].mark_interval_values_as_top(
                    op["a"].as_i64().unwrap(),
                    op["b"].as_i64().unwrap(),
                    ByteSize::new(op["s"].as_u64().unwrap()),
                );
            }
            "alltop" => self.regs[ridx(&op["r"])].mark_all_values_as_top(),
            "shift" => self.regs[ridx(&op["r"])].add_offset_to_all_indices(op["k"].as_i64().unwrap()),
            "merge" => {
                let (d, s) = (ridx(&op["dst"]), ridx(&op["src"]));
                let m = self.regs[d].merge(&self.regs[s]);
                self.regs[d] = m;
            }
            "copy" => {
                let (d, s) = (ridx(&op["dst"]), ridx(&op["src"]));
                self.regs[d] = self.regs[s].clone();
            }
            "newtop" => {
                let r = ridx(&op["r"]);
                self.regs[r] = self.regs[r].top();
            }
            "setvals" => {
                let r = ridx(&op["r"]);
                let offs = wire(&op["offs"]);
                let w = wire(&op["val"]);
                let keys: Vec<i64> = self.regs[r].iter().map(|(k, _)| *k).collect();
                for (k, v) in keys.iter().zip(self.regs[r].values_mut()) {
                    if offs.contains(k) {
                        let mut w2 = w.clone();
                        w2[0] = u64::from(v.bytesize()) as i64; // same content at the size of the cell
                        *v = T::from_wire(&w2);
                    }
                }
                self.regs[r].clear_top_values();
            }
            "cleartop" => self.regs[ridx(&op["r"])].clear_top_values(),
            other => panic!("harness: unknown op {}", other),
        }
    }

    fn gets(&self, op: &Value) -> Map<String, Value> {
        let r = ridx(&op["r"]);
        let reg = &self.regs[r];
        let offs = wire(&op["offs"]);
        let sizes = wire(&op["sizes"]);
        let mut res = Vec::new();
        let mut unsized_ = Vec::new();
        for o in offs.iter() {
            let row: Vec<Vec<i64>> = sizes.iter().map(|s| reg.get(bv_i64(*o, ADDR), ByteSize::new(*s as u64)).to_wire()).collect();
            res.push(row);
            let u: Vec<Vec<i64>> = reg.get_unsized(bv_i64(*o, ADDR)).iter().map(|v| v.to_wire()).collect();
            unsized_.push(u);
        }
        let emap: Vec<Vec<i64>> = reg
            .entry_map()
            .iter()
            .map(|(o, v)| {
                let mut c = vec![*o];
                c.extend(v.to_wire());
                c
            })
            .collect();
        let mut m = Map::new();
        m.insert("res".into(), json!(res));
        m.insert("unsized".into(), json!(unsized_));
        m.insert("is_top".into(), json!(reg.is_top()));
        m.insert("emap".into(), json!(emap));
        m.insert("n_values".into(), json!(reg.values().len()));
        m
    }

    /// Execute one operation record on the real regions; returns the event (inputs + outputs).
    fn exec(&mut self, op: &Value) -> Value {
        let mut ev = Map::new();
        let inputs: &[&str] = match op["ev"].as_str().unwrap() {
            "add" => &["ev", "r", "off", "val", "via"],
            "remove" => &["ev", "r", "off", "n"],
            "wtop" => &["ev", "r", "off", "s"],
            "mtop" => &["ev", "r", "a", "b", "s"],
            "alltop" | "newtop" | "cleartop" => &["ev", "r"],
            "shift" => &["ev", "r", "k"],
            "merge" | "copy" => &["ev", "dst", "src"],
            "setvals" => &["ev", "r", "offs", "val"],
            "gets" => &["ev", "r", "offs", "sizes"],
            other => panic!("harness: unknown op {}", other),
        };
        for k in inputs {
            ev.insert(k.to_string(), if op[*k].is_null() && *k == "via" { json!("add") } else { op[*k].clone() });
        }
        if op["ev"] == "gets" {
            match catch(AssertUnwindSafe(|| self.gets(op))) {
                Ok(m) => {
                    ev.extend(m);
                    ev.insert("panic".into(), json!(""));
                }
                Err(p) => {
                    ev.insert("res".into(), json!([]));
                    ev.insert("unsized".into(), json!([]));
                    ev.insert("is_top".into(), json!(false));
                    ev.insert("emap".into(), json!([]));
                    ev.insert("n_values".into(), json!(-1));
                    ev.insert("panic".into(), json!(p));
                }
            }
        } else {
            let p = catch(AssertUnwindSafe(|| self.mutate(op))).err().unwrap_or_default();
            ev.insert("state".into(), self.state());
            ev.insert("panic".into(), json!(p));
        }
        Value::Object(ev)
    }
}

pub enum AnyMachine {
    Flat(Machine<BitvectorDomain>),
    Flagged(Machine<Data>),
}

impl AnyMachine {
    fn new(dom: &str) -> AnyMachine {
        if dom == "flagged" {
            AnyMachine::Flagged(Machine::new())
        } else {
            AnyMachine::Flat(Machine::new())
        }
    }
    fn exec(&mut self, op: &Value) -> Value {
        match self {
            AnyMachine::Flat(m) => m.exec(op),
            AnyMachine::Flagged(m) => m.exec(op),
        }
    }
    fn cells(&self, i: usize) -> Vec<Vec<i64>> {
        match self {
            AnyMachine::Flat(m) => m.cells(i),
            AnyMachine::Flagged(m) => m.cells(i),
        }
    }
}

fn reset_event(dom: &str, src: &str, case: u64) -> Value {
    json!({"ev": "reset", "dom": dom, "src": src, "case": case, "addr": ADDR})
}

/// observer burst on region r: stored offsets and their neighbours (at most 10, rotating with
/// `salt`) plus `extra`; two of the four sizes (rotating), so that both matching and
/// non-matching sizes are read
fn gets_op(m: &AnyMachine, r: usize, extra: &[i64], salt: u64) -> Value {
    let mut cand: Vec<i64> = Vec::new();
    for c in m.cells(r).iter() {
        for d in [0, -1, 1] {
            cand.push(c[0] + d);
        }
        cand.push(c[0] + c[1] - 1);
    }
    let mut offs: Vec<i64> = Vec::new();
    if !cand.is_empty() {
        let start = ((salt % 1009) as usize * 7) % cand.len();
        for i in 0..cand.len().min(10) {
            offs.push(cand[(start + i) % cand.len()]);
        }
    }
    offs.extend_from_slice(extra);
    offs.sort();
    offs.dedup();
    let sizes = [[1, 2], [4, 8], [2, 4], [1, 8], [1, 4], [2, 8]][(salt % 6) as usize];
    json!({"ev": "gets", "r": rname(r), "offs": offs, "sizes": sizes})
}

// ------------------------------------------------------------------------------------------
// random histories (impl -> spec)
// ------------------------------------------------------------------------------------------
struct Gen {
    rng: Rng,
    flagged: bool,
    lo: i64,
    hi: i64,
}

const SIZES: [i64; 8] = [1, 1, 2, 2, 4, 4, 8, 8];

impl Gen {
    fn val(&mut self, s: i64) -> Vec<i64> {
        if !self.flagged {
            let abs = if self.rng.chance(1, 7) { BVTOP } else { self.rng.range(0, 3) };
            vec![s, abs, 0]
        } else if self.rng.chance(1, 8) {
            vec![s, ABSENT, 1, ABSENT, ABSENT] // Top
        } else {
            let abs = match self.rng.below(10) {
                0 | 1 => ABSENT,
                2 => BVTOP,
                _ => self.rng.range(0, 2),
            };
            let rel = |g: &mut Rng| match g.below(12) {
                0 | 1 => g.range(0, 1),
                2 => BVTOP,
                _ => ABSENT,
            };
            let r1 = rel(&mut self.rng);
            let r2 = rel(&mut self.rng);
            vec![s, abs, self.rng.chance(1, 4) as i64, r1, r2]
        }
    }
    /// an offset: near an existing cell of either region (all the overlap / adjacency positions
    /// for a cell of size s), a window edge, or uniform in the window
    fn off(&mut self, m: &AnyMachine, s: i64) -> i64 {
        let mut cells = m.cells(0);
        cells.extend(m.cells(1));
        let k = self.rng.below(100);
        if k < 45 && !cells.is_empty() {
            let c = self.rng.pick(&cells).clone();
            let (o, cs) = (c[0], c[1]);
            let cands = [o, o + 1, o - 1, o + cs, o + cs - 1, o - s, o - s + 1, o + cs / 2, o - s - 1, o + cs + 1];
            *self.rng.pick(&cands)
        } else if k < 55 {
            *self.rng.pick(&[self.lo, self.hi, self.lo - 1, self.hi + 1, self.hi - s + 1, -1, 0])
        } else {
            self.rng.range(self.lo, self.hi)
        }
    }
    fn region(&mut self) -> usize {
        self.rng.below(2) as usize
    }

    fn op(&mut self, m: &AnyMachine) -> Value {
        let r = self.region();
        let k = self.rng.below(100);
        if k < 38 {
            let mut s = *self.rng.pick(&SIZES);
            let mut off = self.off(m, s);
            let mut val = self.val(s);
            // frequently mirror a cell of the other region (same offset and size), so that merges
            // meet the "both hold it" case with equal and with different values
            let other = m.cells(1 - r);
            if self.rng.chance(3, 10) && !other.is_empty() {
                let c = self.rng.pick(&other).clone();
                off = c[0];
                s = c[1];
                val = if self.rng.chance(1, 2) { c[1..].to_vec() } else { self.val(s) };
                if self.rng.chance(1, 6) {
                    s = *self.rng.pick(&SIZES); // same offset, other size
                    val = self.val(s);
                }
            }
            let via = if self.rng.chance(1, 4) { "index" } else { "add" };
            json!({"ev": "add", "r": rname(r), "off": off, "val": val, "via": via})
        } else if k < 46 {
            let n = *self.rng.pick(&[1, 1, 2, 3, 4, 8, 16]);
            json!({"ev": "remove", "r": rname(r), "off": self.off(m, n), "n": n})
        } else if k < 57 {
            let mine = m.cells(r);
            if self.rng.chance(1, 2) && !mine.is_empty() {
                let c = self.rng.pick(&mine).clone();
                let s = if self.rng.chance(4, 5) { c[1] } else { *self.rng.pick(&SIZES) };
                json!({"ev": "wtop", "r": rname(r), "off": c[0], "s": s})
            } else {
                let s = *self.rng.pick(&SIZES);
                json!({"ev": "wtop", "r": rname(r), "off": self.off(m, s), "s": s})
            }
        } else if k < 65 {
            let s = *self.rng.pick(&SIZES);
            let a = self.off(m, s);
            let b = a + *self.rng.pick(&[0, 0, 1, 2, 3, 5, 12]);
            json!({"ev": "mtop", "r": rname(r), "a": a, "b": b, "s": s})
        } else if k < 67 {
            json!({"ev": "alltop", "r": rname(r)})
        } else if k < 74 {
            let cells = m.cells(r);
            let mut kk: i64 = *self.rng.pick(&[-8i64, -3, -2, -1, 0, 1, 2, 3, 8]);
            if let (Some(f), Some(l)) = (cells.first(), cells.last()) {
                // keep the cells near the window
                if f[0] < self.lo - 16 {
                    kk = kk.abs();
                }
                if l[0] > self.hi + 16 {
                    kk = -kk.abs();
                }
            }
            json!({"ev": "shift", "r": rname(r), "k": kk})
        } else if k < 85 {
            let src = if self.rng.chance(1, 10) { r } else { 1 - r };
            json!({"ev": "merge", "dst": rname(r), "src": rname(src)})
        } else if k < 89 {
            json!({"ev": "copy", "dst": rname(r), "src": rname(1 - r)})
        } else if k < 90 {
            json!({"ev": "newtop", "r": rname(r)})
        } else if k < 97 {
            let mine = m.cells(r);
            let mut offs: Vec<i64> = Vec::new();
            for c in mine.iter() {
                if self.rng.chance(1, 3) {
                    offs.push(c[0]);
                }
            }
            if self.rng.chance(1, 4) {
                offs.push(self.rng.range(self.lo, self.hi)); // possibly not a stored offset
            }
            let v = if self.rng.chance(2, 5) {
                if self.flagged { vec![1, ABSENT, 1, ABSENT, ABSENT] } else { vec![1, BVTOP, 0] }
            } else {
                self.val(1)
            };
            json!({"ev": "setvals", "r": rname(r), "offs": offs, "val": v})
        } else {
            json!({"ev": "cleartop", "r": rname(r)})
        }
    }
}

/// feature tag (counted only): some operation evicted a cell at an offset different from its own
/// argument offset (partial overlap), or a merge of two different non-empty regions kept a cell
fn interesting(before: &[Vec<Vec<i64>>; 2], after: &[Vec<Vec<i64>>; 2], op: &Value) -> bool {
    let ev = op["ev"].as_str().unwrap();
    if ev == "merge" {
        let d = ridx(&op["dst"]);
        return !before[0].is_empty() && !before[1].is_empty() && before[0] != before[1] && !after[d].is_empty();
    }
    if !["add", "remove", "wtop", "mtop"].contains(&ev) {
        return false;
    }
    let r = ridx(&op["r"]);
    let own = op["off"].as_i64().or(op["a"].as_i64()).unwrap();
    before[r].iter().any(|c| c[0] != own && !after[r].iter().any(|d| d[0] == c[0]))
}

fn random_case(rng: &mut Rng, case: u64, n_ops: u64) -> (Vec<Value>, bool) {
    let flagged = rng.chance(1, 2);
    let lo = *rng.pick(&[-8i64, -3, 0, -20]);
    let span = *rng.pick(&[6i64, 10, 16, 24]);
    let mut g = Gen { rng: rng.fork(), flagged, lo, hi: lo + span };
    let dom = if flagged { "flagged" } else { "flat" };
    let mut m = AnyMachine::new(dom);
    let mut evs = vec![reset_event(dom, "rand", case)];
    let mut nontrivial = false;
    for _ in 0..n_ops {
        let op = g.op(&m);
        let before = [m.cells(0), m.cells(1)];
        evs.push(m.exec(&op));
        let after = [m.cells(0), m.cells(1)];
        nontrivial |= interesting(&before, &after, &op);
        if g.rng.chance(1, 3) {
            let r = if op["ev"] == "merge" || op["ev"] == "copy" { ridx(&op["dst"]) } else { ridx(&op["r"]) };
            let extra = [g.rng.range(lo - 2, lo + span + 2), *g.rng.pick(&[lo, lo + span])];
            let q = gets_op(&m, r, &extra, g.rng.next());
            evs.push(m.exec(&q));
        }
    }
    for r in 0..2 {
        let q = gets_op(&m, r, &[lo, lo + span], g.rng.next());
        evs.push(m.exec(&q));
    }
    (evs, nontrivial)
}

/// Re-execute the operations of a list of recorded events / operation records (outputs ignored).
fn run_ops(dom: &str, src: &str, case: u64, ops: &[Value], final_gets: bool) -> (Vec<Value>, bool) {
    let mut m = AnyMachine::new(dom);
    let mut evs = vec![reset_event(dom, src, case)];
    let mut nontrivial = false;
    for op in ops {
        let before = [m.cells(0), m.cells(1)];
        evs.push(m.exec(op));
        let after = [m.cells(0), m.cells(1)];
        nontrivial |= op["ev"] != "gets" && interesting(&before, &after, op);
    }
    if final_gets {
        for r in 0..2 {
            let q = gets_op(&m, r, &[-1, 0], case + ops.len() as u64 + r as u64);
            evs.push(m.exec(&q));
        }
    }
    (evs, nontrivial)
}

pub fn gen(out: &mut Out, sub: &str) {
    if sub == "spec" {
        // histories produced by TLC (MC_MemRegion_hist): one JSON object {"dom", "ops"} per line
        let path = std::env::var("VERIF_C05_HIST").expect("VERIF_C05_HIST");
        let text = std::fs::read_to_string(&path).expect("history file");
        let mut total_ops = 0u64;
        for (i, line) in text.lines().enumerate() {
            let h: Value = serde_json::from_str(line).expect("history line");
            let ops = h["ops"].as_array().unwrap();
            total_ops += ops.len() as u64;
            let (evs, nt) = run_ops(h["dom"].as_str().unwrap(), "spec", i as u64, ops, true);
            out.emit(evs, nt);
        }
        out.extra.insert("spec_histories".into(), json!(text.lines().count()));
        out.extra.insert("spec_history_ops".into(), json!(total_ops));
        return;
    }
    let mut rng = Rng::new(out.seed ^ 0xC05);
    let cases = out.size(300, 6000);
    let mut kinds: BTreeMap<String, u64> = BTreeMap::new();
    for case in 0..cases {
        let n_ops = *rng.pick(&[20u64, 60, 60, 100]);
        let (evs, nt) = random_case(&mut rng, case, n_ops);
        for e in evs.iter() {
            *kinds.entry(e["ev"].as_str().unwrap().to_string()).or_insert(0) += 1;
        }
        out.emit(evs, nt);
    }
    out.extra.insert("events_by_kind".into(), json!(kinds));
}

pub fn replay(run: &[Value], _sub: &str) -> Vec<Value> {
    let (dom, src, case, ops) = match run.first() {
        Some(e) if e["ev"] == "reset" => (
            e["dom"].as_str().unwrap_or("flat").to_string(),
            e["src"].as_str().unwrap_or("replay").to_string(),
            e["case"].as_u64().unwrap_or(0),
            &run[1..],
        ),
        _ => ("flat".to_string(), "replay".to_string(), 0, run),
    };
    run_ops(&dom, &src, case, ops, false).0
}
