//! C02: `IntervalDomain::bin_op / un_op / cast / subpiece` on generated interval values.
//! One event per call: {ev:"op", kind, op, x, y, size, low} -> {r, panic}.  For kinds without a
//! second operand `y` repeats `x` (ignored by the specification).  The harness records; T_C02.tla
//! (Interval!SoundBin ...) decides.
use crate::domenc::*;
use crate::ivgen::*;
use crate::out::{catch, Out};
use crate::props::c01::{parse, INT_BIN_OPS};
use crate::rng::Rng;
use cwe_checker_lib::abstract_domain::*;
use cwe_checker_lib::intermediate_representation::*;
use serde_json::{json, Value};

/// Re-execute the inputs of one event on the real code.
pub fn exec(input: &Value) -> Value {
    let kind = input["kind"].as_str().unwrap().to_string();
    let op = input["op"].as_str().unwrap().to_string();
    let x = iv_from_json(&input["x"]);
    let size = input["size"].as_u64().unwrap();
    let low = input["low"].as_u64().unwrap();
    let mut ev = serde_json::Map::new();
    for k in ["kind", "op", "x", "y", "size", "low", "cls"] {
        ev.insert(k.to_string(), input[k].clone());
    }
    ev.insert("ev".into(), json!("op"));
    let res: Result<IntervalDomain, String> = match kind.as_str() {
        "bin" => {
            let y = iv_from_json(&input["y"]);
            let o: BinOpType = parse(&op);
            catch(move || x.bin_op(o, &y))
        }
        "un" => {
            let o: UnOpType = parse(&op);
            catch(move || x.un_op(o))
        }
        "cast" => {
            let o: CastOpType = parse(&op);
            catch(move || x.cast(o, ByteSize::new(size)))
        }
        _ => catch(move || x.subpiece(ByteSize::new(low), ByteSize::new(size))),
    };
    match res {
        Ok(r) => {
            ev.insert("r".into(), iv(&r));
            ev.insert("panic".into(), json!(""));
        }
        Err(p) => {
            ev.insert("r".into(), input["x"].clone());
            ev.insert("panic".into(), json!(if p.is_empty() { "panic".to_string() } else { p }));
        }
    }
    Value::Object(ev)
}

pub fn replay(run: &[Value], _sub: &str) -> Vec<Value> {
    run.iter().map(exec).collect()
}

/// Feature tag of the INPUTS of an event (used only to key known findings, never to decide).
fn cls(op: &str, x: &RawIv, y: Option<&RawIv>, size: u64) -> &'static str {
    let single = |r: &RawIv| r.start == r.end;
    let zero = |r: &RawIv| single(r) && to_i128(&r.start) == 0;
    let corner = |r: &RawIv, v: i128| to_i128(&r.start) == v || to_i128(&r.end) == v;
    match (op, y) {
        ("Piece", Some(y)) if single(y) && !single(x) && ((x.stride as u128) << (8 * y.width())) > u64::MAX as u128 => "piece_stride_overflow",
        ("IntMult", Some(y)) if corner(x, -1) && to_i128(&y.start) == smin(y.width()) => "mul_neg1_times_min",
        ("IntLeft", Some(y)) if corner(x, -1) && single(y) && y.start.try_to_u64().ok() == Some(8 * x.width() - 1) => "mul_neg1_times_min",
        ("IntMult", Some(y)) if (zero(x) && !single(y)) || (zero(y) && !single(x)) => "mul_by_zero",
        ("IntZExt", _) if size > 8 && to_i128(&x.start) < 0 && to_i128(&x.end) >= 0 => "zext_wide_sign_crossing",
        _ => "",
    }
}

fn input(kind: &str, op: &str, x: &RawIv, y: Option<&RawIv>, size: u64, low: u64) -> Value {
    json!({"kind": kind, "op": op, "x": x.json(), "y": y.unwrap_or(x).json(), "size": size, "low": low, "cls": cls(op, x, y, size)})
}

fn is_top_or_single(r: &Value) -> bool {
    let raw = RawIv::from_json(r);
    let w = raw.width();
    raw.start == raw.end || (to_i128(&raw.start) == smin(w) && to_i128(&raw.end) == smax(w) && raw.stride == 1)
}

fn push(out: &mut Out, inp: Value) {
    let ev = exec(&inp);
    // rule: the result is neither Top nor a singleton, or the operands have more than one member pair
    let pairs = count(&RawIv::from_json(&ev["x"])).saturating_mul(if ev["kind"] == "bin" { count(&RawIv::from_json(&ev["y"])) } else { 1 });
    let nt = ev["panic"] == "" && (!is_top_or_single(&ev["r"]) || pairs > 1);
    out.emit(vec![ev], nt);
}

const RICH: [&str; 5] = ["IntAdd", "IntSub", "IntMult", "IntLeft", "Piece"];
const FLOAT_BIN: [&str; 4] = ["FloatEqual", "FloatLess", "FloatAdd", "FloatDiv"];
const HINT_PCT: u64 = 35;

/// shift amounts: mostly around the bit width, sometimes an interval
fn shift_amount(rng: &mut Rng, wx: u64, wy: u64) -> RawIv {
    let bits = 8 * wx as i128;
    let v = match rng.below(10) {
        0..=4 => rng.range(0, 9) as i128,
        5 => bits - 1,
        6 => bits,
        7 => bits + 1,
        8 => rng.range(0, 127) as i128,
        _ => return rand_raw(rng, wy, 0),
    }
    .min(smax(wy));
    if rng.chance(1, 6) && v < smax(wy) {
        raw(v, (v + rng.range(1, 3) as i128).min(smax(wy)), 1, wy)
    } else {
        raw(v, v, 0, wy)
    }
}

/// A partner for x such that x+y / x-y / x*y just overflows or just does not.
fn near_overflow_partner(rng: &mut Rng, x: &RawIv, w: u64, op: &str) -> RawIv {
    let (xs, xe) = (to_i128(&x.start), to_i128(&x.end));
    let (mn, mx) = (smin(w), smax(w));
    let d = rng.range(-1, 1) as i128;
    let (s, e) = match op {
        "IntAdd" => if rng.chance(1, 2) { let e = mx - xe + d; (e - rng.range(0, 5) as i128, e) } else { let s = mn - xs + d; (s, s + rng.range(0, 5) as i128) },
        "IntSub" => if rng.chance(1, 2) { let s = xe - mx + d; (s, s + rng.range(0, 5) as i128) } else { let e = xs - mn + d; (e - rng.range(0, 5) as i128, e) },
        _ => {
            let m = xe.abs().max(xs.abs()).max(1);
            let q = mx / m + d;
            if rng.chance(1, 2) { (q - rng.range(0, 3) as i128, q) } else { (-q, -q + rng.range(0, 3) as i128) }
        }
    };
    let (s, e) = (s.clamp(mn, mx), e.clamp(mn, mx));
    let (s, e) = if s <= e { (s, e) } else { (e, s) };
    raw(s, e, if s == e { 0 } else { 1 }, w)
}

fn bin_events(out: &mut Out, rng: &mut Rng, op: &str, wx: u64, n: u64, max_pairs: u128) {
    let shift = matches!(op, "IntLeft" | "IntRight" | "IntSRight");
    let mut i = 0;
    let mut tries = 0;
    while i < n && tries < 20 * n {
        tries += 1;
        let x = rand_raw(rng, wx, HINT_PCT);
        let wy = if shift { *rng.pick(&[1u64, 1, 1, wx.min(8)]) } else if op == "Piece" { *rng.pick(&[1u64, 2, 4, 8]) } else { wx };
        if op == "Piece" && wx == 1 && rng.chance(2, 3) && wy != 1 { continue; }
        let y = if shift {
            shift_amount(rng, wx, wy)
        } else if RICH.contains(&op) && op != "Piece" && rng.chance(1, 4) {
            near_overflow_partner(rng, &x, wx, op)
        } else {
            rand_raw(rng, wy, HINT_PCT)
        };
        if count(&x).saturating_mul(count(&y)) > max_pairs { continue; }
        // both operand orders
        let (a, b) = if !shift && op != "Piece" && rng.chance(1, 2) { (&y, &x) } else { (&x, &y) };
        push(out, input("bin", op, a, Some(b), 0, 0));
        i += 1;
    }
}

pub fn gen(out: &mut Out, _sub: &str) {
    let mut rng = Rng::new(out.seed ^ 0xC02);
    let q = out.quick();
    // ---- 1-byte operands: gamma enumerated completely by the specification ----------------------
    for op in INT_BIN_OPS {
        let n = if RICH.contains(&op) { out.size(650, 9000) } else { out.size(90, 1100) };
        bin_events(out, &mut rng, op, 1, n, 40000);
    }
    for op in FLOAT_BIN {
        let w = *rng.pick(&[1u64, 4, 8]);
        bin_events(out, &mut rng, op, w, 6, 40000);
    }
    // unary / casts / subpiece on 1- and 2-byte intervals (complete enumeration up to 65536 members)
    for w in [1u64, 2] {
        let n = out.size(if w == 1 { 200 } else { 35 }, if w == 1 { 2200 } else { 400 });
        for _ in 0..n {
            let mut x = rand_raw(&mut rng, w, HINT_PCT);
            if w == 2 && count(&x) > 6000 && rng.chance(if q { 9 } else { 5 }, 10) { x = rand_raw_sized(&mut rng, w, Size::Medium, HINT_PCT); }
            for op in ["Int2Comp", "IntNegate"] {
                push(out, input("un", op, &x, None, 0, 0));
            }
            if w == 1 {
                push(out, input("un", "BoolNegate", &x, None, 0, 0));
            }
            for op in ["IntZExt", "IntSExt"] {
                let size = *rng.pick(&[w, 2, 4, 8, 8]);
                if size >= w { push(out, input("cast", op, &x, None, size, 0)); }
            }
            for op in ["PopCount", "LzCount"] {
                if rng.chance(1, 3) { push(out, input("cast", op, &x, None, *rng.pick(&[1u64, 2, 4, 8]), 0)); }
            }
            if rng.chance(1, 20) {
                push(out, input("un", *rng.pick(&["FloatNegate", "FloatAbs", "FloatSqrt", "FloatNaN"]), &x, None, 0, 0));
                push(out, input("cast", *rng.pick(&["Int2Float", "Float2Float", "Trunc"]), &x, None, *rng.pick(&[4u64, 8]), 0));
            }
            if w == 2 {
                for (low, size) in [(0u64, 1u64), (1, 1), (0, 2)] {
                    push(out, input("sub", "Subpiece", &x, None, size, low));
                }
            } else {
                push(out, input("sub", "Subpiece", &x, None, 1, 0));
            }
        }
    }
    // ---- wider operands: member sampling inside the specification -----------------------------
    for w in [2u64, 4, 8] {
        for op in INT_BIN_OPS {
            if op.starts_with("Bool") { continue; }
            let n = if RICH.contains(&op) { out.size(45, 500) } else { out.size(10, 80) };
            bin_events(out, &mut rng, op, w, n, u128::MAX);
        }
        // Piece with a 1-byte upper part and a wide lower part
        bin_events(out, &mut rng, "Piece", 1, out.size(25, 200), u128::MAX);
        let n = out.size(120, 1000);
        for _ in 0..n {
            let x = rand_raw(&mut rng, w, HINT_PCT);
            if w > 2 {
                for op in ["Int2Comp", "IntNegate"] {
                    push(out, input("un", op, &x, None, 0, 0));
                }
                for op in ["IntZExt", "IntSExt"] {
                    let size = *rng.pick(&[w, 4, 8, 8, 16]);
                    if size >= w { push(out, input("cast", op, &x, None, size, 0)); }
                }
                for op in ["PopCount", "LzCount"] {
                    if rng.chance(1, 3) { push(out, input("cast", op, &x, None, *rng.pick(&[1u64, 2, 4, 8]), 0)); }
                }
            }
            // subpieces: all (low, size) splits at byte granularity for this width, two per interval
            for _ in 0..2 {
                let low = rng.below(w);
                let size = 1 + rng.below(w - low);
                // intervals short enough for subpiece_lower to keep bounds are rare at random: force some
                let xs = if rng.chance(1, 2) {
                    let s = pick_val(&mut rng, w);
                    let span = 1i128 << (8 * size.min(w - 1));
                    let e = (s + rng.range(0, 3) as i128 * span / 4 + rng.range(0, 300) as i128).min(smax(w));
                    let st = if s == e { 0 } else { 1 };
                    let mut r = raw(s, e, st, w);
                    let (lo, hi, d) = rand_hints(&mut rng, w, s, e, st, HINT_PCT);
                    r.lo = lo.map(|v| bvs(v, w)); r.hi = hi.map(|v| bvs(v, w)); r.delay = d;
                    r
                } else { x.clone() };
                push(out, input("sub", "Subpiece", &xs, None, size, low));
            }
        }
    }
}
