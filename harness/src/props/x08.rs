//! X08: end-to-end translation validation of the front end
//! (P-Code function -> `pcode::Project::normalize` + `into_ir_project` -> `normalize_basic` ->
//! `normalize_optimize`), the composition of what C11 checks per block and C10 per function.
//!
//! Generates whole P-Code projects "as the extractor emits them" - functions of pcodegen.rs
//! (`gen_funcs`/`layout`: x86-64 prologues / epilogues, call sequences, stack / heap / global accesses)
//! enriched with instruction groups of pblockgen.rs (sub-register writes and cast-to-base idioms, RAM
//! operands in every position, temporaries, SUBPIECE / PIECE / casts), and functions built from
//! pblockgen blocks alone over an x86-64-like and an x86-32-like register table - runs the REAL
//! pipeline on the project and records one case per project: register table, the chosen P-Code
//! function (encoding of spec/PcodeFn.tla), the fully normalised IR function (encoding of spec/IR.tla),
//! initial register files with an aligned stack pointer.  TLC runs both reference interpreters as a
//! product machine (spec/FrontEndMonitor.tla) and decides; nothing is decided here (`feat` are
//! syntactic tags, `nontrivial` is only counted).
use crate::out::{catch, Out};
use crate::pblockgen::{self, Arch, BlockGen, PTerm};
use crate::pcodegen::{self, bin, copy, cst, op, reg, Block, Func, Knobs, Op, ProjectSpec, Term};
use crate::rng::Rng;
use crate::{irenc, penc};
use cwe_checker_lib::intermediate_representation as ir;
use cwe_checker_lib::pcode;
use serde_json::{json, Value};
use std::collections::{BTreeSet, HashSet};

// ------------------------------------------------------------------------------------------------
// input class: boolean discipline, stack pointer masks (spec/PcodeFn.tla C1, C3)
// ------------------------------------------------------------------------------------------------
const BOOL_OPS: [&str; 4] = ["BOOL_NEGATE", "BOOL_AND", "BOOL_OR", "BOOL_XOR"];
const COMPARE: [&str; 9] = ["INT_EQUAL", "INT_NOTEQUAL", "INT_LESS", "INT_SLESS", "INT_LESSEQUAL", "INT_SLESSEQUAL", "INT_CARRY", "INT_SCARRY", "INT_SBORROW"];

fn is_flag(v: &Value, arch: &Arch) -> bool {
    v["is_virtual"] == json!(false) && v["name"].as_str().map_or(false, |n| arch.flags.contains(&n))
}
fn is_bool_const(v: &Value) -> bool {
    v["value"].as_str().map_or(false, |s| {
        let t = s.trim_start_matches('0');
        t.is_empty() || t == "1"
    })
}
fn bool_operand(rng: &mut Rng, arch: &Arch) -> Value {
    if rng.chance(1, 5) {
        cst(rng.below(2), 1)
    } else {
        reg(*rng.pick(&arch.flags), 1)
    }
}
fn byte_reg(rng: &mut Rng, arch: &Arch) -> Value {
    let c: Vec<&pblockgen::View> = arch.views.iter().filter(|v| v.size == 1 && v.base_size > 1 && !v.sns).collect();
    let v = *rng.pick(&c);
    reg(&v.name, 1)
}
fn other_base(rng: &mut Rng, arch: &Arch) -> Value {
    let c: Vec<&pblockgen::RegDef> = arch.base_regs().into_iter().filter(|r| r.size == arch.ptr && r.name != arch.sp && r.name != arch.pc).collect();
    let r = *rng.pick(&c);
    reg(&r.name, r.size)
}

/// Keep generated operations inside the input class of the statement: operands of BOOL_* are P-Code booleans
/// (flag registers, 0/1 constants, temporaries just computed by a comparison), flag registers are only
/// written by comparisons / boolean operations, and no generated INT_AND writes the stack pointer (the
/// planted prologue has the only alignment mask).
fn sanitize(ops: &mut [Op], rng: &mut Rng, arch: &Arch, booltemps: &mut HashSet<String>) {
    for o in ops.iter_mut() {
        // (cost, not class: the bit-serial long division of the reference interpreters on 16-byte operands, executed in a
        // loop up to the fuel, dominated whole runs; most of them become subtractions)
        if ["INT_DIV", "INT_REM", "INT_SDIV", "INT_SREM"].contains(&o.mnemonic) && o.inputs[0]["size"].as_u64().unwrap_or(0) > 8 && !rng.chance(1, 8) {
            o.mnemonic = "INT_SUB";
        }
        let m = o.mnemonic;
        if BOOL_OPS.contains(&m) {
            let n = if m == "BOOL_NEGATE" { 1 } else { 2 };
            for k in 0..n {
                let v = &o.inputs[k];
                let ok = is_flag(v, arch) || is_bool_const(v) || (v["is_virtual"] == json!(true) && v["name"].as_str().map_or(false, |n| booltemps.contains(n)));
                if !ok {
                    o.inputs[k] = bool_operand(rng, arch);
                }
            }
        }
        let produces_bool = COMPARE.contains(&m) || BOOL_OPS.contains(&m);
        let (name, virt, size) = match o.lhs["name"].as_str() {
            Some(n) => (n.to_string(), o.lhs["is_virtual"] == json!(true), o.lhs["size"].as_u64().unwrap_or(0)),
            None => continue,
        };
        if virt {
            if produces_bool {
                booltemps.insert(name);
            } else {
                booltemps.remove(&name);
            }
        } else if arch.flags.contains(&name.as_str()) && !produces_bool {
            o.lhs = byte_reg(rng, arch);
        } else if name == arch.sp && size == arch.ptr && m == "INT_AND" {
            o.lhs = other_base(rng, arch);
        }
    }
}

/// the condition of a CBRANCH: a flag register, or whatever the block's last operation (a comparison) just computed
fn sanitize_cond(flag: &Value, instrs: &[Vec<Op>], rng: &mut Rng, arch: &Arch) -> Value {
    let computed = instrs.last().and_then(|i| i.last()).map_or(false, |o| COMPARE.contains(&o.mnemonic) && &o.lhs == flag);
    if computed || is_flag(flag, arch) {
        flag.clone()
    } else {
        reg(*rng.pick(&arch.flags), 1)
    }
}

// ------------------------------------------------------------------------------------------------
// generators
// ------------------------------------------------------------------------------------------------
/// constants that `finish_layout` replaces by the address of block k of the chosen function
const MAGIC: u64 = 0x7e57_0000;

pub struct Generated {
    pub raw: Value,
    /// TID of the function under test
    pub fn_tid: String,
    pub arch64: bool,
    pub feats: BTreeSet<String>,
}

struct Built {
    spec: ProjectSpec,
    fidx: usize,
    /// (block index, RETURN operand) for the function under test
    returns: Vec<(usize, Value)>,
    feats: BTreeSet<String>,
}

fn groups(rng: &mut Rng, arch: &Arch, n: u64, feats: &mut BTreeSet<String>) -> Vec<Vec<Op>> {
    let mut out = Vec::new();
    let mut bt = HashSet::new();
    let mut raw = Vec::new();
    {
        let mut g = BlockGen::new(rng, arch);
        g.floats = false;
        for _ in 0..n {
            let i = g.instr();
            if !i.is_empty() {
                raw.push(i);
            }
        }
        for f in g.feats.iter() {
            feats.insert(f.to_string());
        }
    }
    for mut i in raw {
        sanitize(&mut i, rng, arch, &mut bt);
        out.push(i);
    }
    out
}

/// The interaction shape behind this check: a base register is defined completely, then one of its sub-registers
/// is written, then a view of the same base register (the same one, a neighbour, an enclosing one) is read and made
/// observable.  After lifting these are PIECE / SUBPIECE expressions over the base register that expression
/// propagation nests into each other and trivial-expression substitution simplifies.
fn piece_chain(rng: &mut Rng, arch: &Arch, feats: &mut BTreeSet<String>) -> Vec<Vec<Op>> {
    let bases: Vec<&pblockgen::RegDef> = arch
        .base_regs()
        .into_iter()
        .filter(|r| r.name != arch.sp && r.name != arch.pc && arch.views.iter().any(|v| v.base == r.name && v.size < v.base_size))
        .collect();
    let b = *rng.pick(&bases);
    let subs: Vec<&pblockgen::View> = arch.views.iter().filter(|v| v.base == b.name && v.size < v.base_size).collect();
    let s1 = *rng.pick(&subs);
    let s2 = if rng.chance(1, 2) { s1 } else { *rng.pick(&subs) };
    // an operand of the given size that is no view of b (and no flag): a view of another register, or a constant
    let operand = |rng: &mut Rng, size: u64| -> Value {
        let c: Vec<&pblockgen::View> = arch.views.iter().filter(|v| v.size == size && v.base != b.name && !arch.flags.contains(&v.base.as_str())).collect();
        if c.is_empty() || rng.chance(1, 5) {
            cst(rng.next(), size)
        } else {
            let v = *rng.pick(&c);
            reg(&v.name, size)
        }
    };
    let full = reg(&b.name, b.size);
    let g1 = if rng.chance(1, 2) {
        vec![copy(full.clone(), operand(rng, b.size))]
    } else {
        vec![bin(full.clone(), *rng.pick(&["INT_ADD", "INT_XOR", "INT_SUB"]), operand(rng, b.size), cst(rng.below(300), b.size))]
    };
    let w = reg(&s1.name, s1.size);
    let g2 = match rng.below(3) {
        0 => vec![copy(w, operand(rng, s1.size))],
        1 => vec![bin(w, *rng.pick(&["INT_ADD", "INT_AND", "INT_OR"]), operand(rng, s1.size), cst(rng.below(256), s1.size))],
        _ => vec![bin(w.clone(), "INT_ADD", w, cst(1 + rng.below(9), s1.size))],
    };
    let r = reg(&s2.name, s2.size);
    let g3 = match rng.below(3) {
        0 => vec![copy(pcodegen::ram(pblockgen::RAM_BASE + 8 * rng.below(4), s2.size), r)],
        1 => {
            let d = operand(rng, s2.size);
            if d["name"].is_string() { vec![copy(d, r)] } else { vec![copy(pcodegen::ram(pblockgen::RAM_BASE, s2.size), r)] }
        }
        _ => vec![bin(pcodegen::ram(pblockgen::RAM_BASE + 16, s2.size), "INT_XOR", r, cst(rng.below(256), s2.size))],
    };
    feats.insert("piece_chain".into());
    if s2.lsb == s1.lsb && s2.size == s1.size {
        feats.insert("piece_chain_same_view".into());
    }
    vec![g1, g2, g3]
}

/// Mode A: a project of pcodegen.rs; one of its functions is enriched with pblockgen instruction groups.
fn mode_a(rng: &mut Rng, arch: &Arch) -> Built {
    let knobs = Knobs { n_funcs: 3, max_blocks: 2 + rng.below(4) as usize, must_call: vec![], lkm: false, lost_roots: false };
    let mut spec = pcodegen::gen_funcs(rng, &knobs);
    let fidx = rng.below(spec.funcs.len() as u64) as usize;
    let mut feats = BTreeSet::new();
    feats.insert("mode_a".to_string());
    {
        // pcodegen's prologue: push rbp ; mov rbp, rsp ; sub rsp, N ; (and rsp, -16).  Compilers emit the alignment
        // before the allocation: swap them half of the time.
        let b0 = &mut spec.funcs[fidx].blocks[0];
        if b0.instrs.len() > 3 && b0.instrs[3].len() == 1 && b0.instrs[3][0].mnemonic == "INT_AND" && b0.instrs[3][0].lhs["name"] == json!("RSP") && rng.chance(1, 2) {
            feats.insert("sp_mask_before_alloc".into());
            b0.instrs.swap(2, 3);
        }
    }
    let richness = rng.below(4); // 0: the function as pcodegen made it
    for b in spec.funcs[fidx].blocks.iter_mut() {
        let n = if richness == 0 { 0 } else { rng.below(richness + 1) };
        let gs = groups(rng, arch, n, &mut feats);
        if gs.is_empty() {
            continue;
        }
        // the call sequence (push of the return address) stays the last instruction of a call block
        let is_call = matches!(b.term, Term::CallExt { .. } | Term::CallFn { .. } | Term::CallInd { .. });
        let limit = if is_call && !b.instrs.is_empty() { b.instrs.len() - 1 } else { b.instrs.len() };
        let mut pos: Vec<usize> = gs.iter().map(|_| rng.below(limit as u64 + 1) as usize).collect();
        pos.sort();
        for (k, (p, g)) in pos.into_iter().zip(gs.into_iter()).enumerate() {
            b.instrs.insert(p + k, g);
        }
    }
    // piece chains: the three groups in one block, or the reader at the start of the next block of the layout
    let nb = spec.funcs[fidx].blocks.len();
    for bi in 0..nb {
        if !rng.chance(1, 3) {
            continue;
        }
        let mut ch = piece_chain(rng, arch, &mut feats);
        let split = bi + 1 < nb && rng.chance(1, 3);
        let reader = if split { ch.pop() } else { None };
        {
            let b = &mut spec.funcs[fidx].blocks[bi];
            let is_call = matches!(b.term, Term::CallExt { .. } | Term::CallFn { .. } | Term::CallInd { .. });
            let limit = if is_call && !b.instrs.is_empty() { b.instrs.len() - 1 } else { b.instrs.len() };
            // behind the prologue of the entry block
            let lo = if bi == 0 { limit.min(4) } else { 0 };
            let p = lo + rng.below((limit - lo) as u64 + 1) as usize;
            for (k, g) in ch.into_iter().enumerate() {
                b.instrs.insert(p + k, g);
            }
        }
        if let Some(g) = reader {
            feats.insert("piece_chain_across_blocks".into());
            spec.funcs[fidx].blocks[bi + 1].instrs.insert(0, g);
        }
    }
    for b in spec.funcs[fidx].blocks.iter() {
        match &b.term {
            Term::CallExt { .. } => feats.insert("call_extern".into()),
            Term::CallFn { .. } => feats.insert("call_internal".into()),
            Term::CallInd { .. } => feats.insert("call_indirect".into()),
            Term::IndJmp { .. } => feats.insert("indjmp".into()),
            Term::Cond { .. } => feats.insert("cbranch".into()),
            _ => false,
        };
        if b.instrs.iter().flatten().any(|o| o.mnemonic == "INT_AND" && o.lhs["name"] == json!("RSP")) {
            feats.insert("sp_mask".into());
        }
    }
    Built { spec, fidx, returns: Vec::new(), feats }
}

fn ld(arch: &Arch, dst: Value, addr: Value) -> Op {
    op(dst, "LOAD", cst(0x1b1, arch.ptr), addr, Value::Null)
}
fn st(arch: &Arch, addr: Value, val: Value) -> Op {
    op(Value::Null, "STORE", cst(0x1b1, arch.ptr), addr, val)
}

/// Mode B: a function whose blocks are pblockgen blocks (all instruction groups, all terminators) on a random
/// control-flow skeleton, optionally with an x86-style prologue / epilogues / pushes of return addresses, plus a
/// small callee (with or without a RETURN).
fn mode_b(rng: &mut Rng, arch: &Arch) -> Built {
    let mut feats = BTreeSet::new();
    feats.insert("mode_b".to_string());
    let n = 2 + rng.below(4) as usize;
    let ptr = arch.ptr;
    let sp = reg(&arch.sp, ptr);
    let bp = reg(if ptr == 8 { "RBP" } else { "EBP" }, ptr);
    let pc = reg(arch.pc, ptr);
    let externs: Vec<usize> = {
        let voc = pcodegen::vocabulary();
        ["malloc", "free", "puts", "exit", "abort", "strlen"].iter().map(|n| voc.iter().position(|s| s.name == *n).unwrap()).collect()
    };
    let prologue = rng.chance(1, 2);
    let mut blocks = Vec::new();
    let mut returns = Vec::new();
    for i in 0..n {
        let pb = {
            let mut g = BlockGen::new(rng, arch);
            g.floats = false;
            g.block(4)
        };
        for f in pb.feats.iter() {
            feats.insert(f.to_string());
        }
        let mut bt = HashSet::new();
        let mut instrs: Vec<Vec<Op>> = Vec::new();
        for mut ins in pb.instrs {
            sanitize(&mut ins, rng, arch, &mut bt);
            instrs.push(ins);
        }
        if rng.chance(1, 3) {
            let mut ch = piece_chain(rng, arch, &mut feats);
            ch.extend(instrs);
            instrs = ch;
        }
        let other = |rng: &mut Rng| if n > 1 { 1 + rng.below(n as u64 - 1) as usize } else { 0 };
        let next = if i + 1 < n { i + 1 } else { other(rng) };
        let pterm = if i + 1 == n && rng.chance(2, 3) { PTerm::Return { target: pc.clone() } } else { pb.term };
        let push_ret = |rng: &mut Rng, instrs: &mut Vec<Vec<Op>>, ret: usize| {
            if rng.chance(1, 2) {
                instrs.push(vec![bin(sp.clone(), "INT_SUB", sp.clone(), cst(ptr, ptr)), st(arch, sp.clone(), cst(MAGIC + ret as u64, ptr))]);
            }
        };
        let term = match pterm {
            PTerm::Goto => Term::Goto(if rng.chance(2, 3) { next } else { other(rng) }),
            PTerm::Cond { flag } => {
                feats.insert("cbranch".into());
                let flag = sanitize_cond(&flag, &instrs, rng, arch);
                Term::Cond { flag, target: other(rng), fall: next }
            }
            PTerm::IndJmp { target, hints } => {
                feats.insert("indjmp".into());
                let hs: Vec<usize> = (0..hints.max(1)).map(|_| other(rng)).collect();
                if target["size"] == json!(ptr) && rng.chance(1, 2) {
                    feats.insert("indjmp_to_hint".into());
                    instrs.push(vec![copy(target.clone(), cst(MAGIC + hs[0] as u64, ptr))]);
                }
                Term::IndJmp { target, hints: hs }
            }
            PTerm::Call { ret } => {
                let r = if ret { Some(next) } else { None };
                push_ret(rng, &mut instrs, next);
                if rng.chance(3, 5) {
                    feats.insert("call_extern".into());
                    Term::CallExt { sym: *rng.pick(&externs), ret: r }
                } else {
                    feats.insert("call_internal".into());
                    Term::CallFn { func: 1, ret: r }
                }
            }
            PTerm::CallInd { target, ret } => {
                feats.insert("call_indirect".into());
                push_ret(rng, &mut instrs, next);
                Term::CallInd { target, ret: if ret { Some(next) } else { None } }
            }
            PTerm::CallOther => {
                feats.insert("callother".into());
                Term::CallOther { ret: next }
            }
            PTerm::Return { target } => {
                if prologue && rng.chance(2, 3) {
                    instrs.push(vec![copy(sp.clone(), bp.clone())]);
                    instrs.push(vec![ld(arch, bp.clone(), sp.clone()), bin(sp.clone(), "INT_ADD", sp.clone(), cst(ptr, ptr))]);
                    instrs.push(vec![ld(arch, pc.clone(), sp.clone()), bin(sp.clone(), "INT_ADD", sp.clone(), cst(ptr, ptr))]);
                    returns.push((i, pc.clone()));
                } else {
                    returns.push((i, target));
                }
                Term::Ret
            }
        };
        if i == 0 && prologue {
            feats.insert("prologue".into());
            // push bp ; mov bp, sp ; then the frame allocation and - sometimes - the alignment of the stack pointer, in
            // either order (`and sp, -16 ; sub sp, N` is what compilers emit), sometimes with an unrelated instruction in
            // between (two consecutive assignments to the stack pointer are merged by expression propagation)
            let frame = 0x10 + 8 * rng.below(6);
            let mut pro = vec![
                vec![bin(sp.clone(), "INT_SUB", sp.clone(), cst(ptr, ptr)), st(arch, sp.clone(), bp.clone())],
                vec![copy(bp.clone(), sp.clone())],
            ];
            // (`sub sp, N`, or the addition of the two's complement)
            let alloc = if rng.chance(1, 3) {
                feats.insert("sp_add_negative".into());
                vec![bin(sp.clone(), "INT_ADD", sp.clone(), cst(frame.wrapping_neg(), ptr))]
            } else {
                vec![bin(sp.clone(), "INT_SUB", sp.clone(), cst(frame, ptr))]
            };
            if rng.chance(1, 2) {
                feats.insert("sp_mask".into());
                let k = *rng.pick(&[4u64, 4, 4, 5, 3, 8, 12]);
                let mask = cst(!((1u64 << k) - 1), ptr);
                let a = if rng.chance(1, 4) { bin(sp.clone(), "INT_AND", mask, sp.clone()) } else { bin(sp.clone(), "INT_AND", sp.clone(), mask) };
                let between = if rng.chance(1, 3) { Some(vec![copy(other_base(rng, arch), cst(rng.below(1000), ptr))]) } else { None };
                if rng.chance(1, 2) {
                    feats.insert("sp_mask_before_alloc".into());
                    pro.push(vec![a]);
                    pro.extend(between);
                    pro.push(alloc);
                } else {
                    pro.push(alloc);
                    pro.extend(between);
                    pro.push(vec![a]);
                }
            } else {
                pro.push(alloc);
            }
            pro.extend(instrs);
            instrs = pro;
        }
        if i == 0 && !prologue && rng.chance(1, 6) {
            // a stack switch: the stack pointer is loaded from another register and then aligned
            feats.insert("sp_switch_mask".into());
            let k = *rng.pick(&[4u64, 4, 5, 3]);
            let mut pro = vec![vec![copy(sp.clone(), other_base(rng, arch))], vec![bin(sp.clone(), "INT_AND", sp.clone(), cst(!((1u64 << k) - 1), ptr))]];
            pro.extend(instrs);
            instrs = pro;
        }
        blocks.push(Block { instrs, term });
    }
    // the callee
    let ncb = 1 + rng.below(2);
    let mut cb = groups(rng, arch, ncb, &mut feats);
    let callee_returns = rng.chance(3, 4);
    if !callee_returns {
        feats.insert("callee_without_return".into());
    }
    cb.push(vec![copy(reg(if ptr == 8 { "RAX" } else { "EAX" }, ptr), cst(rng.below(100), ptr))]);
    let callee = Func { name: "callee".into(), blocks: vec![Block { instrs: cb, term: if callee_returns { Term::Ret } else { Term::Goto(0) } }] };
    let spec = ProjectSpec { funcs: vec![Func { name: "f".into(), blocks }, callee], externs, lkm: false };
    Built { spec, fidx: 0, returns, feats }
}

fn walk_inputs(def: &mut Value, f: &mut dyn FnMut(&mut Value)) {
    for k in ["input0", "input1", "input2"] {
        if !def["term"]["rhs"][k].is_null() {
            f(&mut def["term"]["rhs"][k]);
        }
    }
}

/// `layout` of pcodegen.rs, then: the register table / stack pointer / conventions of the chosen architecture,
/// block addresses for the MAGIC constants, RETURN operands, and - sometimes - a block order in which the entry
/// block is not the first one and a direct jump to a block that does not exist.
fn finish_layout(b: &Built, rng: &mut Rng, arch: &Arch, feats: &mut BTreeSet<String>) -> (Value, String) {
    let (mut raw, _) = pcodegen::layout(&b.spec);
    raw["cpu_architecture"] = json!(arch.cpu);
    raw["stack_pointer_register"] = reg(&arch.sp, arch.ptr);
    raw["register_properties"] = arch.register_properties();
    raw["register_calling_convention"] = arch.cconv.clone();
    raw["datatype_properties"] = arch.datatypes.clone();
    let cc = arch.cconv[0]["calling_convention"].clone();
    for s in raw["program"]["term"]["subs"].as_array_mut().unwrap() {
        s["term"]["calling_convention"] = cc.clone();
    }
    for e in raw["program"]["term"]["extern_symbols"].as_array_mut().unwrap() {
        e["calling_convention"] = cc.clone();
        if arch.ptr != 8 {
            e["arguments"] = json!([]);
        }
    }
    let sub = &mut raw["program"]["term"]["subs"][b.fidx];
    let fn_tid = sub["tid"]["id"].as_str().unwrap().to_string();
    let addrs: Vec<u64> = sub["term"]["blocks"].as_array().unwrap().iter().map(|x| u64::from_str_radix(x["tid"]["address"].as_str().unwrap(), 16).unwrap()).collect();
    for blk in sub["term"]["blocks"].as_array_mut().unwrap() {
        for d in blk["term"]["defs"].as_array_mut().unwrap() {
            walk_inputs(d, &mut |v: &mut Value| {
                if let Some(s) = v["value"].as_str() {
                    if let Ok(x) = u64::from_str_radix(s, 16) {
                        if x >= MAGIC && ((x - MAGIC) as usize) < addrs.len() {
                            v["value"] = json!(format!("{:x}", addrs[(x - MAGIC) as usize]));
                        }
                    }
                }
            });
        }
    }
    for (i, t) in &b.returns {
        sub["term"]["blocks"][*i]["term"]["jmps"][0]["term"]["goto"] = json!({"Indirect": t});
    }
    if arch.ptr != 8 {
        // the callee of mode B returns through the architecture's program counter
        for s in raw["program"]["term"]["subs"].as_array_mut().unwrap() {
            for blk in s["term"]["blocks"].as_array_mut().unwrap() {
                for j in blk["term"]["jmps"].as_array_mut().unwrap() {
                    if j["term"]["mnemonic"] == json!("RETURN") && j["term"]["goto"]["Indirect"]["name"] == json!("RIP") {
                        j["term"]["goto"] = json!({"Indirect": reg(arch.pc, arch.ptr)});
                    }
                }
            }
        }
    }
    let sub = &mut raw["program"]["term"]["subs"][b.fidx];
    let nb = sub["term"]["blocks"].as_array().unwrap().len();
    if rng.chance(1, 12) {
        // a direct jump into nowhere
        let k = rng.below(nb as u64) as usize;
        let j = &mut sub["term"]["blocks"][k]["term"]["jmps"];
        let last = j.as_array().unwrap().len() - 1;
        if j[last]["term"]["mnemonic"] == json!("BRANCH") {
            feats.insert("dangling_branch".into());
            j[last]["term"]["goto"] = json!({"Direct": pcodegen::tid("blk", 0x0fff_f000)});
        }
    }
    if nb > 1 && rng.chance(1, 4) {
        feats.insert("entry_not_first".into());
        let k = 1 + rng.below(nb as u64 - 1) as usize;
        sub["term"]["blocks"].as_array_mut().unwrap().swap(0, k);
    }
    (raw, fn_tid)
}

pub fn generate(seed: u64, idx: u64) -> Generated {
    let mut rng = Rng::new(seed ^ idx.wrapping_mul(0x9E37_79B9_7F4A_7C15) ^ 0x0808);
    let a64 = pblockgen::arch64();
    let a32 = pblockgen::arch32();
    let (built, arch, arch64) = match rng.below(10) {
        0..=4 => (mode_a(&mut rng, &a64), &a64, true),
        5..=7 => (mode_b(&mut rng, &a64), &a64, true),
        _ => (mode_b(&mut rng, &a32), &a32, false),
    };
    let mut feats = built.feats.clone();
    let (raw, fn_tid) = finish_layout(&built, &mut rng, arch, &mut feats);
    Generated { raw, fn_tid, arch64, feats }
}

/// Initial register files: every base register has a value, flags hold 0/1, the stack pointer is aligned to 4096.
fn gen_inits(rng: &mut Rng, arch: &Arch, n: usize) -> Value {
    let mut v = pblockgen::inits(rng, arch, n);
    for file in v.as_array_mut().unwrap() {
        let sp: u64 = if arch.ptr == 8 { 0x7ffd_0000_0000 + 4096 * (1 + rng.below(1 << 16)) } else { 0x7ff0_0000 + 4096 * (1 + rng.below(200)) };
        let bytes: Vec<u8> = (0..arch.ptr).map(|i| (sp >> (8 * i)) as u8).collect();
        file[&arch.sp] = json!(bytes);
    }
    v
}

// ------------------------------------------------------------------------------------------------
// the real pipeline
// ------------------------------------------------------------------------------------------------
/// IR variables are identified by (name, size, is_temp) (`Variable` derives `Eq` over all fields; the lifter uses
/// `$load_temp0` with another size in every block) while spec/IR.tla keys its register file by name: a temporary
/// (name, size) is projected to the name `name:size`.  Physical registers keep their names - a register variable
/// of another size than the base register is a different variable for the analyzer as well, and reads Poison.
fn name_temps(v: &mut Value) {
    match v {
        Value::Object(m) => {
            if m.len() == 3 && m.get("t") == Some(&json!(true)) && m.contains_key("n") && m.contains_key("s") {
                let n = format!("{}:{}", m["n"].as_str().unwrap(), m["s"]);
                m.insert("n".to_string(), json!(n));
                return;
            }
            for x in m.values_mut() {
                name_temps(x);
            }
        }
        Value::Array(a) => a.iter_mut().for_each(name_temps),
        _ => (),
    }
}

fn sub_json(s: &ir::Term<ir::Sub>, ptr: usize) -> Value {
    let mut v = irenc::sub(s);
    if let Some(blocks) = v["blocks"].as_array_mut() {
        for (b, blk) in blocks.iter_mut().zip(s.term.blocks.iter()) {
            // (artificial blocks have no address: the empty vector equals no pointer value)
            let is_hex = !blk.tid.address.is_empty() && blk.tid.address.bytes().all(|c| c.is_ascii_hexdigit());
            b["abv"] = if is_hex { json!(penc::hex_le(&blk.tid.address, ptr)) } else { json!([]) };
        }
    }
    name_temps(&mut v);
    v
}

fn find_sub<'a>(p: &'a ir::Project, tid: &str) -> Option<&'a ir::Term<ir::Sub>> {
    p.program.term.subs.values().find(|s| s.tid.to_string() == tid)
}

/// Runs `pcode::Project::normalize`, `into_ir_project`, `normalize_basic`, `normalize_optimize` (what
/// `utils::ghidra::parse_pcode_project_to_ir_project` and `Project::normalize` do) and returns the function after
/// each stage ([lifted, basic, optimized]) and the panic message of the first stage that panicked.
pub fn pipeline(raw: &Value, fn_tid: &str) -> (Vec<Value>, String) {
    let ptr = raw["stack_pointer_register"]["size"].as_u64().unwrap() as usize;
    let empty = json!({"tid": fn_tid, "addr": "", "name": "", "cconv": "", "blocks": []});
    let mut stages = vec![empty.clone(), empty.clone(), empty.clone()];
    let project: pcode::Project = match serde_json::from_value(raw.clone()) {
        Ok(p) => p,
        Err(e) => return (stages, format!("deserialization of the extractor output failed: {}", e)),
    };
    let base = u64::from_str_radix(raw["program"]["term"]["image_base"].as_str().unwrap(), 16).unwrap();
    let get = |p: &ir::Project| find_sub(p, fn_tid).map(|s| sub_json(s, ptr));
    let lifted = catch(move || {
        let mut project = project;
        let _logs = project.normalize();
        project.into_ir_project(base)
    });
    let lifted = match lifted {
        Ok(p) => p,
        Err(m) => return (stages, format!("panic in normalize/into_ir_project: {}", m)),
    };
    match get(&lifted) {
        Some(s) => stages[0] = s,
        None => return (stages, "the lifted project does not contain the function".to_string()),
    }
    let basic = match catch(std::panic::AssertUnwindSafe(|| {
        let mut p = lifted.clone();
        let _ = p.normalize_basic();
        p
    })) {
        Ok(p) => p,
        Err(m) => return (stages, format!("panic in normalize_basic: {}", m)),
    };
    match get(&basic) {
        Some(s) => stages[1] = s,
        None => return (stages, "the function is missing after normalize_basic".to_string()),
    }
    let opt = match catch(std::panic::AssertUnwindSafe(|| {
        let mut p = basic.clone();
        let _ = p.normalize_optimize();
        p
    })) {
        Ok(p) => p,
        Err(m) => return (stages, format!("panic in normalize_optimize: {}", m)),
    };
    match get(&opt) {
        Some(s) => stages[2] = s,
        None => return (stages, "the function is missing after normalize_optimize".to_string()),
    }
    (stages, String::new())
}

// ------------------------------------------------------------------------------------------------
// projection
// ------------------------------------------------------------------------------------------------
/// the P-Code function in the encoding of spec/PcodeFn.tla (penc.rs terms + addresses as bit vectors)
fn pfn_json(sub: &Value, ptr: usize) -> Value {
    let blocks: Vec<Value> = sub["term"]["blocks"]
        .as_array()
        .unwrap()
        .iter()
        .map(|b| {
            let mut e = penc::blk(b);
            e["abv"] = json!(penc::hex_le(b["tid"]["address"].as_str().unwrap(), ptr));
            for j in e["jmps"].as_array_mut().unwrap() {
                let hs: Vec<Value> = j["hints"].as_array().unwrap().iter().map(|h| json!(penc::hex_le(h.as_str().unwrap(), ptr))).collect();
                j["hints"] = Value::Array(hs);
            }
            e
        })
        .collect();
    json!({"tid": sub["tid"]["id"], "abv": penc::hex_le(sub["tid"]["address"].as_str().unwrap(), ptr), "blocks": blocks})
}

/// callees that never return: extern symbols flagged `no_return`, functions without a RETURN operation
fn noret(raw: &Value) -> Vec<Value> {
    let mut v = Vec::new();
    for e in raw["program"]["term"]["extern_symbols"].as_array().unwrap() {
        if e["no_return"] == json!(true) {
            v.push(e["tid"]["id"].clone());
        }
    }
    for s in raw["program"]["term"]["subs"].as_array().unwrap() {
        let returns = s["term"]["blocks"].as_array().unwrap().iter().any(|b| b["term"]["jmps"].as_array().unwrap().iter().any(|j| j["term"]["mnemonic"] == json!("RETURN")));
        if !returns {
            v.push(s["tid"]["id"].clone());
        }
    }
    v
}

/// syntactic tag: the function reads or writes a register that is not a whole base register, or has a RAM operand
fn has_subreg_or_ram(sub: &Value, table: &Value) -> bool {
    let is_part = |v: &Value| -> bool {
        if v.is_null() {
            return false;
        }
        if v["address"].is_string() {
            return true;
        }
        match v["name"].as_str() {
            Some(n) if v["is_virtual"] == json!(false) => table.as_array().unwrap().iter().any(|r| r["register"] == json!(n) && (r["base_register"] != r["register"] || r["size"] != v["size"])),
            _ => false,
        }
    };
    sub["term"]["blocks"].as_array().unwrap().iter().any(|b| {
        b["term"]["defs"].as_array().unwrap().iter().any(|d| is_part(&d["term"]["lhs"]) || ["input0", "input1", "input2"].iter().any(|k| is_part(&d["term"]["rhs"][*k])))
    })
}

/// The case record of FrontEndMonitor.tla for the given input (raw extractor JSON + run parameters).
pub fn exec(input: &Value) -> Value {
    // `raw` travels as JSON text (it contains nulls, which the TLA+ side must not see)
    let raw_value: Value = match &input["raw"] {
        Value::String(s) => serde_json::from_str(s).expect("raw P-Code project"),
        v => v.clone(),
    };
    let raw = &raw_value;
    let fn_tid = input["fn_tid"].as_str().unwrap();
    let (stages, panic) = pipeline(raw, fn_tid);
    let table = &raw["register_properties"];
    let spn = raw["stack_pointer_register"]["name"].as_str().unwrap();
    let sps = raw["stack_pointer_register"]["size"].as_u64().unwrap();
    let sub = raw["program"]["term"]["subs"].as_array().unwrap().iter().find(|s| s["tid"]["id"] == json!(fn_tid)).expect("function under test");
    let count = |f: &Value| f["blocks"].as_array().map_or(0, |b| b.iter().map(|x| x["defs"].as_array().map_or(0, |d| d.len())).sum::<usize>());
    let mut ev = json!({
        "ev": "case", "idx": input["idx"], "arch": raw["cpu_architecture"], "feat": input["feat"], "fn_tid": fn_tid,
        "regtable": penc::regtable(table), "ptr": sps, "le": input["le"], "seed": input["seed"],
        "sp": {"n": spn, "s": sps, "t": false}, "physregs": penc::base_registers(table), "noret": noret(raw),
        "pfn": pfn_json(sub, sps as usize), "irfn": stages[2], "panic": panic,
        "n_pcode_ops": sub["term"]["blocks"].as_array().unwrap().iter().map(|b| b["term"]["defs"].as_array().unwrap().len()).sum::<usize>(),
        "n_ir_defs": [count(&stages[0]), count(&stages[1]), count(&stages[2])],
        "optimizer_changed": stages[1] != stages[2],
        // syntactic tag of the planted shape `SP = COPY R ; SP = SP & mask` in the entry block (keys a known finding)
        "f_sp_switch_mask": input["feat"].as_array().map_or(false, |a| a.iter().any(|x| x == "sp_switch_mask")),
        "inits": input["inits"], "raw": serde_json::to_string(raw).unwrap(),
    });
    if input["stages"] == json!(true) {
        ev["ir_lifted"] = stages[0].clone();
        ev["ir_basic"] = stages[1].clone();
    }
    ev
}

/// Replay: re-run the real pipeline on the recorded extractor JSON (with the intermediate stages, so that the
/// driver can let TLC name the first stage that diverges).
pub fn replay(run: &[Value], _sub: &str) -> Vec<Value> {
    run.iter()
        .filter(|e| e["ev"] == "case")
        .map(|e| {
            let mut i = e.clone();
            i["stages"] = json!(true);
            exec(&i)
        })
        .collect()
}

fn one_input(seed: u64, idx: u64, ninits: usize) -> (Value, bool) {
    let g = generate(seed, idx);
    let mut rng = Rng::new(seed.wrapping_mul(0x517C_C1B7_2722_0A95).wrapping_add(idx) ^ 0x1808);
    let arch = if g.arch64 { pblockgen::arch64() } else { pblockgen::arch32() };
    let inits = gen_inits(&mut rng, &arch, ninits);
    let sub = g.raw["program"]["term"]["subs"].as_array().unwrap().iter().find(|s| s["tid"]["id"] == json!(g.fn_tid)).unwrap();
    let nontrivial = has_subreg_or_ram(sub, &g.raw["register_properties"]);
    let feat: Vec<&String> = g.feats.iter().collect();
    (json!({"idx": idx, "raw": g.raw, "fn_tid": g.fn_tid, "feat": feat, "le": rng.chance(3, 4), "seed": rng.below(65521), "inits": inits}), nontrivial)
}

pub fn gen(out: &mut Out, _sub: &str) {
    let n = out.size(84, 4000);
    let ninit = 3usize;
    let mut counts = std::collections::BTreeMap::new();
    let mut panics = 0u64;
    let mut changed = 0u64;
    let (mut ops, mut defs) = (0u64, 0u64);
    for idx in 0..n {
        let (input, nontrivial) = match catch(|| one_input(out.seed, idx, ninit)) {
            Ok(x) => x,
            Err(m) => {
                eprintln!("generator panic at function {}: {}", idx, m);
                std::process::exit(2)
            }
        };
        for f in input["feat"].as_array().unwrap() {
            *counts.entry(f.as_str().unwrap().to_string()).or_insert(0u64) += 1;
        }
        let ev = exec(&input);
        if ev["panic"] != json!("") {
            panics += 1;
        }
        if ev["optimizer_changed"] == json!(true) {
            changed += 1;
        }
        ops += ev["n_pcode_ops"].as_u64().unwrap_or(0);
        defs += ev["n_ir_defs"][2].as_u64().unwrap_or(0);
        out.emit(vec![ev], nontrivial);
    }
    out.extra.insert("feature_counts".to_string(), json!(counts));
    out.extra.insert("pipeline_panics".to_string(), json!(panics));
    out.extra.insert("functions_changed_by_optimizer".to_string(), json!(changed));
    out.extra.insert("pcode_ops".to_string(), json!(ops));
    out.extra.insert("optimized_ir_defs".to_string(), json!(defs));
    out.extra.insert("inits_per_case".to_string(), json!(ninit));
}
