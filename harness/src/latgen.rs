//! Finite join-semilattices (as join tables over 1..K) and seeded generators of MONOTONE
//! table-driven functions over them, for checks that quantify over "every monotone user analysis".
//! One-value tables `t[x-1]` in 0..=K (0 = None = no information, below every element) and two-value
//! tables `t[a][b]` over (0..=K) x (0..=K).  Generators only generate; whether a table really is
//! monotone is checked by TLC (e.g. InterprocFix!AnalysisInClass).
//! (Same lattice zoo as props/c07.rs, which keeps its own private copy.)
#![allow(dead_code)]
use crate::rng::Rng;

/// join table from an order `leq(a, b)` on 0..k
fn from_leq(k: usize, leq: &dyn Fn(usize, usize) -> bool) -> Vec<Vec<u8>> {
    let mut t = vec![vec![0u8; k]; k];
    for a in 0..k {
        for b in 0..k {
            let ubs: Vec<usize> = (0..k).filter(|u| leq(a, *u) && leq(b, *u)).collect();
            let lub = ubs.iter().find(|u| ubs.iter().all(|w| leq(**u, *w))).expect("not a join-semilattice");
            t[a][b] = *lub as u8 + 1;
        }
    }
    t
}

/// pow2, pow3 (subsets of 2 / 3 elements), chain4, the diamond M3, the pentagon N5, and `vee`
/// (two incomparable elements below a top: a join-semilattice without bottom)
pub fn lattices() -> Vec<(&'static str, Vec<Vec<u8>>)> {
    let m3 = |a: usize, b: usize| a == b || a == 0 || b == 4;
    let n5 = |a: usize, b: usize| a == b || a == 0 || b == 4 || (a == 1 && b == 2);
    let vee = |a: usize, b: usize| a == b || b == 2;
    vec![
        ("pow2", from_leq(4, &|a, b| a & b == a)),
        ("pow3", from_leq(8, &|a, b| a & b == a)),
        ("chain4", from_leq(4, &|a, b| a <= b)),
        ("m3", from_leq(5, &m3)),
        ("n5", from_leq(5, &n5)),
        ("vee", from_leq(3, &vee)),
    ]
}

pub fn leq(join: &[Vec<u8>], a: u8, b: u8) -> bool {
    join[a as usize - 1][b as usize - 1] == b
}
/// the order extended by 0 = None as least element
pub fn leq0(join: &[Vec<u8>], a: u8, b: u8) -> bool {
    a == 0 || (b != 0 && leq(join, a, b))
}
pub fn join0(join: &[Vec<u8>], a: u8, b: u8) -> u8 {
    if a == 0 {
        b
    } else if b == 0 {
        a
    } else {
        join[a as usize - 1][b as usize - 1]
    }
}

/// random values, biased towards small images so that fixpoints are not always the top element
fn raw_values(rng: &mut Rng, n: usize, elems: &[u8]) -> Vec<u8> {
    let raw: Vec<u8> = (0..n).map(|_| *rng.pick(elems)).collect();
    if rng.chance(1, 2) {
        let lo = *rng.pick(elems);
        raw.iter().map(|r| if rng.chance(1, 2) { lo } else { *r }).collect()
    } else {
        raw
    }
}

/// A random one-value table, monotone in the extended order: enabled on an up-closed set
/// (everything / nothing / above one or two generators); on it the join of a random map over the
/// enabled elements below the argument.
pub fn table1(rng: &mut Rng, join: &[Vec<u8>]) -> Vec<u8> {
    table1_with(rng, join, 40)
}
/// `pct_guard`: probability (per cent) that the table is None below one or two generators
pub fn table1_with(rng: &mut Rng, join: &[Vec<u8>], pct_guard: u64) -> Vec<u8> {
    let k = join.len();
    let elems: Vec<u8> = (1..=k as u8).collect();
    match rng.below(12) {
        0 | 1 => return elems.clone(),           // identity
        2 => return vec![0; k],                  // blocked
        3 => return vec![*rng.pick(&elems); k],  // constant
        _ => {}
    }
    let gens: Vec<u8> = if !rng.chance(pct_guard, 100) {
        vec![]
    } else if rng.chance(3, 4) {
        vec![*rng.pick(&elems)]
    } else {
        vec![*rng.pick(&elems), *rng.pick(&elems)]
    };
    let enabled = |x: u8| gens.is_empty() || gens.iter().any(|g| leq(join, *g, x));
    let raw = raw_values(rng, k, &elems);
    elems
        .iter()
        .map(|x| {
            if !enabled(*x) {
                return 0;
            }
            let mut acc = 0u8;
            for y in &elems {
                if enabled(*y) && leq(join, *y, *x) {
                    acc = join0(join, acc, raw[*y as usize - 1]);
                }
            }
            acc
        })
        .collect()
}

/// A random two-value table `t[a][b]`, a, b in 0..=K (0 = the value does not exist), monotone in
/// the product of the extended orders.  `a` plays the interprocedural-flow value, `b` the call-stub
/// value of a CallFlowCombinator.  Shapes: both values required / one of them required / whatever
/// exists / above a generator pair / everywhere / nowhere; the result is a projection or join run
/// through a random monotone one-value table, or the join of a random map below the argument.
pub fn table2(rng: &mut Rng, join: &[Vec<u8>]) -> Vec<Vec<u8>> {
    let k = join.len();
    let n = k + 1;
    let elems: Vec<u8> = (1..=k as u8).collect();
    let all0: Vec<u8> = (0..=k as u8).collect();
    let style = rng.below(20);
    let gen = (*rng.pick(&all0), *rng.pick(&all0));
    let enabled = |a: u8, b: u8| -> bool {
        match style {
            0..=7 => a != 0 && b != 0,
            8..=9 => a != 0,
            10 => b != 0,
            11..=13 => a != 0 || b != 0,
            14..=15 => true,
            16 => false,
            _ => leq0(join, gen.0, a) && leq0(join, gen.1, b),
        }
    };
    let mut t = vec![vec![0u8; n]; n];
    if rng.chance(2, 5) {
        // structured: g(projection / join of what exists)
        let mut g = table1(rng, join);
        if g.iter().all(|x| *x == 0) {
            g = elems.clone();
        }
        let pick = rng.below(3);
        for a in 0..n as u8 {
            for b in 0..n as u8 {
                if !enabled(a, b) {
                    continue;
                }
                // the inner value must be monotone in (a, b) on the enabled set: joins are; a bare projection
                // is only when the projected value exists on the whole enabled set
                let inner = match pick {
                    0 if (0..=7).contains(&style) || (8..=9).contains(&style) => a,
                    1 if (0..=7).contains(&style) || style == 10 => b,
                    _ => join0(join, a, b),
                };
                t[a as usize][b as usize] = if inner == 0 { 0 } else { g[inner as usize - 1] };
            }
        }
        // g may block small inner values: still monotone (None is least)
        return t;
    }
    let raw = raw_values(rng, n * n, &elems);
    for a in 0..n as u8 {
        for b in 0..n as u8 {
            if !enabled(a, b) {
                continue;
            }
            let mut acc = 0u8;
            for c in 0..n as u8 {
                for d in 0..n as u8 {
                    if enabled(c, d) && leq0(join, c, a) && leq0(join, d, b) {
                        acc = join0(join, acc, raw[c as usize * n + d as usize]);
                    }
                }
            }
            t[a as usize][b as usize] = acc;
        }
    }
    t
}
