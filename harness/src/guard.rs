//! Guarded execution of the code under test in CHILD PROCESSES, for operations that may not return.
//!
//! `catch_unwind` turns a panic into data, but a call that loops forever cannot be abandoned inside
//! the process (threads cannot be killed).  A property module that needs this offers a sub-command
//! `<Cxx>:worker` whose `gen` is `guard::serve(exec)`: it reads one JSON input per line from stdin,
//! calls `exec` (the real code) and answers with one JSON line.  The parent talks to such workers
//! through `Worker::call` / `run_all`.  A call is abandoned (child killed, fresh child spawned) when
//! the child has burnt more than `cpu_ms` of CPU TIME on it -- CPU time (/proc/<pid>/stat), not wall
//! time, so a loaded machine cannot produce a spurious timeout; the result is then
//! `Err("TIMEOUT: ...")`, which the property module records as data (like a panic message).
//! Nothing here decides a property.
use serde_json::Value;
use std::io::{BufRead, BufReader, Write};
use std::process::{Child, ChildStdin, Command, Stdio};
use std::sync::mpsc::{channel, Receiver, RecvTimeoutError};
use std::time::{Duration, Instant};

/// Worker side: answer requests until stdin closes.
pub fn serve<F: Fn(&Value) -> Value>(exec: F) {
    let stdin = std::io::stdin();
    let stdout = std::io::stdout();
    {
        // handshake: process start-up (loading a large binary) must not be charged to the first call
        let mut o = stdout.lock();
        o.write_all(b"{\"ready\":true}\n").unwrap();
        o.flush().unwrap();
    }
    for line in stdin.lock().lines() {
        let line = match line {
            Ok(l) => l,
            Err(_) => break,
        };
        if line.trim().is_empty() {
            continue;
        }
        let inp: Value = serde_json::from_str(&line).expect("worker: bad request");
        let res = exec(&inp);
        let mut o = stdout.lock();
        o.write_all(serde_json::to_string(&res).unwrap().as_bytes()).unwrap();
        o.write_all(b"\n").unwrap();
        o.flush().unwrap();
    }
}

pub struct Worker {
    prop_sub: String,
    child: Child,
    stdin: ChildStdin,
    rx: Receiver<String>,
    dir: String,
    pub respawns: u64,
}

fn scratch_dir() -> String {
    static N: std::sync::atomic::AtomicU64 = std::sync::atomic::AtomicU64::new(0);
    let n = N.fetch_add(1, std::sync::atomic::Ordering::SeqCst);
    let d = std::env::temp_dir().join(format!("cwe_conf_worker_{}_{}", std::process::id(), n));
    d.to_string_lossy().to_string()
}

fn spawn(prop_sub: &str, dir: &str) -> (Child, ChildStdin, Receiver<String>) {
    let exe = std::env::current_exe().expect("current_exe");
    let mut child = Command::new(exe)
        .args(["gen", prop_sub, "--out", dir, "--shards", "1"])
        .stdin(Stdio::piped())
        .stdout(Stdio::piped())
        .stderr(Stdio::null())
        .spawn()
        .expect("spawn worker");
    let stdin = child.stdin.take().unwrap();
    let stdout = child.stdout.take().unwrap();
    let (tx, rx) = channel();
    std::thread::spawn(move || {
        for line in BufReader::new(stdout).lines() {
            match line {
                Ok(l) => {
                    if tx.send(l).is_err() {
                        break;
                    }
                }
                Err(_) => break,
            }
        }
    });
    // wait for the worker's handshake line
    match rx.recv_timeout(Duration::from_secs(300)) {
        Ok(l) if l.contains("ready") => {}
        other => {
            eprintln!("guard: worker for {} did not start: {:?}", prop_sub, other);
            std::process::exit(2);
        }
    }
    (child, stdin, rx)
}

/// CPU time (user + system) of a process in milliseconds (USER_HZ = 100 on Linux).
fn cpu_ms(pid: u32) -> Option<u64> {
    let s = std::fs::read_to_string(format!("/proc/{}/stat", pid)).ok()?;
    let rest = &s[s.rfind(')')? + 2..];
    let f: Vec<&str> = rest.split_whitespace().collect();
    // rest starts at field 3 (state): utime = field 14, stime = field 15
    let ut: u64 = f.get(11)?.parse().ok()?;
    let st: u64 = f.get(12)?.parse().ok()?;
    Some((ut + st) * 10)
}

impl Worker {
    pub fn new(prop_sub: &str) -> Worker {
        let dir = scratch_dir();
        let (child, stdin, rx) = spawn(prop_sub, &dir);
        Worker { prop_sub: prop_sub.to_string(), child, stdin, rx, dir, respawns: 0 }
    }

    fn restart(&mut self) {
        let _ = self.child.kill();
        let _ = self.child.wait();
        let (child, stdin, rx) = spawn(&self.prop_sub, &self.dir);
        self.child = child;
        self.stdin = stdin;
        self.rx = rx;
        self.respawns += 1;
    }

    /// One guarded call.  Err(message) when the child did not answer within `limit_ms` of its CPU time
    /// (or died); the child is then replaced by a fresh one.
    pub fn call(&mut self, input: &Value, limit_ms: u64) -> Result<Value, String> {
        let line = serde_json::to_string(input).unwrap();
        let pid = self.child.id();
        let cpu0 = cpu_ms(pid).unwrap_or(0);
        let t0 = Instant::now();
        if self.stdin.write_all(line.as_bytes()).is_err()
            || self.stdin.write_all(b"\n").is_err()
            || self.stdin.flush().is_err()
        {
            self.restart();
            return Err("WORKER-DIED: could not send the request".to_string());
        }
        loop {
            match self.rx.recv_timeout(Duration::from_millis(10)) {
                Ok(l) => return Ok(serde_json::from_str(&l).expect("worker: bad answer")),
                Err(RecvTimeoutError::Disconnected) => {
                    self.restart();
                    return Err("WORKER-DIED: the process running the call terminated abnormally (abort / stack overflow)".to_string());
                }
                Err(RecvTimeoutError::Timeout) => {
                    let used = cpu_ms(pid).unwrap_or(cpu0).saturating_sub(cpu0);
                    if used >= limit_ms {
                        self.restart();
                        return Err(format!("TIMEOUT: no result after {} ms of CPU time, call abandoned", limit_ms));
                    }
                    if t0.elapsed() > Duration::from_secs(600) {
                        // not a verdict about the code under test: the harness itself is stuck
                        eprintln!("guard: worker made no progress for 600 s wall (cpu {} ms)", used);
                        std::process::exit(2);
                    }
                }
            }
        }
    }
}

impl Drop for Worker {
    fn drop(&mut self) {
        let _ = self.child.kill();
        let _ = self.child.wait();
        let _ = std::fs::remove_dir_all(&self.dir);
    }
}

/// Execute all inputs with `workers` child processes (input i goes to worker i mod workers); results in
/// input order.  Returns also the number of abandoned calls.
pub fn run_all(prop_sub: &str, inputs: &[Value], workers: usize, limit_ms: u64) -> (Vec<Result<Value, String>>, u64) {
    let workers = workers.max(1).min(inputs.len().max(1));
    let mut handles = Vec::new();
    for k in 0..workers {
        let mine: Vec<(usize, Value)> = inputs.iter().cloned().enumerate().filter(|(i, _)| i % workers == k).collect();
        let ps = prop_sub.to_string();
        handles.push(std::thread::spawn(move || {
            let mut w = Worker::new(&ps);
            let out: Vec<(usize, Result<Value, String>)> = mine.into_iter().map(|(i, v)| (i, w.call(&v, limit_ms))).collect();
            (out, w.respawns)
        }));
    }
    let mut res: Vec<Option<Result<Value, String>>> = inputs.iter().map(|_| None).collect();
    let mut abandoned = 0;
    for h in handles {
        let (out, r) = h.join().expect("guard thread");
        abandoned += r;
        for (i, v) in out {
            res[i] = Some(v);
        }
    }
    (res.into_iter().map(|x| x.unwrap()).collect(), abandoned)
}
