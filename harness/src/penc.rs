//! Projection of the P-Code extractor's JSON (the INPUT of the lifter) to the TLA-friendly encoding
//! that spec/Pcode.tla interprets.  Mechanical: every field has exactly one JSON type, absent
//! operands are `{"k":"none"}`, constants and addresses become little-endian byte arrays.
//! The projection reads the very JSON value that is handed to the real code.
#![allow(dead_code)]
use serde_json::{json, Value};

/// little-endian bytes of a hexadecimal string, truncated / zero-extended to `size` bytes
pub fn hex_le(hex: &str, size: usize) -> Vec<u8> {
    let digits: Vec<u8> = hex
        .trim_start_matches("0x")
        .bytes()
        .filter(|c| *c != b'_')
        .map(|c| (c as char).to_digit(16).expect("hex digit") as u8)
        .collect();
    let mut out = vec![0u8; size];
    for (i, d) in digits.iter().rev().enumerate() {
        let byte = i / 2;
        if byte >= size {
            break;
        }
        out[byte] |= if i % 2 == 0 { *d } else { *d << 4 };
    }
    out
}

fn none() -> Value {
    json!({"k": "none", "n": "", "s": 0, "c": [], "a": []})
}

/// a varnode of the extractor (`pcode::Variable`) or null
pub fn varnode(v: &Value) -> Value {
    if v.is_null() {
        return none();
    }
    let size = v["size"].as_u64().unwrap();
    if let Some(n) = v["name"].as_str() {
        let k = if v["is_virtual"].as_bool().unwrap_or(false) { "uniq" } else { "reg" };
        json!({"k": k, "n": n, "s": size, "c": [], "a": []})
    } else if let Some(c) = v["value"].as_str() {
        json!({"k": "const", "n": "", "s": size, "c": hex_le(c, size as usize), "a": []})
    } else if let Some(a) = v["address"].as_str() {
        json!({"k": "ram", "n": "", "s": size, "c": [], "a": hex_le(a, 8)})
    } else {
        none()
    }
}

fn tid_of(t: &Value) -> Value {
    json!(t["id"].as_str().unwrap_or(""))
}

/// `Term<pcode::Def>`
pub fn op(d: &Value) -> Value {
    let t = &d["term"];
    json!({"tid": tid_of(&d["tid"]), "m": t["rhs"]["mnemonic"], "out": varnode(&t["lhs"]),
           "in0": varnode(&t["rhs"]["input0"]), "in1": varnode(&t["rhs"]["input1"]), "in2": varnode(&t["rhs"]["input2"])})
}

/// a `pcode::Label`: (direct tid, indirect varnode)
fn label(l: &Value) -> (Value, Value) {
    if l.is_null() {
        (json!(""), none())
    } else if !l["Direct"].is_null() {
        (tid_of(&l["Direct"]), none())
    } else {
        (json!(""), varnode(&l["Indirect"]))
    }
}

/// `Term<pcode::Jmp>`
pub fn jmp(j: &Value) -> Value {
    let t = &j["term"];
    let (mut direct, mut indirect) = label(&t["goto"]);
    let mut ret = json!("");
    if !t["call"].is_null() {
        let (d, i) = label(&t["call"]["target"]);
        direct = d;
        indirect = i;
        ret = label(&t["call"]["return"]).0;
    }
    let hints: Vec<Value> = t["target_hints"].as_array().cloned().unwrap_or_default();
    json!({"tid": tid_of(&j["tid"]), "m": t["mnemonic"], "t": direct, "v": indirect, "ret": ret,
           "c": varnode(&t["condition"]), "hints": hints})
}

/// `Term<pcode::Blk>`
pub fn blk(b: &Value) -> Value {
    json!({"tid": tid_of(&b["tid"]),
           "defs": b["term"]["defs"].as_array().unwrap().iter().map(op).collect::<Vec<_>>(),
           "jmps": b["term"]["jmps"].as_array().unwrap().iter().map(jmp).collect::<Vec<_>>()})
}

/// `register_properties` of the project
pub fn regtable(t: &Value) -> Value {
    Value::Array(
        t.as_array()
            .unwrap()
            .iter()
            .map(|r| json!({"reg": r["register"], "base": r["base_register"], "lsb": r["lsb"], "size": r["size"]}))
            .collect(),
    )
}

/// the base registers of the table as IR var records (name, size, not temporary), in table order
pub fn base_registers(t: &Value) -> Vec<Value> {
    t.as_array()
        .unwrap()
        .iter()
        .filter(|r| r["register"] == r["base_register"])
        .map(|r| json!({"n": r["register"], "s": r["size"], "t": false}))
        .collect()
}
