//! Projection of IR terms (public API values) to the TLA-friendly JSON encoding of DESIGN.md
//! appendix A.  Mechanical; every field has exactly one JSON type (absent TIDs / names are "").
#![allow(dead_code)]
use crate::enc::{bv, name};
use cwe_checker_lib::intermediate_representation::*;
use serde_json::{json, Value};

pub fn tid(t: &Tid) -> Value {
    json!(t.to_string())
}
pub fn opt_tid(t: &Option<Tid>) -> Value {
    match t {
        Some(t) => tid(t),
        None => json!(""),
    }
}
pub fn mk_tid(id: &str, address: &str) -> Tid {
    let mut t = Tid::new(id);
    t.address = address.to_string();
    t
}
pub fn var(v: &Variable) -> Value {
    json!({"n": v.name, "s": u64::from(v.size), "t": v.is_temp})
}
pub fn expr(e: &Expression) -> Value {
    match e {
        Expression::Var(v) => json!({"k": "var", "v": var(v)}),
        Expression::Const(c) => json!({"k": "const", "c": bv(c)}),
        Expression::BinOp { op, lhs, rhs } => json!({"k": "bin", "op": name(op), "l": expr(lhs), "r": expr(rhs)}),
        Expression::UnOp { op, arg } => json!({"k": "un", "op": name(op), "a": expr(arg)}),
        Expression::Cast { op, size, arg } => json!({"k": "cast", "op": name(op), "s": u64::from(*size), "a": expr(arg)}),
        Expression::Unknown { size, .. } => json!({"k": "unknown", "s": u64::from(*size)}),
        Expression::Subpiece { low_byte, size, arg } => {
            json!({"k": "sub", "low": u64::from(*low_byte), "s": u64::from(*size), "a": expr(arg)})
        }
    }
}
pub fn def(d: &Term<Def>) -> Value {
    match &d.term {
        Def::Assign { var: v, value } => json!({"tid": tid(&d.tid), "k": "assign", "v": var(v), "e": expr(value)}),
        Def::Load { var: v, address } => json!({"tid": tid(&d.tid), "k": "load", "v": var(v), "a": expr(address)}),
        Def::Store { address, value } => json!({"tid": tid(&d.tid), "k": "store", "a": expr(address), "e": expr(value)}),
    }
}
pub fn jmp(j: &Term<Jmp>) -> Value {
    let t = tid(&j.tid);
    let addr = json!(j.tid.address);
    match &j.term {
        Jmp::Branch(target) => json!({"tid": t, "addr": addr, "k": "branch", "t": tid(target)}),
        Jmp::BranchInd(e) => json!({"tid": t, "addr": addr, "k": "branchind", "e": expr(e)}),
        Jmp::CBranch { target, condition } => json!({"tid": t, "addr": addr, "k": "cbranch", "t": tid(target), "c": expr(condition)}),
        Jmp::Call { target, return_ } => json!({"tid": t, "addr": addr, "k": "call", "t": tid(target), "ret": opt_tid(return_)}),
        Jmp::CallInd { target, return_ } => json!({"tid": t, "addr": addr, "k": "callind", "e": expr(target), "ret": opt_tid(return_)}),
        Jmp::Return(e) => json!({"tid": t, "addr": addr, "k": "return", "e": expr(e)}),
        Jmp::CallOther { return_, .. } => json!({"tid": t, "addr": addr, "k": "callother", "ret": opt_tid(return_)}),
    }
}
pub fn blk(b: &Term<Blk>) -> Value {
    json!({"tid": tid(&b.tid), "addr": b.tid.address,
           "defs": b.term.defs.iter().map(def).collect::<Vec<_>>(),
           "jmps": b.term.jmps.iter().map(jmp).collect::<Vec<_>>(),
           "ind": b.term.indirect_jmp_targets.iter().map(tid).collect::<Vec<_>>()})
}
pub fn sub(s: &Term<Sub>) -> Value {
    json!({"tid": tid(&s.tid), "addr": s.tid.address, "name": s.term.name,
           "cconv": s.term.calling_convention.clone().unwrap_or_default(),
           "blocks": s.term.blocks.iter().map(blk).collect::<Vec<_>>()})
}
pub fn arg(a: &Arg) -> Value {
    match a {
        Arg::Register { expr: e, .. } => json!({"k": "reg", "e": expr(e)}),
        Arg::Stack { address, size, .. } => json!({"k": "stack", "a": expr(address), "s": u64::from(*size)}),
    }
}
pub fn ext(e: &ExternSymbol) -> Value {
    json!({"tid": tid(&e.tid), "name": e.name, "cconv": e.calling_convention.clone().unwrap_or_default(),
           "params": e.parameters.iter().map(arg).collect::<Vec<_>>(),
           "rets": e.return_values.iter().map(arg).collect::<Vec<_>>(),
           "noret": e.no_return, "varargs": e.has_var_args})
}
/// subs and externs in BTreeMap (TID) order, as the code iterates them
pub fn program(p: &Program) -> Value {
    json!({"subs": p.subs.values().map(sub).collect::<Vec<_>>(),
           "externs": p.extern_symbols.values().map(ext).collect::<Vec<_>>(),
           "entry_points": p.entry_points.iter().map(tid).collect::<Vec<_>>()})
}
pub fn cconv(c: &CallingConvention) -> Value {
    json!({"name": c.name,
           "params": c.integer_parameter_register.iter().map(var).collect::<Vec<_>>(),
           "fparams": c.float_parameter_register.iter().map(expr).collect::<Vec<_>>(),
           "rets": c.integer_return_register.iter().map(var).collect::<Vec<_>>(),
           "frets": c.float_return_register.iter().map(expr).collect::<Vec<_>>(),
           "saved": c.callee_saved_register.iter().map(var).collect::<Vec<_>>()})
}
pub fn project(p: &Project) -> Value {
    json!({"program": program(&p.program.term), "sp": var(&p.stack_pointer_register),
           "regs": p.register_set.iter().map(var).collect::<Vec<_>>(), "arch": p.cpu_architecture,
           "cconvs": p.calling_conventions.values().map(cconv).collect::<Vec<_>>()})
}
