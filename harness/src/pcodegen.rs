//! Seeded generator of P-Code projects "as the Ghidra extractor emits them" (x86-64-like register
//! table with nested sub-registers, extern symbols with calling conventions and declared
//! arguments, functions with loops, calls, stack / heap / global accesses) together with a matching
//! ELF image (see elfgen.rs).  Used by the CLI properties C21-C23 (whole projects) and available to
//! the lifting properties.  Only generates inputs; decides nothing.
#![allow(dead_code)]
use crate::rng::Rng;
use serde_json::{json, Value};

pub const IMAGE_BASE: u64 = 0x400000;
pub const TEXT_BASE: u64 = 0x401000;
pub const RODATA_BASE: u64 = 0x410000;
pub const DATA_BASE: u64 = 0x420000;

pub fn hex(a: u64) -> String {
    format!("{:08x}", a)
}
pub fn tid(prefix: &str, addr: u64) -> Value {
    json!({"id": format!("{}_{}", prefix, hex(addr)), "address": hex(addr)})
}
pub fn tid_n(prefix: &str, addr: u64, n: usize) -> Value {
    json!({"id": format!("{}_{}_{}", prefix, hex(addr), n), "address": hex(addr)})
}
pub fn reg(name: &str, size: u64) -> Value {
    json!({"name": name, "value": null, "address": null, "size": size, "is_virtual": false})
}
pub fn tmp(name: &str, size: u64) -> Value {
    json!({"name": name, "value": null, "address": null, "size": size, "is_virtual": true})
}
pub fn cst(v: u64, size: u64) -> Value {
    let masked = if size >= 8 { v } else { v & ((1u64 << (8 * size)) - 1) };
    json!({"name": null, "value": format!("{:x}", masked), "address": null, "size": size, "is_virtual": false})
}
pub fn ram(addr: u64, size: u64) -> Value {
    json!({"name": null, "value": null, "address": hex(addr), "size": size, "is_virtual": false})
}

/// One P-Code operation (before layout).
#[derive(Clone)]
pub struct Op {
    pub lhs: Value,
    pub mnemonic: &'static str,
    pub inputs: [Value; 3],
}
pub fn op(lhs: Value, mnemonic: &'static str, i0: Value, i1: Value, i2: Value) -> Op {
    Op { lhs, mnemonic, inputs: [i0, i1, i2] }
}
pub fn copy(dst: Value, src: Value) -> Op {
    op(dst, "COPY", src, Value::Null, Value::Null)
}
pub fn bin(dst: Value, m: &'static str, a: Value, b: Value) -> Op {
    op(dst, m, a, b, Value::Null)
}
pub fn un(dst: Value, m: &'static str, a: Value) -> Op {
    op(dst, m, a, Value::Null, Value::Null)
}
pub fn load(dst: Value, addr: Value) -> Op {
    op(dst, "LOAD", cst(0x1b1, 8), addr, Value::Null)
}
pub fn store(addr: Value, val: Value) -> Op {
    op(Value::Null, "STORE", cst(0x1b1, 8), addr, val)
}

/// Block terminator with symbolic targets (block indices of the same function / function indices).
#[derive(Clone)]
pub enum Term {
    Goto(usize),
    Cond { flag: Value, target: usize, fall: usize },
    IndJmp { target: Value, hints: Vec<usize> },
    CallExt { sym: usize, ret: Option<usize> },
    CallFn { func: usize, ret: Option<usize> },
    CallInd { target: Value, ret: Option<usize> },
    CallOther { ret: usize },
    Ret,
}

/// An instruction = one address, several P-Code ops.
#[derive(Clone)]
pub struct Block {
    pub instrs: Vec<Vec<Op>>,
    pub term: Term,
}

pub struct Func {
    pub name: String,
    pub blocks: Vec<Block>,
}

pub struct ExtSym {
    pub name: &'static str,
    pub params: Vec<&'static str>,
    pub ret: Option<&'static str>,
    pub no_return: bool,
    pub var_args: bool,
}

pub const INT_PARAMS: [&str; 6] = ["RDI", "RSI", "RDX", "RCX", "R8", "R9"];
pub const BASE_REGS: [&str; 16] = [
    "RAX", "RBX", "RCX", "RDX", "RSI", "RDI", "RBP", "RSP", "R8", "R9", "R10", "R11", "R12", "R13", "R14", "R15",
];
pub const FLAGS: [&str; 4] = ["ZF", "CF", "SF", "OF"];

pub fn register_properties() -> Value {
    let mut v = Vec::new();
    let mut add = |r: &str, b: &str, lsb: u64, size: u64| v.push(json!({"register": r, "base_register": b, "lsb": lsb, "size": size}));
    for r in BASE_REGS {
        add(r, r, 0, 8);
    }
    for (r32, r16, r8, b) in [("EAX", "AX", "AL", "RAX"), ("EBX", "BX", "BL", "RBX"), ("ECX", "CX", "CL", "RCX"), ("EDX", "DX", "DL", "RDX"),
                              ("ESI", "SI", "SIL", "RSI"), ("EDI", "DI", "DIL", "RDI"), ("EBP", "BP", "BPL", "RBP")] {
        add(r32, b, 0, 4);
        add(r16, b, 0, 2);
        add(r8, b, 0, 1);
    }
    add("AH", "RAX", 1, 1);
    add("BH", "RBX", 1, 1);
    add("R8D", "R8", 0, 4);
    add("R9D", "R9", 0, 4);
    add("RIP", "RIP", 0, 8);
    for f in FLAGS {
        add(f, f, 0, 1);
    }
    add("YMM0", "YMM0", 0, 32);
    add("XMM0", "YMM0", 0, 16);
    add("XMM0_Qa", "YMM0", 0, 8);
    add("YMM1", "YMM1", 0, 32);
    add("XMM1_Qa", "YMM1", 0, 8);
    Value::Array(v)
}

pub fn calling_conventions() -> Value {
    json!([{
        "calling_convention": "__stdcall",
        "integer_parameter_register": INT_PARAMS,
        "float_parameter_register": ["XMM0_Qa", "XMM1_Qa"],
        "return_register": ["RAX"],
        "float_return_register": ["XMM0_Qa"],
        "unaffected_register": ["RBX", "RBP", "R12", "R13", "R14", "R15", "RSP"],
        "killed_by_call_register": ["RAX", "RCX", "RDX", "RSI", "RDI", "R8", "R9", "R10", "R11"]
    }, {
        "calling_convention": "__fastcall",
        "integer_parameter_register": ["RCX", "RDX", "R8", "R9"],
        "float_parameter_register": ["XMM0_Qa"],
        "return_register": ["RAX"],
        "float_return_register": ["XMM0_Qa"],
        "unaffected_register": ["RBX", "RBP", "RDI", "RSI", "R12", "R13", "R14", "R15", "RSP"],
        "killed_by_call_register": ["RAX", "RCX", "RDX", "R8", "R9", "R10", "R11"]
    }])
}

pub fn datatype_properties() -> Value {
    json!({"char_size": 1, "double_size": 8, "float_size": 4, "integer_size": 4, "long_double_size": 16,
           "long_long_size": 8, "long_size": 8, "pointer_size": 8, "short_size": 2})
}

/// The extern-symbol vocabulary (a subset is imported per project).
pub fn vocabulary() -> Vec<ExtSym> {
    let s = |name, params: &[&'static str], ret, no_return, var_args| ExtSym { name, params: params.to_vec(), ret, no_return, var_args };
    vec![
        s("malloc", &["RDI"], Some("RAX"), false, false),
        s("calloc", &["RDI", "RSI"], Some("RAX"), false, false),
        s("realloc", &["RDI", "RSI"], Some("RAX"), false, false),
        s("free", &["RDI"], None, false, false),
        s("printf", &["RDI"], Some("RAX"), false, true),
        s("sprintf", &["RDI", "RSI"], Some("RAX"), false, true),
        s("snprintf", &["RDI", "RSI", "RDX"], Some("RAX"), false, true),
        s("scanf", &["RDI"], Some("RAX"), false, true),
        s("sscanf", &["RDI", "RSI"], Some("RAX"), false, true),
        s("strcpy", &["RDI", "RSI"], Some("RAX"), false, false),
        s("strcat", &["RDI", "RSI"], Some("RAX"), false, false),
        s("strlen", &["RDI"], Some("RAX"), false, false),
        s("memcpy", &["RDI", "RSI", "RDX"], Some("RAX"), false, false),
        s("strncmp", &["RDI", "RSI", "RDX"], Some("RAX"), false, false),
        s("system", &["RDI"], Some("RAX"), false, false),
        s("umask", &["RDI"], Some("RAX"), false, false),
        s("chroot", &["RDI"], Some("RAX"), false, false),
        s("chdir", &["RDI"], Some("RAX"), false, false),
        s("setuid", &["RDI"], Some("RAX"), false, false),
        s("setresuid", &["RDI", "RSI", "RDX"], Some("RAX"), false, false),
        s("access", &["RDI", "RSI"], Some("RAX"), false, false),
        s("open", &["RDI", "RSI"], Some("RAX"), false, true),
        s("rand", &[], Some("RAX"), false, false),
        s("srand", &["RDI"], None, false, false),
        s("time", &["RDI"], Some("RAX"), false, false),
        s("ioctl", &["RDI", "RSI"], Some("RAX"), false, true),
        s("getenv", &["RDI"], Some("RAX"), false, false),
        s("fgets", &["RDI", "RSI", "RDX"], Some("RAX"), false, false),
        s("puts", &["RDI"], Some("RAX"), false, false),
        s("exit", &["RDI"], None, true, false),
        s("abort", &[], None, true, false),
        s("read", &["RDI", "RSI", "RDX"], Some("RAX"), false, false),
        s("strdup", &["RDI"], Some("RAX"), false, false),
        s("atoi", &["RDI"], Some("RAX"), false, false),
    ]
}

/// Read-only strings placed in .rodata; returns (bytes, address of each string).
pub fn rodata() -> (Vec<u8>, Vec<(u64, &'static str)>) {
    let strs = ["%s %d\n", "hello", "/tmp/x", "%d", "%s", "cat %s", "%x%x %c", "/", "value=%lf %u\n", "ls -l", "%%d %s", "name: %10s id: %5d"];
    let mut bytes = Vec::new();
    let mut addrs = Vec::new();
    for s in strs {
        addrs.push((RODATA_BASE + bytes.len() as u64, s));
        bytes.extend_from_slice(s.as_bytes());
        bytes.push(0);
    }
    while bytes.len() % 16 != 0 {
        bytes.push(0);
    }
    // a few pointers / numbers
    for v in [DATA_BASE, RODATA_BASE, 0x1234u64, 0] {
        bytes.extend_from_slice(&v.to_le_bytes());
    }
    (bytes, addrs)
}

pub struct ProjectSpec {
    pub funcs: Vec<Func>,
    pub externs: Vec<usize>, // indices into vocabulary()
    pub lkm: bool,
}

/// Knobs for the function generator.
pub struct Knobs {
    pub n_funcs: usize,
    pub max_blocks: usize,
    /// names of extern symbols that MUST be imported and called at least once (syntactic triggers)
    pub must_call: Vec<&'static str>,
    pub lkm: bool,
    /// the functions that are never called from inside the binary are generated in "lost return value" mode
    pub lost_roots: bool,
}

struct FnGen<'a> {
    rng: &'a mut Rng,
    externs: &'a [usize],
    voc: &'a [ExtSym],
    strs: &'a [(u64, &'static str)],
    n_funcs: usize,
    me: usize,
    blocks: Vec<Block>,
    /// "lost return value" mode: the function never overwrites RAX/RBX outside calls, saves the return value of
    /// every extern call in RBX and returns the constant 0 at every return site, so unchecked return values of
    /// extern calls reach several return sites without being returned (the CWE252 / CWE476 shapes)
    keep_rax: bool,
    /// instructions to be emitted at the start of the NEXT block (uses of values computed in this one)
    carry: Vec<Vec<Op>>,
}

fn writes_rax(ins: &[Op]) -> bool {
    ins.iter().any(|o| matches!(o.lhs["name"].as_str(), Some("RAX") | Some("EAX") | Some("AX") | Some("AL") | Some("AH")
        | Some("RBX") | Some("EBX") | Some("BX") | Some("BL") | Some("BH")))
}

/// symbols whose return value must be used according to the shipped configuration (CWE252)
const MUST_USE: [&str; 10] = ["sscanf", "system", "chroot", "chdir", "setuid", "setresuid", "access", "fgets", "read", "atoi"];
const GP: [&str; 8] = ["RAX", "RBX", "RCX", "RDX", "RSI", "RDI", "R8", "R12"];
const ARITH: [&str; 9] = ["INT_ADD", "INT_SUB", "INT_AND", "INT_OR", "INT_XOR", "INT_MULT", "INT_LEFT", "INT_RIGHT", "INT_SRIGHT"];

impl<'a> FnGen<'a> {
    fn r64(&mut self) -> Value {
        reg(*self.rng.pick(&GP), 8)
    }
    fn small_const(&mut self) -> u64 {
        *self.rng.pick(&[0u64, 1, 2, 4, 8, 16, 0x20, 0x7f, 0x80, 0xff, 0o177, 0o200, 0o777, 0o22, 0x100, 0xffff_ffff, 0xffff_ffff_ffff_fff8])
    }
    fn arith(&mut self) -> Vec<Op> {
        match self.rng.below(9) {
            0 => vec![copy(self.r64(), cst(self.small_const(), 8))],
            1 => vec![copy(self.r64(), self.r64())],
            2 => {
                // 32-bit op on sub-registers followed by the implicit zero extension (x86-64 idiom)
                let (d32, d64) = *self.rng.pick(&[("EAX", "RAX"), ("ECX", "RCX"), ("EDX", "RDX"), ("ESI", "RSI"), ("EDI", "RDI")]);
                let s32 = *self.rng.pick(&["EAX", "EBX", "ECX", "EDX", "ESI", "EDI"]);
                let m = *self.rng.pick(&["INT_ADD", "INT_XOR", "INT_AND", "INT_SUB"]);
                vec![bin(reg(d32, 4), m, reg(s32, 4), cst(self.small_const(), 4)), un(reg(d64, 8), "INT_ZEXT", reg(d32, 4))]
            }
            3 => vec![bin(reg(*self.rng.pick(&["AL", "BL", "CL", "DL", "AH"]), 1), *self.rng.pick(&["INT_ADD", "INT_XOR", "INT_OR"]), reg(*self.rng.pick(&["AL", "BL", "AH", "DL"]), 1), cst(self.small_const(), 1))],
            4 => vec![un(self.r64(), *self.rng.pick(&["INT_NEGATE", "INT_2COMP"]), self.r64())],
            5 => vec![un(self.r64(), *self.rng.pick(&["INT_ZEXT", "INT_SEXT"]), reg(*self.rng.pick(&["EAX", "EDX", "AX", "CL"]), if self.rng.chance(1, 2) { 4 } else { 4 }))]
                .into_iter()
                .map(|mut o| {
                    // fix operand size to the register chosen
                    let n = o.inputs[0]["name"].as_str().unwrap().to_string();
                    let sz = if n.starts_with('E') { 4 } else if n == "AX" { 2 } else { 1 };
                    o.inputs[0]["size"] = json!(sz);
                    o
                })
                .collect(),
            6 => vec![bin(reg("AX", 2), "SUBPIECE", self.r64(), cst(self.rng.below(4), 4))],
            7 => {
                let t = tmp("$U2a00", 8);
                vec![bin(t.clone(), *self.rng.pick(&ARITH), self.r64(), cst(self.small_const(), 8)), bin(self.r64(), "INT_ADD", t, self.r64())]
            }
            _ => {
                let m = *self.rng.pick(&ARITH);
                let b = if matches!(m, "INT_LEFT" | "INT_RIGHT" | "INT_SRIGHT") { cst(self.rng.below(70), 8) } else if self.rng.chance(1, 2) { self.r64() } else { cst(self.small_const(), 8) };
                vec![bin(self.r64(), m, self.r64(), b)]
            }
        }
    }
    fn mem(&mut self) -> Vec<Op> {
        let off = 8 * self.rng.below(6);
        let size = *self.rng.pick(&[8u64, 8, 4, 1]);
        let a = tmp("$U3100", 8);
        let base = if self.rng.chance(3, 4) { reg("RSP", 8) } else { reg("RBP", 8) };
        let addr_op = bin(a.clone(), "INT_ADD", base, cst(off, 8));
        let r = |s: u64, rng: &mut Rng| -> Value {
            match s {
                8 => reg(*rng.pick(&GP), 8),
                4 => reg(*rng.pick(&["EAX", "ECX", "EDX", "ESI"]), 4),
                _ => reg(*rng.pick(&["AL", "CL", "DL"]), 1),
            }
        };
        match self.rng.below(7) {
            // dereference of a general purpose register (possibly NULL / small constant / heap pointer),
            // directly or through `reg + offset`: the shapes the NULL-dereference detection looks at
            5 => {
                let p = self.r64();
                if self.rng.chance(1, 2) {
                    vec![store(p, r(size, self.rng))]
                } else {
                    vec![load(r(8, self.rng), p)]
                }
            }
            6 => {
                let p = self.r64();
                let t = tmp("$U3200", 8);
                let o = bin(t.clone(), "INT_ADD", p, cst(8 * self.rng.below(4), 8));
                if self.rng.chance(1, 2) {
                    vec![o, store(t, r(8, self.rng))]
                } else {
                    vec![o, load(r(8, self.rng), t)]
                }
            }
            0 | 1 => vec![addr_op, store(a, r(size, self.rng))],
            2 | 3 => {
                let dst = r(size, self.rng);
                let mut v = vec![addr_op, load(dst.clone(), a)];
                if size == 4 {
                    let n = dst["name"].as_str().unwrap();
                    let base = format!("R{}", &n[1..]);
                    v.push(un(reg(&base, 8), "INT_ZEXT", dst.clone()));
                }
                v
            }
            _ => {
                // global memory: implicit RAM operand or explicit load from .data / .rodata
                // global addresses: .data, read-only data, and the last bytes of the read-only / data segments
                // (reads that straddle a segment end)
                let g = match self.rng.below(6) {
                    0 | 1 => DATA_BASE + 8 * self.rng.below(8),
                    2 | 3 => RODATA_BASE + 0x70 + 8 * self.rng.below(4),
                    4 => DATA_BASE - 1 - self.rng.below(8),
                    _ => RODATA_BASE - 1 - self.rng.below(8),
                };
                if self.rng.chance(1, 2) {
                    vec![copy(self.r64(), ram(g, 8))]
                } else {
                    vec![copy(ram(DATA_BASE + 8 * self.rng.below(8), 8), self.r64())]
                }
            }
        }
    }
    fn cmp_flag(&mut self) -> (Vec<Op>, Value) {
        let f = *self.rng.pick(&FLAGS);
        let m = *self.rng.pick(&["INT_EQUAL", "INT_NOTEQUAL", "INT_LESS", "INT_SLESS", "INT_LESSEQUAL", "INT_SLESSEQUAL", "INT_CARRY", "INT_SBORROW"]);
        let b = if self.rng.chance(1, 2) { cst(self.small_const(), 8) } else { self.r64() };
        let mut v = vec![bin(reg(f, 1), m, self.r64(), b)];
        if self.rng.chance(1, 4) {
            let f2 = *self.rng.pick(&FLAGS);
            v.push(un(reg(f2, 1), "BOOL_NEGATE", reg(f, 1)));
            return (v, reg(f2, 1));
        }
        (v, reg(f, 1))
    }
    fn call_seq(&mut self, ret_addr_placeholder: u64) -> Vec<Op> {
        vec![bin(reg("RSP", 8), "INT_SUB", reg("RSP", 8), cst(8, 8)), store(reg("RSP", 8), cst(ret_addr_placeholder, 8))]
    }
    fn arg_setup(&mut self, sym: &ExtSym) -> Vec<Vec<Op>> {
        let mut v = Vec::new();
        for (i, p) in sym.params.iter().enumerate() {
            let src = match (sym.name, i) {
                ("printf", 0) | ("scanf", 0) | ("sprintf", 1) | ("sscanf", 1) | ("snprintf", 2) | ("system", 0) | ("chroot", 0) | ("chdir", 0) | ("access", 0) | ("open", 0) | ("getenv", 0) | ("puts", 0) => {
                    if self.rng.chance(4, 5) { cst(self.rng.pick(self.strs).0, 8) } else { self.r64() }
                }
                ("umask", 0) => cst(*self.rng.pick(&[0o22u64, 0o77, 0o177, 0o200, 0o666, 0o777, 0o7777]), 8),
                ("malloc", 0) | ("memcpy", 2) | ("strncmp", 2) | ("calloc", _) | ("realloc", 1) | ("snprintf", 1) | ("fgets", 1) => {
                    if self.rng.chance(3, 4) { cst(*self.rng.pick(&[8u64, 4, 16, 32, 100, 0]), 8) } else { self.r64() }
                }
                _ => {
                    if self.rng.chance(1, 3) { cst(self.small_const(), 8) } else { self.r64() }
                }
            };
            if self.rng.chance(1, 6) && src["value"].is_string() {
                // go through a 32 bit register write + zero extension
                let p32 = match *p { "RDI" => "EDI", "RSI" => "ESI", "RDX" => "EDX", "RCX" => "ECX", _ => "" };
                if !p32.is_empty() {
                    let c = u64::from_str_radix(src["value"].as_str().unwrap(), 16).unwrap();
                    v.push(vec![copy(reg(p32, 4), cst(c, 4)), un(reg(p, 8), "INT_ZEXT", reg(p32, 4))]);
                    continue;
                }
            }
            v.push(vec![copy(reg(p, 8), src)]);
        }
        v
    }
    /// A long chain of dependent register operations: expression propagation nests them until its
    /// recursion-depth limit is hit (the HashMap-iteration case of C23).
    fn chain(&mut self) -> Vec<Vec<Op>> {
        let acc = *self.rng.pick(&["RAX", "RCX", "RDX", "RSI"]);
        let n = 10 + self.rng.below(6);
        let mut v = Vec::new();
        for _ in 0..n {
            let m = *self.rng.pick(&["INT_ADD", "INT_XOR", "INT_SUB", "INT_OR", "INT_AND", "INT_MULT"]);
            let other = if self.rng.chance(2, 3) { self.r64() } else { cst(self.small_const(), 8) };
            v.push(vec![bin(reg(acc, 8), m, reg(acc, 8), other)]);
        }
        // use the value: as an address and as a parameter candidate, in this block or in the next one
        let use_ = if self.rng.chance(1, 2) { vec![load(self.r64(), reg(acc, 8))] } else { vec![copy(reg("RDI", 8), reg(acc, 8))] };
        if self.rng.chance(1, 2) {
            self.carry.push(use_);
        } else {
            v.push(use_);
        }
        v
    }
    /// Two dependent assignments `y = f(z); x = g(y)` whose values survive into the successor block, where x is used
    /// as the address of memory accesses (inter-block expression propagation with a table of several entries).
    fn pair(&mut self) -> Vec<Vec<Op>> {
        let regs = ["RAX", "RBX", "RCX", "RDX", "RSI", "RDI", "R8", "R12"];
        let z = *self.rng.pick(&regs);
        let mut y = *self.rng.pick(&regs);
        while y == z { y = *self.rng.pick(&regs); }
        let mut x = *self.rng.pick(&regs);
        while x == z || x == y { x = *self.rng.pick(&regs); }
        let m1 = *self.rng.pick(&["INT_ADD", "INT_SUB", "INT_XOR"]);
        let m2 = *self.rng.pick(&["INT_ADD", "INT_SUB"]);
        let first = match self.rng.below(3) {
            0 => copy(reg(y, 8), cst(*self.rng.pick(&[0u64, 0, 8, 0x10, 0x5000]), 8)),
            1 => copy(reg(y, 8), reg(z, 8)),
            _ => bin(reg(y, 8), m1, reg(z, 8), cst(8 * self.rng.below(5), 8)),
        };
        let v = vec![vec![first], vec![bin(reg(x, 8), m2, reg(y, 8), cst(8 * self.rng.below(5), 8))]];
        // successor block: accesses through x and through y (the syntactic form of the address decides what the
        // NULL-dereference handling specialises afterwards)
        let val = self.r64();
        if self.rng.chance(1, 2) {
            self.carry.push(vec![store(reg(x, 8), val.clone())]);
            self.carry.push(vec![store(reg(y, 8), val)]);
        } else {
            let t = tmp("$U3300", 8);
            self.carry.push(vec![bin(t.clone(), "INT_ADD", reg(x, 8), cst(8, 8)), store(t, val.clone())]);
            self.carry.push(vec![load(val, reg(y, 8))]);
        }
        v
    }
    fn straight(&mut self, n: u64) -> Vec<Vec<Op>> {
        let mut v: Vec<Vec<Op>> = std::mem::take(&mut self.carry);
        for _ in 0..n {
            if self.rng.chance(1, 12) {
                v.extend(self.chain());
            } else if self.rng.chance(1, 12) {
                v.extend(self.pair());
            } else if self.rng.chance(1, 3) {
                v.push(self.mem());
            } else {
                v.push(self.arith());
            }
        }
        if self.keep_rax {
            v.retain(|ins| !writes_rax(ins));
        }
        v
    }
}

/// Generate the functions of one project.
pub fn gen_funcs(rng: &mut Rng, knobs: &Knobs) -> ProjectSpec {
    let voc = vocabulary();
    let (_, strs) = rodata();
    // choose imported symbols
    let mut externs: Vec<usize> = Vec::new();
    for (i, s) in voc.iter().enumerate() {
        if knobs.must_call.contains(&s.name) || rng.chance(1, 2) {
            externs.push(i);
        }
    }
    if externs.is_empty() {
        externs.push(0);
    }
    let mut must: Vec<usize> = externs.iter().cloned().filter(|i| knobs.must_call.contains(&voc[*i].name)).collect();
    let mut funcs = Vec::new();
    for me in 0..knobs.n_funcs {
        let mut g = FnGen { rng, externs: &externs, voc: &voc, strs: &strs, n_funcs: knobs.n_funcs, me, blocks: Vec::new(), keep_rax: false, carry: Vec::new() };
        g.keep_rax = g.rng.chance(1, 3) || (knobs.lost_roots && (me == 0 || me + 1 == knobs.n_funcs));
        // prologue block
        let frame = 0x18 + 0x10 * g.rng.below(4);
        let mut pro: Vec<Vec<Op>> = vec![
            vec![bin(reg("RSP", 8), "INT_SUB", reg("RSP", 8), cst(8, 8)), store(reg("RSP", 8), reg("RBP", 8))],
            vec![copy(reg("RBP", 8), reg("RSP", 8))],
            vec![bin(reg("RSP", 8), "INT_SUB", reg("RSP", 8), cst(frame, 8))],
        ];
        if g.rng.chance(1, 5) {
            pro.push(vec![bin(reg("RSP", 8), "INT_AND", reg("RSP", 8), cst(0xffff_ffff_ffff_fff0, 8))]);
        }
        let n = g.rng.below(3);
        pro.extend(g.straight(n));
        let nblocks = 2 + g.rng.below(knobs.max_blocks as u64 - 1) as usize;
        // body blocks are indices 1..=nblocks, epilogue = nblocks+1
        let epi = nblocks + 1;
        g.blocks.push(Block { instrs: pro, term: Term::Goto(1) });
        let mut pending_must: Vec<usize> = if me == 0 { std::mem::take(&mut must) } else { Vec::new() };
        let mut b = 1;
        while b <= nblocks {
            let n = 1 + g.rng.below(4);
            let mut instrs = g.straight(n);
            let next = b + 1; // b+1 <= epi
            let want_ext = !pending_must.is_empty();
            let choice = if want_ext { 0 } else { g.rng.below(10) };
            let term = match choice {
                0 | 1 | 2 => {
                    let must_use: Vec<usize> = g.externs.iter().cloned().filter(|i| MUST_USE.contains(&g.voc[*i].name)).collect();
                    let sym = if want_ext {
                        pending_must.pop().unwrap()
                    } else if g.keep_rax && !must_use.is_empty() && g.rng.chance(2, 3) {
                        *g.rng.pick(&must_use)
                    } else {
                        *g.rng.pick(g.externs)
                    };
                    let s = &g.voc[sym];
                    let setup = g.arg_setup(s);
                    instrs.extend(setup);
                    instrs.push(g.call_seq(0)); // return address patched at layout
                    let ret = if s.no_return && g.rng.chance(1, 2) { None } else { Some(next) };
                    if g.keep_rax && s.ret.is_some() {
                        g.carry.push(vec![copy(reg("RBX", 8), reg("RAX", 8))]);
                    }
                    Term::CallExt { sym, ret }
                }
                3 if g.n_funcs > 2 => {
                    // function 0 (main) and the last function are roots: never called from inside the binary
                    let f = 1 + g.rng.below(g.n_funcs as u64 - 2) as usize;
                    for p in INT_PARAMS.iter().take(g.rng.below(3) as usize) {
                        let src = if g.rng.chance(1, 2) { g.r64() } else { cst(g.small_const(), 8) };
                        instrs.push(vec![copy(reg(p, 8), src)]);
                    }
                    instrs.push(g.call_seq(0));
                    Term::CallFn { func: f, ret: Some(next) }
                }
                4 | 5 => {
                    let (ops, flag) = g.cmp_flag();
                    instrs.push(ops);
                    // forward or backward (loop) target
                    let target = if g.rng.chance(1, 3) && b > 1 { 1 + g.rng.below(b as u64) as usize } else { (next + g.rng.below((epi - next + 1) as u64) as usize).min(epi) };
                    Term::Cond { flag, target, fall: next }
                }
                6 => {
                    instrs.push(g.call_seq(0));
                    Term::CallInd { target: g.r64(), ret: Some(next) }
                }
                7 if b + 2 <= epi => {
                    let hints: Vec<usize> = (0..1 + g.rng.below(2)).map(|_| next + g.rng.below((epi - next + 1) as u64) as usize).collect();
                    Term::IndJmp { target: g.r64(), hints }
                }
                8 if g.rng.chance(1, 3) => Term::CallOther { ret: next },
                // an early return (a second return site): `if flag goto b+2 else fall into the return block b+1`
                8 | 9 if b + 2 <= epi && (g.keep_rax || g.rng.chance(1, 2)) => {
                    let (ops, flag) = g.cmp_flag();
                    instrs.push(ops);
                    g.blocks.push(Block { instrs, term: Term::Cond { flag, target: b + 2, fall: b + 1 } });
                    let mut ret_instrs = std::mem::take(&mut g.carry);
                    if g.keep_rax {
                        ret_instrs.push(vec![copy(reg("RAX", 8), cst(0, 8))]);
                    }
                    ret_instrs.extend(vec![
                        vec![copy(reg("RSP", 8), reg("RBP", 8))],
                        vec![load(reg("RBP", 8), reg("RSP", 8)), bin(reg("RSP", 8), "INT_ADD", reg("RSP", 8), cst(8, 8))],
                        vec![load(reg("RIP", 8), reg("RSP", 8)), bin(reg("RSP", 8), "INT_ADD", reg("RSP", 8), cst(8, 8))],
                    ]);
                    g.blocks.push(Block { instrs: ret_instrs, term: Term::Ret });
                    b += 2;
                    continue;
                }
                _ => Term::Goto(next),
            };
            g.blocks.push(Block { instrs, term });
            b += 1;
        }
        // epilogue
        let mut epi_instrs = std::mem::take(&mut g.carry);
        if g.keep_rax {
            epi_instrs.push(vec![copy(reg("RAX", 8), cst(0, 8))]);
        }
        epi_instrs.extend(vec![
            vec![copy(reg("RSP", 8), reg("RBP", 8))],
            vec![load(reg("RBP", 8), reg("RSP", 8)), bin(reg("RSP", 8), "INT_ADD", reg("RSP", 8), cst(8, 8))],
            vec![load(reg("RIP", 8), reg("RSP", 8)), bin(reg("RSP", 8), "INT_ADD", reg("RSP", 8), cst(8, 8))],
        ]);
        g.blocks.push(Block { instrs: epi_instrs, term: Term::Ret });
        let blocks = g.blocks;
        funcs.push(Func { name: if me == 0 { "main".to_string() } else { format!("fn_{}", me) }, blocks });
    }
    ProjectSpec { funcs, externs, lkm: knobs.lkm }
}

/// Lay the functions out in the text segment and produce the extractor's JSON.
pub fn layout(spec: &ProjectSpec) -> (Value, u64) {
    let voc = vocabulary();
    // pass 1: addresses
    let mut addr = TEXT_BASE + 0x100;
    let mut fstart = Vec::new();
    let mut bstart: Vec<Vec<u64>> = Vec::new();
    let mut bend: Vec<Vec<u64>> = Vec::new(); // address of the jump instruction
    for f in &spec.funcs {
        fstart.push(addr);
        let mut bs = Vec::new();
        let mut be = Vec::new();
        for b in &f.blocks {
            bs.push(addr);
            addr += 4 * b.instrs.len().max(0) as u64;
            be.push(addr);
            addr += 4; // the jump instruction
        }
        bstart.push(bs);
        bend.push(be);
        addr = (addr + 0x1f) & !0xf;
    }
    let text_end = addr;
    // extern symbol addresses (thunks after the text)
    let ext_addr: Vec<u64> = spec.externs.iter().enumerate().map(|(i, _)| text_end + 0x10 * i as u64).collect();
    let direct = |t: Value| json!({"Direct": t});
    let mut subs = Vec::new();
    for (fi, f) in spec.funcs.iter().enumerate() {
        let mut blocks = Vec::new();
        for (bi, b) in f.blocks.iter().enumerate() {
            let mut defs = Vec::new();
            let mut a = bstart[fi][bi];
            let ret_addr = |r: &Option<usize>| r.map(|r| bstart[fi][r]).unwrap_or(0);
            let patched_ret = match &b.term {
                Term::CallExt { ret, .. } | Term::CallFn { ret, .. } | Term::CallInd { ret, .. } => ret_addr(ret),
                _ => 0,
            };
            for (ii, ins) in b.instrs.iter().enumerate() {
                let last = ii + 1 == b.instrs.len();
                for (n, o) in ins.iter().enumerate() {
                    let mut inputs = o.inputs.clone();
                    if last && o.mnemonic == "STORE" && patched_ret != 0 && inputs[2]["value"] == json!("0") {
                        inputs[2] = cst(patched_ret, 8);
                    }
                    defs.push(json!({"tid": tid_n("instr", a, n), "term": {"lhs": o.lhs, "rhs": {"mnemonic": o.mnemonic, "input0": inputs[0], "input1": inputs[1], "input2": inputs[2]}}}));
                }
                a += 4;
            }
            let ja = bend[fi][bi];
            let blk_t = |i: usize| tid("blk", bstart[fi][i]);
            let jmp = |n: usize, mnemonic: &str, goto: Value, call: Value, cond: Value, hints: Value| {
                json!({"tid": tid_n("instr", ja, n), "term": {"mnemonic": mnemonic, "goto": goto, "call": call, "condition": cond, "target_hints": hints}})
            };
            let opt_ret = |r: &Option<usize>| match r { Some(r) => direct(blk_t(*r)), None => Value::Null };
            let jmps = match &b.term {
                Term::Goto(t) => vec![jmp(0, "BRANCH", direct(blk_t(*t)), Value::Null, Value::Null, Value::Null)],
                Term::Cond { flag, target, fall } => vec![
                    jmp(0, "CBRANCH", direct(blk_t(*target)), Value::Null, flag.clone(), Value::Null),
                    jmp(1, "BRANCH", direct(blk_t(*fall)), Value::Null, Value::Null, Value::Null),
                ],
                Term::IndJmp { target, hints } => vec![jmp(0, "BRANCHIND", json!({"Indirect": target}), Value::Null, Value::Null,
                    Value::Array(hints.iter().map(|h| json!(hex(bstart[fi][*h]))).collect()))],
                Term::CallExt { sym, ret } => {
                    let k = spec.externs.iter().position(|s| s == sym).unwrap();
                    vec![jmp(0, "CALL", Value::Null, json!({"target": direct(tid("sub", ext_addr[k])), "return": opt_ret(ret), "call_string": null}), Value::Null, Value::Null)]
                }
                Term::CallFn { func, ret } => vec![jmp(0, "CALL", Value::Null, json!({"target": direct(tid("sub", fstart[*func])), "return": opt_ret(ret), "call_string": null}), Value::Null, Value::Null)],
                Term::CallInd { target, ret } => vec![jmp(0, "CALLIND", Value::Null, json!({"target": {"Indirect": target}, "return": opt_ret(ret), "call_string": null}), Value::Null, Value::Null)],
                Term::CallOther { ret } => vec![jmp(0, "CALLOTHER", Value::Null, json!({"target": null, "return": direct(blk_t(*ret)), "call_string": "syscall"}), Value::Null, Value::Null)],
                Term::Ret => vec![jmp(0, "RETURN", json!({"Indirect": reg("RIP", 8)}), Value::Null, Value::Null, Value::Null)],
            };
            blocks.push(json!({"tid": tid("blk", bstart[fi][bi]), "term": {"defs": defs, "jmps": jmps}}));
        }
        subs.push(json!({"tid": tid("sub", fstart[fi]), "term": {"name": f.name, "blocks": blocks, "calling_convention": "__stdcall"}}));
    }
    let mut extern_symbols = Vec::new();
    for (k, si) in spec.externs.iter().enumerate() {
        let s = &voc[*si];
        let mut args: Vec<Value> = s.params.iter().map(|p| json!({"var": reg(p, 8), "location": null, "intent": "INPUT"})).collect();
        if let Some(r) = s.ret {
            args.push(json!({"var": reg(r, 8), "location": null, "intent": "OUTPUT"}));
        }
        extern_symbols.push(json!({"tid": tid("sub", ext_addr[k]), "addresses": [hex(ext_addr[k])], "name": s.name,
            "calling_convention": "__stdcall", "arguments": args, "no_return": s.no_return, "has_var_args": s.var_args}));
    }
    let image_base = IMAGE_BASE;
    let project = json!({
        "program": {"tid": tid("prog", image_base), "term": {"subs": subs, "extern_symbols": extern_symbols,
                    "entry_points": [tid("sub", fstart[0])], "image_base": format!("{:x}", image_base)}},
        "cpu_architecture": "x86_64",
        "stack_pointer_register": reg("RSP", 8),
        "register_properties": register_properties(),
        "register_calling_convention": calling_conventions(),
        "datatype_properties": datatype_properties(),
    });
    (project, text_end + 0x10 * spec.externs.len() as u64 + 0x10)
}
