//! Seeded random generator of IR programs (`Term<Program>` / `Project`) for every property whose
//! quantifier ranges over programs.  It only GENERATES (coverage); it never decides anything.
//!
//! # API (small on purpose)
//! * [`Knobs`]                       – sizes and shape weights; `Knobs::default()` is a good mix.
//! * [`gen_program`]`(rng, &knobs)`  – a WELL-FORMED NORMALISED multi-function program: unique TIDs,
//!   every branch target / indirect hint / return site is a block of the same function, every call
//!   target is a function or an extern symbol, blocks end in 0, 1 or 2 jumps (two = conditional
//!   branch followed by Branch/BranchInd/Return, or - knobs `w_cbranch_call*`, default OFF - by a
//!   call-like instruction: a conditionally executed call).  Contains conditional and indirect jumps, internal
//!   (also recursive and mutually recursive), extern, indirect and `CallOther` calls, calls without
//!   return site, calls to non-returning extern symbols and to functions without `Return`, empty
//!   functions, several call sites per callee and several returning blocks per callee.
//! * [`gen_program_with`]`(rng, &knobs, &mut hook)` – same, `hook(rng, &BlockCtx) -> Vec<Def>`
//!   supplies the `Def`s of each block (TIDs are assigned by the generator).
//! * [`RawKnobs`], [`make_raw`]`(rng, &mut program, &raw)` / [`gen_raw_program`] – turn a well-formed
//!   program into one "as the P-Code extractor may emit it": dangling jump / call / return targets
//!   and hints (fresh TIDs that name nothing), NON-ENTRY blocks listed in a second function or
//!   jumped to from a second function, duplicated TIDs on non-entry blocks, defs and jmps.
//!   The result stays inside the input class of property C09 ([`raw_in_class`]): entry-block TIDs
//!   are unique and no entry block is intraprocedurally reachable from another function.
//! * [`project_of`]`(program)`       – wrap into a `Project` (x86-64 registers, `__stdcall`, empty
//!   memory image) using public constructors only.
//! * [`extern_symbol`], [`std_externs`], [`reg`], [`var_expr`], [`const_expr`] – small builders.
//!
//! TID conventions follow the extractor: `sub_<addr>`, `blk_<addr>`, `instr_<addr>_<n>`; the address
//! field always equals `<addr>`, so a TID's id determines its address.
#![allow(dead_code)]
use crate::rng::Rng;
use cwe_checker_lib::intermediate_representation::*;
use std::collections::{BTreeMap, BTreeSet, HashMap, HashSet};

// ------------------------------------------------------------------------------------------------
// small builders
// ------------------------------------------------------------------------------------------------
pub fn tid(id: &str, address: &str) -> Tid {
    let mut t = Tid::new(id);
    t.address = address.to_string();
    t
}
pub fn reg(name: &str) -> Variable {
    let size = if name.len() == 2 && name.ends_with('F') { 1 } else { 8 };
    Variable { name: name.to_string(), size: ByteSize::new(size), is_temp: false }
}
pub fn var_expr(name: &str) -> Expression {
    Expression::Var(reg(name))
}
pub fn const_expr(value: u64, bytes: u64) -> Expression {
    Expression::Const(crate::enc::bv_u64(value, bytes))
}
pub const REGS: [&str; 8] = ["RAX", "RBX", "RCX", "RDX", "RSI", "RDI", "R8", "R9"];
pub const FLAGS: [&str; 2] = ["ZF", "CF"];

/// An extern symbol `sub_<addr>` with register parameters / return register.
pub fn extern_symbol(name: &str, addr: u64, params: &[&str], ret: Option<&str>, no_return: bool) -> ExternSymbol {
    let a = format!("{:08x}", addr);
    ExternSymbol {
        tid: tid(&format!("sub_{}", a), &a),
        addresses: vec![a],
        name: name.to_string(),
        calling_convention: Some("__stdcall".to_string()),
        parameters: params.iter().map(|p| Arg::from_var(reg(p), None)).collect(),
        return_values: ret.iter().map(|p| Arg::from_var(reg(p), None)).collect(),
        no_return,
        has_var_args: false,
    }
}
/// malloc, free, puts (returning) and exit, abort (non-returning)
pub fn std_externs() -> Vec<ExternSymbol> {
    vec![
        extern_symbol("malloc", 0xf000, &["RDI"], Some("RAX"), false),
        extern_symbol("free", 0xf010, &["RDI"], None, false),
        extern_symbol("puts", 0xf020, &["RDI"], Some("RAX"), false),
        extern_symbol("exit", 0xf030, &["RDI"], None, true),
        extern_symbol("abort", 0xf040, &[], None, true),
    ]
}

pub fn cconv_stdcall() -> CallingConvention {
    CallingConvention {
        name: "__stdcall".to_string(),
        integer_parameter_register: ["RDI", "RSI", "RDX", "RCX", "R8", "R9"].iter().map(|r| reg(r)).collect(),
        float_parameter_register: vec![],
        integer_return_register: vec![reg("RAX")],
        float_return_register: vec![],
        callee_saved_register: ["RBX", "RBP", "R12", "R13", "R14", "R15"].iter().map(|r| reg(r)).collect(),
    }
}

/// Wrap a program into a `Project` (public constructors only; `Project::mock_*` is cfg(test)).
pub fn project_of(program: Term<Program>) -> Project {
    let mut regs: BTreeSet<Variable> = ["RAX", "RBX", "RCX", "RDX", "RSI", "RDI", "RSP", "RBP", "R8", "R9", "R10", "R11", "R12", "R13", "R14", "R15"]
        .iter()
        .map(|r| reg(r))
        .collect();
    for f in FLAGS {
        regs.insert(reg(f));
    }
    let b = ByteSize::new;
    Project {
        program,
        cpu_architecture: "x86_64".to_string(),
        stack_pointer_register: reg("RSP"),
        calling_conventions: BTreeMap::from([("__stdcall".to_string(), cconv_stdcall())]),
        register_set: regs,
        datatype_properties: DatatypeProperties {
            char_size: b(1), double_size: b(8), float_size: b(4), integer_size: b(4), long_double_size: b(8),
            long_long_size: b(8), long_size: b(8), pointer_size: b(8), short_size: b(2),
        },
        runtime_memory_image: RuntimeMemoryImage::empty(true),
    }
}

// ------------------------------------------------------------------------------------------------
// knobs
// ------------------------------------------------------------------------------------------------
/// Sizes and shape weights.  A weight of 0 switches a shape off.
#[derive(Clone)]
pub struct Knobs {
    pub min_subs: usize,
    pub max_subs: usize,
    /// blocks per non-empty function: 1..=max_blocks
    pub max_blocks: usize,
    /// probability (per cent) that a function is empty (no blocks)
    pub pct_empty_sub: u64,
    /// defs per block 0..=max_defs (default hook)
    pub max_defs: usize,
    /// extern symbols of the program
    pub externs: Vec<ExternSymbol>,
    // ---- weights of the block terminators -------------------------------------------------
    pub w_none: u64,
    pub w_return: u64,
    pub w_branch: u64,
    pub w_cbranch_branch: u64,
    pub w_cbranch_return: u64,
    pub w_cbranch_only: u64,
    pub w_branchind: u64,
    pub w_cbranch_branchind: u64,
    pub w_call_internal: u64,
    pub w_call_extern: u64,
    pub w_callind: u64,
    pub w_callother: u64,
    /// Conditionally executed calls: a conditional branch followed by a call-like instruction in
    /// SECOND position (e.g. ARM `blne f` = CBRANCH + CALL).  Default 0 = OFF, so the random
    /// streams of generators that do not ask for these shapes are unchanged.
    pub w_cbranch_call_internal: u64,
    pub w_cbranch_call_extern: u64,
    pub w_cbranch_callind: u64,
    pub w_cbranch_callother: u64,
    /// probability (per cent) that a call has a return site
    pub pct_ret_site: u64,
    /// probability (per cent) that the return site is the following block (else a random block)
    pub pct_ret_next: u64,
    /// probability (per cent) that the last block of a function is a plain `Return`
    pub pct_last_returns: u64,
    /// maximal number of indirect jump target hints
    pub max_hints: usize,
    /// probability (per cent) that branch targets are forward (acyclic-ish functions); else any block
    pub pct_forward: u64,
}

impl Default for Knobs {
    fn default() -> Knobs {
        Knobs {
            min_subs: 1, max_subs: 4, max_blocks: 5, pct_empty_sub: 8, max_defs: 2, externs: std_externs(),
            w_none: 2, w_return: 6, w_branch: 8, w_cbranch_branch: 10, w_cbranch_return: 2, w_cbranch_only: 1,
            w_branchind: 4, w_cbranch_branchind: 2, w_call_internal: 14, w_call_extern: 8, w_callind: 4, w_callother: 2,
            w_cbranch_call_internal: 0, w_cbranch_call_extern: 0, w_cbranch_callind: 0, w_cbranch_callother: 0,
            pct_ret_site: 85, pct_ret_next: 70, pct_last_returns: 70, max_hints: 3, pct_forward: 40,
        }
    }
}

/// What a `Def` hook is told about the block it fills.
pub struct BlockCtx {
    pub sub_index: usize,
    pub block_index: usize,
    pub n_blocks: usize,
}
pub type DefHook<'a> = &'a mut dyn FnMut(&mut Rng, &BlockCtx) -> Vec<Def>;

/// default hook: 0..=max_defs simple register assignments / loads / stores
pub fn simple_defs(rng: &mut Rng, max_defs: usize) -> Vec<Def> {
    let n = rng.below(max_defs as u64 + 1);
    (0..n)
        .map(|_| {
            let dst = reg(*rng.pick(&REGS[..]));
            let src = var_expr(*rng.pick(&REGS[..]));
            match rng.below(4) {
                0 => Def::Assign { var: dst, value: const_expr(rng.below(256), 8) },
                1 => Def::Assign {
                    var: dst,
                    value: Expression::BinOp { op: BinOpType::IntAdd, lhs: Box::new(src), rhs: Box::new(const_expr(rng.below(64), 8)) },
                },
                2 => Def::Load { var: dst, address: src },
                _ => Def::Store { address: src, value: Expression::Var(dst) },
            }
        })
        .collect()
}

// ------------------------------------------------------------------------------------------------
// well-formed programs
// ------------------------------------------------------------------------------------------------
fn sub_addr(i: usize) -> u64 {
    0x1000 * (i as u64 + 1)
}
fn blk_addr(i: usize, b: usize) -> u64 {
    sub_addr(i) + 0x10 * b as u64
}
pub fn sub_tid(i: usize) -> Tid {
    let a = format!("{:08x}", sub_addr(i));
    tid(&format!("sub_{}", a), &a)
}
pub fn blk_tid(i: usize, b: usize) -> Tid {
    let a = format!("{:08x}", blk_addr(i, b));
    tid(&format!("blk_{}", a), &a)
}
fn instr_tid(i: usize, b: usize, n: usize) -> Tid {
    let a = format!("{:08x}", blk_addr(i, b));
    tid(&format!("instr_{}_{}", a, n), &a)
}

pub fn gen_program(rng: &mut Rng, k: &Knobs) -> Term<Program> {
    let max_defs = k.max_defs;
    gen_program_with(rng, k, &mut |r: &mut Rng, _c: &BlockCtx| simple_defs(r, max_defs))
}

pub fn gen_program_with(rng: &mut Rng, k: &Knobs, hook: DefHook) -> Term<Program> {
    let n_subs = k.min_subs + rng.below((k.max_subs - k.min_subs + 1) as u64) as usize;
    let n_blocks: Vec<usize> = (0..n_subs)
        .map(|_| if rng.chance(k.pct_empty_sub, 100) { 0 } else { 1 + rng.below(k.max_blocks as u64) as usize })
        .collect();
    let externs: Vec<&ExternSymbol> = k.externs.iter().collect();
    let weights = [
        k.w_none, k.w_return, k.w_branch, k.w_cbranch_branch, k.w_cbranch_return, k.w_cbranch_only, k.w_branchind,
        k.w_cbranch_branchind, k.w_call_internal, if externs.is_empty() { 0 } else { k.w_call_extern }, k.w_callind, k.w_callother,
        // appended last with default weight 0: the selection among the shapes above is unchanged
        k.w_cbranch_call_internal, if externs.is_empty() { 0 } else { k.w_cbranch_call_extern }, k.w_cbranch_callind, k.w_cbranch_callother,
    ];
    let total: u64 = weights.iter().sum();
    let mut subs = BTreeMap::new();
    for i in 0..n_subs {
        let nb = n_blocks[i];
        let mut blocks = Vec::new();
        for b in 0..nb {
            let defs: Vec<Term<Def>> = hook(rng, &BlockCtx { sub_index: i, block_index: b, n_blocks: nb })
                .into_iter()
                .enumerate()
                .map(|(n, d)| Term { tid: instr_tid(i, b, n), term: d })
                .collect();
            let nd = defs.len();
            let j1 = instr_tid(i, b, nd);
            let j2 = instr_tid(i, b, nd + 1);
            // a target inside the same function
            let forward = rng.chance(k.pct_forward, 100);
            let mut target = |rng: &mut Rng| -> Tid {
                if forward && b + 1 < nb {
                    blk_tid(i, b + 1 + rng.below((nb - b - 1) as u64) as usize)
                } else {
                    blk_tid(i, rng.below(nb as u64) as usize)
                }
            };
            let ret_site = |rng: &mut Rng| -> Option<Tid> {
                if !rng.chance(k.pct_ret_site, 100) {
                    None
                } else if b + 1 < nb && rng.chance(k.pct_ret_next, 100) {
                    Some(blk_tid(i, b + 1))
                } else {
                    Some(blk_tid(i, rng.below(nb as u64) as usize))
                }
            };
            let cond = Expression::Var(reg(*rng.pick(&FLAGS[..])));
            let mut shape = {
                let mut x = rng.below(total.max(1));
                let mut s = 0;
                for (n, w) in weights.iter().enumerate() {
                    if x < *w {
                        s = n;
                        break;
                    }
                    x -= w;
                }
                s
            };
            if b + 1 == nb && rng.chance(k.pct_last_returns, 100) {
                shape = 1;
            }
            let mut hints = Vec::new();
            let mut mk_hints = |rng: &mut Rng, hints: &mut Vec<Tid>| {
                let n = rng.below(k.max_hints as u64 + 1);
                for _ in 0..n {
                    let t = target(rng);
                    hints.push(t);
                }
                // now and then list one hint twice
                if !hints.is_empty() && rng.chance(1, 6) {
                    let t = hints[0].clone();
                    hints.push(t);
                }
            };
            let jmps: Vec<Term<Jmp>> = match shape {
                0 => vec![],
                1 => vec![Term { tid: j1, term: Jmp::Return(var_expr("RAX")) }],
                2 => vec![Term { tid: j1, term: Jmp::Branch(target(rng)) }],
                3 => vec![
                    Term { tid: j1, term: Jmp::CBranch { target: target(rng), condition: cond } },
                    Term { tid: j2, term: Jmp::Branch(target(rng)) },
                ],
                4 => vec![
                    Term { tid: j1, term: Jmp::CBranch { target: target(rng), condition: cond } },
                    Term { tid: j2, term: Jmp::Return(var_expr("RAX")) },
                ],
                5 => vec![Term { tid: j1, term: Jmp::CBranch { target: target(rng), condition: cond } }],
                6 => {
                    mk_hints(rng, &mut hints);
                    vec![Term { tid: j1, term: Jmp::BranchInd(var_expr("RAX")) }]
                }
                7 => {
                    let t = target(rng);
                    mk_hints(rng, &mut hints);
                    vec![
                        Term { tid: j1, term: Jmp::CBranch { target: t, condition: cond } },
                        Term { tid: j2, term: Jmp::BranchInd(var_expr("RAX")) },
                    ]
                }
                8 => {
                    let callee = sub_tid(rng.below(n_subs as u64) as usize);
                    vec![Term { tid: j1, term: Jmp::Call { target: callee, return_: ret_site(rng) } }]
                }
                9 => {
                    let e = rng.pick(&externs);
                    vec![Term { tid: j1, term: Jmp::Call { target: e.tid.clone(), return_: ret_site(rng) } }]
                }
                10 => vec![Term { tid: j1, term: Jmp::CallInd { target: var_expr("RAX"), return_: ret_site(rng) } }],
                11 => vec![Term { tid: j1, term: Jmp::CallOther { description: "syscall".to_string(), return_: ret_site(rng) } }],
                // conditional branch + call-like instruction in second position
                n => {
                    let first = Term { tid: j1, term: Jmp::CBranch { target: target(rng), condition: cond } };
                    let second = match n {
                        12 => Jmp::Call { target: sub_tid(rng.below(n_subs as u64) as usize), return_: ret_site(rng) },
                        13 => Jmp::Call { target: rng.pick(&externs).tid.clone(), return_: ret_site(rng) },
                        14 => Jmp::CallInd { target: var_expr("RAX"), return_: ret_site(rng) },
                        _ => Jmp::CallOther { description: "syscall".to_string(), return_: ret_site(rng) },
                    };
                    vec![first, Term { tid: j2, term: second }]
                }
            };
            blocks.push(Term { tid: blk_tid(i, b), term: Blk { defs, jmps, indirect_jmp_targets: hints } });
        }
        let st = sub_tid(i);
        subs.insert(
            st.clone(),
            Term { tid: st, term: Sub { name: format!("f{}", i), blocks, calling_convention: Some("__stdcall".to_string()) } },
        );
    }
    let entry_points = subs.keys().take(1).cloned().collect();
    Term {
        tid: tid("prog_00001000", "00001000"),
        term: Program {
            subs,
            extern_symbols: k.externs.iter().map(|e| (e.tid.clone(), e.clone())).collect(),
            entry_points,
            address_base_offset: 0,
        },
    }
}

// ------------------------------------------------------------------------------------------------
// raw programs ("as the extractor emits them")
// ------------------------------------------------------------------------------------------------
/// How many irregularities of each kind [`make_raw`] tries to inject (each count is an upper
/// bound drawn uniformly from 0..=n; an injection is skipped when no candidate position exists).
#[derive(Clone)]
pub struct RawKnobs {
    /// branch / conditional-branch targets replaced by a fresh block TID
    pub dangling_jumps: u64,
    /// call targets replaced by a fresh sub TID
    pub dangling_calls: u64,
    /// return sites replaced by a fresh block TID
    pub dangling_rets: u64,
    /// indirect hints replaced by / extended with a fresh block TID
    pub dangling_hints: u64,
    /// non-entry blocks additionally LISTED in a second function (same term, same TIDs)
    pub shared_listed: u64,
    /// jumps / return sites / hints of a second function retargeted to a non-entry block of another one
    pub shared_reached: u64,
    /// non-entry block TIDs duplicated onto another non-entry block
    pub dup_blocks: u64,
    pub dup_defs: u64,
    pub dup_jmps: u64,
}
impl Default for RawKnobs {
    fn default() -> RawKnobs {
        RawKnobs {
            dangling_jumps: 2, dangling_calls: 1, dangling_rets: 1, dangling_hints: 1, shared_listed: 1, shared_reached: 2,
            dup_blocks: 1, dup_defs: 1, dup_jmps: 1,
        }
    }
}

/// How many irregularities of each kind [`make_raw`] actually injected.
#[derive(Default, Clone, Debug)]
pub struct RawStats {
    pub dangling: u64,
    pub shared: u64,
    pub dups: u64,
}

/// TIDs control may continue at inside the same function (targets, return sites, hints)
pub fn intra_succ_tids(b: &Term<Blk>) -> Vec<Tid> {
    let mut v = Vec::new();
    for j in &b.term.jmps {
        match &j.term {
            Jmp::Branch(t) | Jmp::CBranch { target: t, .. } => v.push(t.clone()),
            Jmp::Call { return_: Some(t), .. } | Jmp::CallInd { return_: Some(t), .. } | Jmp::CallOther { return_: Some(t), .. } => {
                v.push(t.clone())
            }
            _ => (),
        }
    }
    v.extend(b.term.indirect_jmp_targets.iter().cloned());
    v
}

/// TID-level closure: all block TIDs reachable from `start` following the successor TIDs of EVERY
/// block of the program that carries a reached TID (conservative when TIDs are duplicated).
fn tid_closure(p: &Program, start: Vec<Tid>) -> HashSet<Tid> {
    let mut by_tid: HashMap<Tid, Vec<&Term<Blk>>> = HashMap::new();
    for s in p.subs.values() {
        for b in &s.term.blocks {
            by_tid.entry(b.tid.clone()).or_default().push(b);
        }
    }
    let mut seen: HashSet<Tid> = HashSet::new();
    let mut work = start;
    while let Some(t) = work.pop() {
        if seen.insert(t.clone()) {
            if let Some(bs) = by_tid.get(&t) {
                for b in bs {
                    work.extend(intra_succ_tids(b));
                }
            }
        }
    }
    seen
}

/// The input class of C09 (mirrors `RawInClass` of spec/Normalize.tla, which is what counts): the
/// entry-block TID of every function is carried by no other block, and no function reaches the
/// entry block of ANOTHER function intraprocedurally.
pub fn raw_in_class(p: &Program) -> bool {
    let entries: Vec<(Tid, Tid)> =
        p.subs.values().filter(|s| !s.term.blocks.is_empty()).map(|s| (s.tid.clone(), s.term.blocks[0].tid.clone())).collect();
    for (st, et) in &entries {
        let mut n = 0;
        for s in p.subs.values() {
            n += s.term.blocks.iter().filter(|b| b.tid == *et).count();
        }
        if n != 1 {
            return false;
        }
        let _ = st;
    }
    for s in p.subs.values() {
        let c = tid_closure(p, s.term.blocks.iter().map(|b| b.tid.clone()).collect());
        if entries.iter().any(|(st, et)| *st != s.tid && c.contains(et)) {
            return false;
        }
    }
    true
}

fn fresh_blk(n: &mut u64) -> Tid {
    *n += 1;
    let a = format!("dead{:04x}", *n);
    tid(&format!("blk_{}", a), &a)
}
fn fresh_sub(n: &mut u64) -> Tid {
    *n += 1;
    let a = format!("dead{:04x}", *n);
    tid(&format!("sub_{}", a), &a)
}

/// Inject the irregularities of `raw` into a well-formed program.  Every single injection is
/// undone if it would leave the input class ([`raw_in_class`]).
pub fn make_raw(rng: &mut Rng, prog: &mut Term<Program>, raw: &RawKnobs) -> RawStats {
    let mut fresh = 0u64;
    let mut stats = RawStats::default();
    let keys: Vec<Tid> = prog.term.subs.keys().cloned().collect();
    // positions
    let blocks_of = |p: &Program| -> Vec<(Tid, usize)> {
        p.subs.values().flat_map(|s| (0..s.term.blocks.len()).map(move |b| (s.tid.clone(), b))).collect()
    };
    let try_apply = |prog: &mut Term<Program>, f: &mut dyn FnMut(&mut Program)| -> u64 {
        let backup = prog.term.clone();
        f(&mut prog.term);
        if !raw_in_class(&prog.term) {
            prog.term = backup;
            0
        } else if prog.term != backup {
            1
        } else {
            0
        }
    };
    // ---- shared blocks --------------------------------------------------------------------
    for _ in 0..rng.below(raw.shared_listed + 1) {
        let cands: Vec<(Tid, usize)> = blocks_of(&prog.term).into_iter().filter(|(_, b)| *b >= 1).collect();
        let hosts: Vec<Tid> = keys.iter().filter(|k| !prog.term.subs[*k].term.blocks.is_empty()).cloned().collect();
        if cands.is_empty() || hosts.len() < 2 {
            break;
        }
        let (a, b) = rng.pick(&cands).clone();
        let host = rng.pick(&hosts).clone();
        if host == a {
            continue;
        }
        let blk = prog.term.subs[&a].term.blocks[b].clone();
        let len = prog.term.subs[&host].term.blocks.len();
        let pos = 1 + rng.below(len as u64) as usize;
        stats.shared += try_apply(prog, &mut |p: &mut Program| p.subs.get_mut(&host).unwrap().term.blocks.insert(pos, blk.clone()));
    }
    for _ in 0..rng.below(raw.shared_reached + 1) {
        let cands: Vec<(Tid, usize)> = blocks_of(&prog.term).into_iter().filter(|(_, b)| *b >= 1).collect();
        let from: Vec<(Tid, usize)> = blocks_of(&prog.term);
        if cands.is_empty() || from.is_empty() {
            break;
        }
        let (a, b) = rng.pick(&cands).clone();
        let (fs, fb) = rng.pick(&from).clone();
        if fs == a {
            continue;
        }
        let t = prog.term.subs[&a].term.blocks[b].tid.clone();
        let which = rng.below(8);
        stats.shared += try_apply(prog, &mut |p: &mut Program| {
            let blk = &mut p.subs.get_mut(&fs).unwrap().term.blocks[fb];
            let mut done = false;
            let n = blk.term.jmps.len();
            if n > 0 {
                let j = (which as usize) % n;
                match &mut blk.term.jmps[j].term {
                    Jmp::Branch(x) | Jmp::CBranch { target: x, .. } => {
                        *x = t.clone();
                        done = true
                    }
                    Jmp::Call { return_: Some(x), .. } | Jmp::CallInd { return_: Some(x), .. } | Jmp::CallOther { return_: Some(x), .. } => {
                        *x = t.clone();
                        done = true
                    }
                    Jmp::BranchInd(_) => {
                        blk.term.indirect_jmp_targets.push(t.clone());
                        done = true
                    }
                    _ => (),
                }
            }
            let _ = done;
        });
    }
    // ---- duplicated TIDs ------------------------------------------------------------------
    for _ in 0..rng.below(raw.dup_blocks + 1) {
        let cands: Vec<(Tid, usize)> = blocks_of(&prog.term).into_iter().filter(|(_, b)| *b >= 1).collect();
        if cands.len() < 2 {
            break;
        }
        let (a, b) = rng.pick(&cands).clone();
        let (c, d) = rng.pick(&cands).clone();
        if (a.clone(), b) == (c.clone(), d) {
            continue;
        }
        let t = prog.term.subs[&a].term.blocks[b].tid.clone();
        stats.dups += try_apply(prog, &mut |p: &mut Program| p.subs.get_mut(&c).unwrap().term.blocks[d].tid = t.clone());
    }
    for _ in 0..rng.below(raw.dup_defs + 1) {
        let pos: Vec<(Tid, usize, usize)> = blocks_of(&prog.term)
            .into_iter()
            .flat_map(|(s, b)| (0..prog.term.subs[&s].term.blocks[b].term.defs.len()).map(move |d| (s.clone(), b, d)).collect::<Vec<_>>())
            .collect();
        if pos.len() < 2 {
            break;
        }
        let (a, b, d) = rng.pick(&pos).clone();
        let (a2, b2, d2) = rng.pick(&pos).clone();
        if (a.clone(), b, d) == (a2.clone(), b2, d2) {
            continue;
        }
        let t = prog.term.subs[&a].term.blocks[b].term.defs[d].tid.clone();
        prog.term.subs.get_mut(&a2).unwrap().term.blocks[b2].term.defs[d2].tid = t;
        stats.dups += 1;
    }
    for _ in 0..rng.below(raw.dup_jmps + 1) {
        let pos: Vec<(Tid, usize, usize)> = blocks_of(&prog.term)
            .into_iter()
            .flat_map(|(s, b)| (0..prog.term.subs[&s].term.blocks[b].term.jmps.len()).map(move |d| (s.clone(), b, d)).collect::<Vec<_>>())
            .collect();
        if pos.len() < 2 {
            break;
        }
        let (a, b, d) = rng.pick(&pos).clone();
        let (a2, b2, d2) = rng.pick(&pos).clone();
        if (a.clone(), b, d) == (a2.clone(), b2, d2) {
            continue;
        }
        let t = prog.term.subs[&a].term.blocks[b].term.jmps[d].tid.clone();
        prog.term.subs.get_mut(&a2).unwrap().term.blocks[b2].term.jmps[d2].tid = t;
        stats.dups += 1;
    }
    // ---- dangling targets (fresh TIDs) ----------------------------------------------------
    let jmp_pos = |p: &Program| -> Vec<(Tid, usize, usize)> {
        p.subs
            .values()
            .flat_map(|s| {
                s.term.blocks.iter().enumerate().flat_map(move |(b, blk)| (0..blk.term.jmps.len()).map(move |j| (s.tid.clone(), b, j)))
            })
            .collect()
    };
    let kinds: [(u64, u8); 3] = [(raw.dangling_jumps, 0), (raw.dangling_calls, 1), (raw.dangling_rets, 2)];
    for (count, kind) in kinds {
        for _ in 0..rng.below(count + 1) {
            let pos: Vec<(Tid, usize, usize)> = jmp_pos(&prog.term)
                .into_iter()
                .filter(|(s, b, j)| {
                    let t = &prog.term.subs[s].term.blocks[*b].term.jmps[*j].term;
                    match kind {
                        0 => matches!(t, Jmp::Branch(_) | Jmp::CBranch { .. }),
                        1 => matches!(t, Jmp::Call { .. }),
                        _ => matches!(
                            t,
                            Jmp::Call { return_: Some(_), .. } | Jmp::CallInd { return_: Some(_), .. } | Jmp::CallOther { return_: Some(_), .. }
                        ),
                    }
                })
                .collect();
            if pos.is_empty() {
                break;
            }
            let (s, b, j) = rng.pick(&pos).clone();
            let t = &mut prog.term.subs.get_mut(&s).unwrap().term.blocks[b].term.jmps[j].term;
            match (kind, t) {
                (0, Jmp::Branch(x)) | (0, Jmp::CBranch { target: x, .. }) => *x = fresh_blk(&mut fresh),
                (1, Jmp::Call { target, .. }) => *target = fresh_sub(&mut fresh),
                (2, Jmp::Call { return_: Some(x), .. })
                | (2, Jmp::CallInd { return_: Some(x), .. })
                | (2, Jmp::CallOther { return_: Some(x), .. }) => *x = fresh_blk(&mut fresh),
                _ => (),
            }
            stats.dangling += 1;
        }
    }
    for _ in 0..rng.below(raw.dangling_hints + 1) {
        let pos: Vec<(Tid, usize)> = blocks_of(&prog.term)
            .into_iter()
            .filter(|(s, b)| prog.term.subs[s].term.blocks[*b].term.jmps.iter().any(|j| matches!(j.term, Jmp::BranchInd(_))))
            .collect();
        if pos.is_empty() {
            break;
        }
        let (s, b) = rng.pick(&pos).clone();
        let hints = &mut prog.term.subs.get_mut(&s).unwrap().term.blocks[b].term.indirect_jmp_targets;
        let f = fresh_blk(&mut fresh);
        if !hints.is_empty() && rng.chance(1, 2) {
            let i = rng.below(hints.len() as u64) as usize;
            hints[i] = f;
        } else {
            let i = rng.below(hints.len() as u64 + 1) as usize;
            hints.insert(i, f);
        }
        stats.dangling += 1;
    }
    debug_assert!(raw_in_class(&prog.term));
    stats
}

/// A raw program: a well-formed one with the irregularities of `raw` injected.
pub fn gen_raw_program(rng: &mut Rng, k: &Knobs, raw: &RawKnobs) -> Term<Program> {
    gen_raw_program_stats(rng, k, raw).0
}
pub fn gen_raw_program_stats(rng: &mut Rng, k: &Knobs, raw: &RawKnobs) -> (Term<Program>, RawStats) {
    let mut p = gen_program(rng, k);
    let st = make_raw(rng, &mut p, raw);
    (p, st)
}

// ------------------------------------------------------------------------------------------------
// lossless program <-> string (for the replay input recorded in the events; TLC ignores it).
// `Program` itself cannot go through serde_json (maps keyed by `Tid`), its parts can.
// ------------------------------------------------------------------------------------------------
pub fn program_to_string(p: &Term<Program>) -> String {
    let v = serde_json::json!({
        "tid": p.tid,
        "subs": p.term.subs.values().collect::<Vec<_>>(),
        "externs": p.term.extern_symbols.values().collect::<Vec<_>>(),
        "entry_points": p.term.entry_points.iter().collect::<Vec<_>>(),
        "base": p.term.address_base_offset,
    });
    serde_json::to_string(&v).unwrap()
}
pub fn program_from_string(s: &str) -> Term<Program> {
    let v: serde_json::Value = serde_json::from_str(s).expect("replay program");
    let subs: Vec<Term<Sub>> = serde_json::from_value(v["subs"].clone()).unwrap();
    let externs: Vec<ExternSymbol> = serde_json::from_value(v["externs"].clone()).unwrap();
    let entry_points: Vec<Tid> = serde_json::from_value(v["entry_points"].clone()).unwrap();
    Term {
        tid: serde_json::from_value(v["tid"].clone()).unwrap(),
        term: Program {
            subs: subs.into_iter().map(|s| (s.tid.clone(), s)).collect(),
            extern_symbols: externs.into_iter().map(|e| (e.tid.clone(), e)).collect(),
            entry_points: entry_points.into_iter().collect(),
            address_base_offset: v["base"].as_u64().unwrap_or(0),
        },
    }
}
