//! Trace emitter: writes cases (one or more ndjson events each) round-robin to shard files and
//! keeps the counts the evidence file reports.  It decides nothing.
use serde_json::Value;
use std::collections::HashSet;
use std::collections::hash_map::DefaultHasher;
use std::hash::{Hash, Hasher};
use std::io::Write;

pub struct Out {
    pub seed: u64,
    pub tier: String,
    files: Vec<std::io::BufWriter<std::fs::File>>,
    dir: String,
    next: usize,
    pub cases: u64,
    pub events: u64,
    per_shard_cases: Vec<u64>,
    nontrivial: HashSet<u64>,
    distinct: HashSet<u64>,
    samples: Vec<Value>,
    pub extra: serde_json::Map<String, Value>,
}

impl Out {
    pub fn new(dir: &str, shards: usize, seed: u64, tier: &str) -> Out {
        std::fs::create_dir_all(dir).unwrap();
        let files = (0..shards)
            .map(|i| {
                std::io::BufWriter::new(
                    std::fs::File::create(format!("{}/shard{:02}.ndjson", dir, i)).unwrap(),
                )
            })
            .collect();
        Out {
            seed,
            tier: tier.to_string(),
            files,
            dir: dir.to_string(),
            next: 0,
            cases: 0,
            events: 0,
            per_shard_cases: vec![0; shards],
            nontrivial: HashSet::new(),
            distinct: HashSet::new(),
            samples: Vec::new(),
            extra: serde_json::Map::new(),
        }
    }
    /// output directory (for side files of a generator)
    pub fn dir(&self) -> &str {
        &self.dir
    }
    pub fn quick(&self) -> bool {
        self.tier != "thorough"
    }
    /// n for quick tier, m for thorough
    pub fn size(&self, quick: u64, thorough: u64) -> u64 {
        if self.quick() {
            quick
        } else {
            thorough
        }
    }
    /// Emit one case. `nontrivial` is the harness-computed feature tag (rule stated per property).
    pub fn emit(&mut self, events: Vec<Value>, nontrivial: bool) {
        let shard = self.next % self.files.len();
        self.next += 1;
        let mut h = DefaultHasher::new();
        for ev in &events {
            let s = serde_json::to_string(ev).unwrap();
            s.hash(&mut h);
            self.files[shard].write_all(s.as_bytes()).unwrap();
            self.files[shard].write_all(b"\n").unwrap();
            self.events += 1;
        }
        let hv = h.finish();
        self.distinct.insert(hv);
        if nontrivial {
            self.nontrivial.insert(hv);
        }
        if self.samples.len() < 3 {
            let s = Value::Array(events.iter().take(4).cloned().collect());
            // keep samples small
            if serde_json::to_string(&s).unwrap().len() < 6000 {
                self.samples.push(s);
            } else if self.samples.is_empty() {
                let t = serde_json::to_string(&s).unwrap();
                self.samples.push(Value::String(t.chars().take(3000).collect::<String>() + " …(truncated)"));
            }
        }
        self.cases += 1;
        self.per_shard_cases[shard] += 1;
    }
    pub fn finish(mut self) {
        for f in self.files.iter_mut() {
            f.flush().unwrap();
        }
        let meta = serde_json::json!({
            "seed": self.seed, "tier": self.tier, "cases": self.cases, "events": self.events,
            "distinct": self.distinct.len(), "distinct_nontrivial": self.nontrivial.len(),
            "shards": self.files.len(), "per_shard_cases": self.per_shard_cases,
            "samples": self.samples, "extra": self.extra,
        });
        std::fs::write(format!("{}/meta.json", self.dir), serde_json::to_string_pretty(&meta).unwrap()).unwrap();
    }
}

/// Run `f`, turning a panic of the code under test into data.
pub fn catch<T, F: FnOnce() -> T + std::panic::UnwindSafe>(f: F) -> Result<T, String> {
    match std::panic::catch_unwind(f) {
        Ok(v) => Ok(v),
        Err(e) => {
            let msg = if let Some(s) = e.downcast_ref::<&str>() {
                s.to_string()
            } else if let Some(s) = e.downcast_ref::<String>() {
                s.clone()
            } else {
                "panic".to_string()
            };
            Err(msg)
        }
    }
}
