//! Seeded generators for abstract-domain INPUT values (intervals with stride / widening hints /
//! delay, data domains, maps, regions) shared by C02, C03, C04.  Generators only choose inputs; they
//! never judge outputs.  All generated intervals are in the input class of the properties:
//! well-formed (start <= end, end on the stride, stride 0 iff singleton) and with widening hints
//! that the public API can produce (lower hint < start, upper hint > end; on or off the stride).
use crate::domenc::{Data, RawIv};
use crate::rng::Rng;
use cwe_checker_lib::abstract_domain::*;
use cwe_checker_lib::intermediate_representation::*;

pub fn smin(w: u64) -> i128 {
    if w >= 16 { i128::MIN } else { -(1i128 << (8 * w - 1)) }
}
pub fn smax(w: u64) -> i128 {
    if w >= 16 { i128::MAX } else { (1i128 << (8 * w - 1)) - 1 }
}
/// two's complement bit vector of w bytes (w <= 16)
pub fn bvs(x: i128, w: u64) -> Bitvector {
    let lo = Bitvector::from_u64(x as u64);
    if w <= 8 {
        if w == 8 { lo } else { lo.into_truncate((8 * w) as usize).unwrap() }
    } else {
        let hi = Bitvector::from_u64((x >> 64) as u64);
        let full = hi.bin_op(BinOpType::Piece, &lo).unwrap();
        if w == 16 { full } else { full.into_truncate((8 * w) as usize).unwrap() }
    }
}
pub fn to_i128(b: &Bitvector) -> i128 {
    b.try_to_i128().unwrap()
}

/// Shape classes of generated intervals.
#[derive(Clone, Copy, PartialEq, Eq, Debug)]
pub enum Size {
    Single,
    Small,  // 2..8 members
    Medium, // 9..48 members
    Large,  // anything up to the full range
    Full,   // [min, max] stride 1
}

pub fn pick_size(rng: &mut Rng) -> Size {
    match rng.below(20) {
        0..=3 => Size::Single,
        4..=11 => Size::Small,
        12..=16 => Size::Medium,
        17..=18 => Size::Large,
        _ => Size::Full,
    }
}

/// Values that hit the case splits of the code: sign boundary, extremes, byte boundaries.
pub fn pick_val(rng: &mut Rng, w: u64) -> i128 {
    let (mn, mx) = (smin(w), smax(w));
    let v = match rng.below(12) {
        0 => mn,
        1 => mn + rng.range(0, 3) as i128,
        2 => mx - rng.range(0, 3) as i128,
        3 => rng.range(-3, 3) as i128,
        4 | 5 => rng.range(-130, 130) as i128,
        6 => {
            // around a power of two
            let k = rng.below(8 * w - 1) as u32;
            let p = 1i128 << k;
            (if rng.chance(1, 2) { p } else { -p }) + rng.range(-2, 2) as i128
        }
        7 => mn / 2 + rng.range(-2, 2) as i128,
        8 => mx / 2 + rng.range(-2, 2) as i128,
        _ => {
            let r = ((rng.next() as u128) << 64 | rng.next() as u128) as i128;
            let span = (mx - mn) + 1;
            mn + r.rem_euclid(span)
        }
    };
    v.clamp(mn, mx)
}

pub fn pick_stride(rng: &mut Rng, w: u64) -> u64 {
    match rng.below(16) {
        0..=4 => 1,
        5 => 2,
        6 => 3,
        7 => 4,
        8 => 8,
        9 => 1 << rng.below((8 * w - 1).min(40)),
        10 => rng.range(5, 17) as u64,
        11 => rng.range(2, 100) as u64,
        12 => 16,
        13 => 6,
        14 if w >= 8 => (rng.range(1, 9) as u64) << 32,
        14 => 12,
        _ => rng.range(2, 12) as u64,
    }
}

/// (start, end, stride) of a well-formed interval of the requested shape.
pub fn rand_bounds(rng: &mut Rng, w: u64, size: Size) -> (i128, i128, u64) {
    let (mn, mx) = (smin(w), smax(w));
    if size == Size::Full {
        return (mn, mx, 1);
    }
    let start = pick_val(rng, w);
    if size == Size::Single {
        return (start, start, 0);
    }
    let stride = pick_stride(rng, w);
    let maxn = ((mx - start) / stride as i128).max(0);
    let want: i128 = match size {
        Size::Small => rng.range(1, 7) as i128,
        Size::Medium => rng.range(8, 47) as i128,
        _ => {
            if rng.chance(1, 3) { maxn } else if maxn > 0 { ((rng.next() as u128) % (maxn as u128 + 1)) as i128 } else { 0 }
        }
    };
    let n = want.min(maxn);
    if n == 0 {
        // no room above the start: move the interval down instead
        let n2 = want.min((start - mn) / stride as i128);
        if n2 == 0 {
            return (start, start, 0);
        }
        return (start - n2 * stride as i128, start, stride);
    }
    (start, start + n * stride as i128, stride)
}

pub fn count(raw: &RawIv) -> u128 {
    if raw.stride == 0 {
        1
    } else {
        ((to_i128(&raw.end) - to_i128(&raw.start)) as u128) / raw.stride as u128 + 1
    }
}

/// Widening hints (outside the interval; on or off the stride) and delay for given bounds.
pub fn rand_hints(rng: &mut Rng, w: u64, start: i128, end: i128, stride: u64, p_hint: u64) -> (Option<i128>, Option<i128>, u64) {
    let (mn, mx) = (smin(w), smax(w));
    let st = stride.max(1) as i128;
    let hint = |below: bool, rng: &mut Rng| -> Option<i128> {
        if !rng.chance(p_hint, 100) {
            return None;
        }
        let room = if below { start - mn } else { mx - end };
        if room <= 0 {
            return None;
        }
        let dist = match rng.below(5) {
            0 => 1,
            1 => st * (rng.range(1, 4) as i128),                    // on the stride
            2 => st * (rng.range(1, 4) as i128) + rng.range(0, (st - 1).min(5) as i64) as i128, // maybe off the stride
            3 => rng.range(1, 40) as i128,
            _ => room,
        }
        .clamp(1, room);
        Some(if below { start - dist } else { end + dist })
    };
    let lo = hint(true, rng);
    let hi = hint(false, rng);
    let len = (end - start) as u128;
    let len64 = if len > u64::MAX as u128 { u64::MAX } else { len as u64 };
    let delay = match rng.below(8) {
        0..=3 => 0,
        4 => len64,
        5 => if len64 > 0 { rng.below(len64.min(1 << 40)) } else { 0 },
        6 => len64.saturating_add(rng.below(5)),
        _ => rng.below(300),
    };
    (lo, hi, delay)
}

/// A well-formed interval domain value of w bytes; `p_hint` = percentage of hints present.
pub fn rand_raw_sized(rng: &mut Rng, w: u64, size: Size, p_hint: u64) -> RawIv {
    let (s, e, st) = rand_bounds(rng, w, size);
    let (lo, hi, delay) = rand_hints(rng, w, s, e, st, p_hint);
    RawIv { start: bvs(s, w), end: bvs(e, w), stride: st, lo: lo.map(|x| bvs(x, w)), hi: hi.map(|x| bvs(x, w)), delay }
}
pub fn rand_raw(rng: &mut Rng, w: u64, p_hint: u64) -> RawIv {
    let size = pick_size(rng);
    // one in ten goes through the real constructor with an end that is not on the stride
    if rng.chance(1, 10) && size != Size::Full && size != Size::Single {
        let (s, e, st) = rand_bounds(rng, w, size);
        let e2 = (e + rng.range(0, (st.max(1) - 1).min(6) as i64) as i128).min(smax(w));
        // (Interval::new panics in the dev profile when end - start exceeds i64: then fall through)
        if let Ok(d) = crate::out::catch(move || IntervalDomain::from(Interval::new(bvs(s, w), bvs(e2, w), st))) {
            return RawIv::of(&d);
        }
    }
    rand_raw_sized(rng, w, size, p_hint)
}
pub fn raw(s: i128, e: i128, st: u64, w: u64) -> RawIv {
    RawIv { start: bvs(s, w), end: bvs(e, w), stride: st, lo: None, hi: None, delay: 0 }
}

/// Names of the abstract identifiers used in generated data domains.
pub const IDS: [&str; 3] = ["RAX", "RBX", "RCX"];

/// A data domain value: subset of {relative targets over IDS, absolute interval, top flag}.
pub fn rand_data(rng: &mut Rng, w: u64, p_hint: u64) -> Data {
    let mut d = Data::new_empty(ByteSize::new(w));
    let mut rel = std::collections::BTreeMap::new();
    for name in IDS {
        if rng.chance(1, 3) {
            rel.insert(crate::domenc::id(name), rand_raw(rng, w, p_hint).build());
        }
    }
    d.set_relative_values(rel);
    if rng.chance(3, 5) {
        d.set_absolute_value(Some(rand_raw(rng, w, p_hint).build()));
    }
    if rng.chance(1, 4) {
        d.set_contains_top_flag();
    }
    d
}
