//! Seeded generator of single P-Code basic blocks "as the Ghidra extractor emits them", built to
//! stress the lifter (C11) and the size discipline of the normalisation passes (C12):
//! register tables with nested sub-registers (lsb 0 and lsb > 0, middle pieces), same-name smaller
//! registers (a varnode smaller than every named register at its offset carries the name of the
//! smallest enclosing register), cast-to-base idioms after sub-register writes and their near
//! misses, loads into sub-registers, RAM varnodes as inputs 0/1/2 and as outputs, SUBPIECE / PIECE
//! / casts whose size lives in the output varnode, temporaries, all mnemonics with operand sizes
//! that are consistent per mnemonic (P-Code manual), all jump kinds incl. conditional jumps on
//! sub-register flags and indirect jumps / calls through RAM operands.
//! It only generates inputs; it decides nothing.
#![allow(dead_code)]
use crate::pcodegen::{self, bin, copy, hex, op, reg, tid, tid_n, tmp, un, Op};
use crate::rng::Rng;
use serde_json::{json, Value};
use std::collections::BTreeSet;

#[derive(Clone, Debug)]
pub struct RegDef {
    pub name: String,
    pub base: String,
    pub lsb: u64,
    pub size: u64,
}

/// A legal register varnode (name, size) and the bytes of the base register it denotes.
#[derive(Clone, Debug)]
pub struct View {
    pub name: String,
    pub size: u64,
    pub base: String,
    pub lsb: u64,
    pub base_size: u64,
    /// same-name smaller register: `size` is smaller than the size of the register called `name`
    pub sns: bool,
}

pub struct Arch {
    pub cpu: &'static str,
    pub regs: Vec<RegDef>,
    pub sp: String,
    pub ptr: u64,
    pub flags: Vec<&'static str>,
    /// a pointer-sized base register that return instructions use as target
    pub pc: &'static str,
    pub views: Vec<View>,
    pub cconv: Value,
    pub datatypes: Value,
}

const SNS_SIZES: [u64; 7] = [1, 2, 3, 4, 6, 8, 16];

fn compute_views(regs: &[RegDef]) -> Vec<View> {
    let base_size = |b: &str| regs.iter().find(|r| r.name == b).map(|r| r.size).unwrap();
    let mut views = Vec::new();
    for r in regs {
        views.push(View { name: r.name.clone(), size: r.size, base: r.base.clone(), lsb: r.lsb, base_size: base_size(&r.base), sns: false });
    }
    // groups of registers at the same position
    let mut groups: Vec<(String, u64)> = regs.iter().map(|r| (r.base.clone(), r.lsb)).collect();
    groups.sort();
    groups.dedup();
    for (b, l) in groups {
        let mut g: Vec<&RegDef> = regs.iter().filter(|r| r.base == b && r.lsb == l).collect();
        g.sort_by_key(|r| r.size);
        let max = g.last().unwrap().size;
        for s in SNS_SIZES {
            if s >= max || g.iter().any(|r| r.size == s) {
                continue;
            }
            let owner = g.iter().find(|r| r.size > s).unwrap();
            views.push(View { name: owner.name.clone(), size: s, base: b.clone(), lsb: l, base_size: base_size(&b), sns: true });
        }
    }
    views
}

/// x86-64-like: the table of pcodegen.rs plus middle pieces of the vector register, registers
/// with a partial family of sub-registers (R8: R8D, R8B only) and registers without any (R10 ...).
pub fn arch64() -> Arch {
    let mut regs: Vec<RegDef> = pcodegen::register_properties()
        .as_array()
        .unwrap()
        .iter()
        .map(|r| RegDef {
            name: r["register"].as_str().unwrap().to_string(),
            base: r["base_register"].as_str().unwrap().to_string(),
            lsb: r["lsb"].as_u64().unwrap(),
            size: r["size"].as_u64().unwrap(),
        })
        .collect();
    for (n, b, l, s) in [("XMM0_Qb", "YMM0", 8, 8), ("XMM0_Da", "YMM0", 0, 4), ("XMM0_Db", "YMM0", 4, 4), ("XMM0_Dc", "YMM0", 8, 4),
                         ("XMM0_Dd", "YMM0", 12, 4), ("R8B", "R8", 0, 1), ("ESP", "RSP", 0, 4), ("SP", "RSP", 0, 2), ("EIP", "RIP", 0, 4),
                         ("CH", "RCX", 1, 1)] {
        regs.push(RegDef { name: n.to_string(), base: b.to_string(), lsb: l, size: s });
    }
    let views = compute_views(&regs);
    Arch { cpu: "x86_64", regs, sp: "RSP".to_string(), ptr: 8, flags: pcodegen::FLAGS.to_vec(), pc: "RIP", views,
           cconv: pcodegen::calling_conventions(), datatypes: pcodegen::datatype_properties() }
}

/// x86-32-like: 4-byte pointers, EAX-family base registers.
pub fn arch32() -> Arch {
    let mut regs = Vec::new();
    let mut add = |n: &str, b: &str, l: u64, s: u64| regs.push(RegDef { name: n.to_string(), base: b.to_string(), lsb: l, size: s });
    for (r32, r16, r8, h8) in [("EAX", "AX", "AL", "AH"), ("EBX", "BX", "BL", "BH"), ("ECX", "CX", "CL", "CH"), ("EDX", "DX", "DL", "")] {
        add(r32, r32, 0, 4);
        add(r16, r32, 0, 2);
        add(r8, r32, 0, 1);
        if !h8.is_empty() {
            add(h8, r32, 1, 1);
        }
    }
    for (r32, r16) in [("ESI", "SI"), ("EDI", "DI"), ("EBP", "BP"), ("ESP", "SP")] {
        add(r32, r32, 0, 4);
        add(r16, r32, 0, 2);
    }
    add("EIP", "EIP", 0, 4);
    for f in pcodegen::FLAGS {
        add(f, f, 0, 1);
    }
    add("XMM0", "XMM0", 0, 16);
    add("XMM0_Qa", "XMM0", 0, 8);
    add("XMM0_Da", "XMM0", 0, 4);
    add("XMM0_Db", "XMM0", 4, 4);
    let views = compute_views(&regs);
    let cconv = json!([{
        "calling_convention": "__cdecl",
        "integer_parameter_register": [],
        "float_parameter_register": [],
        "return_register": ["EAX"],
        "float_return_register": ["XMM0_Qa"],
        "unaffected_register": ["EBX", "EBP", "ESI", "EDI", "ESP"],
        "killed_by_call_register": ["EAX", "ECX", "EDX"]
    }]);
    let datatypes = json!({"char_size": 1, "double_size": 8, "float_size": 4, "integer_size": 4, "long_double_size": 12,
                           "long_long_size": 8, "long_size": 4, "pointer_size": 4, "short_size": 2});
    Arch { cpu: "x86_32", regs, sp: "ESP".to_string(), ptr: 4, flags: pcodegen::FLAGS.to_vec(), pc: "EIP", views, cconv, datatypes }
}

impl Arch {
    pub fn register_properties(&self) -> Value {
        Value::Array(self.regs.iter().map(|r| json!({"register": r.name, "base_register": r.base, "lsb": r.lsb, "size": r.size})).collect())
    }
    pub fn base_regs(&self) -> Vec<&RegDef> {
        self.regs.iter().filter(|r| r.name == r.base).collect()
    }
}

pub const RAM_BASE: u64 = 0x0060_1000;
const RAM_OFFS: [u64; 8] = [0, 1, 2, 4, 8, 12, 16, 24];

const ARITH: [&str; 6] = ["INT_ADD", "INT_SUB", "INT_XOR", "INT_AND", "INT_OR", "INT_MULT"];
// divisions are generated less often: the bit-serial long division of BV.tla is the most expensive
// operation of the reference interpreters
const DIVS: [&str; 4] = ["INT_DIV", "INT_REM", "INT_SDIV", "INT_SREM"];
const SHIFT: [&str; 3] = ["INT_LEFT", "INT_RIGHT", "INT_SRIGHT"];
const COMPARE: [&str; 9] = ["INT_EQUAL", "INT_NOTEQUAL", "INT_LESS", "INT_SLESS", "INT_LESSEQUAL", "INT_SLESSEQUAL", "INT_CARRY", "INT_SCARRY", "INT_SBORROW"];
const BOOLBIN: [&str; 3] = ["BOOL_XOR", "BOOL_AND", "BOOL_OR"];
const CASTS: [&str; 4] = ["INT_ZEXT", "INT_SEXT", "POPCOUNT", "LZCOUNT"];
const FLOATBIN: [&str; 4] = ["FLOAT_ADD", "FLOAT_SUB", "FLOAT_MULT", "FLOAT_DIV"];
const FLOATCMP: [&str; 4] = ["FLOAT_EQUAL", "FLOAT_NOTEQUAL", "FLOAT_LESS", "FLOAT_LESSEQUAL"];
const FLOATUN: [&str; 6] = ["FLOAT_NEG", "FLOAT_ABS", "FLOAT_SQRT", "FLOAT_CEIL", "FLOAT_FLOOR", "FLOAT_ROUND"];
const FLOATCAST: [&str; 3] = ["INT2FLOAT", "FLOAT2FLOAT", "TRUNC"];

/// Block terminator (targets are fixed TIDs chosen at layout; none of them needs to exist).
#[derive(Clone)]
pub enum PTerm {
    Goto,
    Cond { flag: Value },
    IndJmp { target: Value, hints: usize },
    Call { ret: bool },
    CallInd { target: Value, ret: bool },
    CallOther,
    Return { target: Value },
}

pub struct PBlock {
    pub instrs: Vec<Vec<Op>>,
    pub term: PTerm,
    pub feats: BTreeSet<&'static str>,
}

pub struct BlockGen<'a> {
    pub rng: &'a mut Rng,
    pub arch: &'a Arch,
    temps: Vec<(String, u64)>,
    ntemp: u64,
    pub feats: BTreeSet<&'static str>,
    /// generate floating point operations (opaque for the reference semantics)
    pub floats: bool,
}

fn konst(rng: &mut Rng, v: u64, size: u64) -> Value {
    let masked = if size >= 8 { v } else { v & ((1u64 << (8 * size)) - 1) };
    let s = match rng.below(3) {
        0 => format!("{:x}", masked),
        1 => format!("{:0w$x}", masked, w = (2 * size.min(8)) as usize),
        _ => format!("{:016x}", masked),
    };
    json!({"name": null, "value": s, "address": null, "size": size, "is_virtual": false})
}

fn ramvar(addr: u64, size: u64) -> Value {
    json!({"name": null, "value": null, "address": hex(addr), "size": size, "is_virtual": false})
}

impl<'a> BlockGen<'a> {
    pub fn new(rng: &'a mut Rng, arch: &'a Arch) -> Self {
        BlockGen { rng, arch, temps: Vec::new(), ntemp: 0, feats: BTreeSet::new(), floats: true }
    }
    fn arith(&mut self) -> &'static str {
        if self.rng.chance(1, 10) {
            *self.rng.pick(&DIVS)
        } else {
            *self.rng.pick(&ARITH)
        }
    }
    fn size(&mut self) -> u64 {
        // sizes for which register views exist in both tables
        *self.rng.pick(&[1u64, 1, 1, 2, 2, 4, 4, 4, 4, 8, 8, 8, 16, 3])
    }
    fn val(&mut self) -> u64 {
        match self.rng.below(8) {
            0 => 0,
            1 => 1,
            2 => u64::MAX,
            3 => *self.rng.pick(&[0x7f, 0x80, 0xff, 0x100, 0x7fff, 0x8000, 0xffff, 0x7fff_ffff, 0x8000_0000, 0xffff_ffff, 0x8000_0000_0000_0000, 0x7fff_ffff_ffff_ffff]),
            4 => self.rng.below(64),
            5 => RAM_BASE + *self.rng.pick(&RAM_OFFS),
            _ => self.rng.next(),
        }
    }
    fn constant(&mut self, size: u64) -> Value {
        let v = self.val();
        konst(self.rng, v, size)
    }
    fn ram(&mut self, size: u64) -> Value {
        ramvar(RAM_BASE + *self.rng.pick(&RAM_OFFS), size)
    }
    fn note_view(&mut self, v: &View, output: bool) {
        if v.sns {
            self.feats.insert(if output { "sns_out" } else { "sns_in" });
        }
        if v.size < v.base_size {
            self.feats.insert(if output { "subreg_out" } else { "subreg_in" });
            if v.lsb > 0 {
                self.feats.insert(if v.lsb + v.size < v.base_size { "middle_piece" } else { "high_piece" });
            }
        }
    }
    /// a register varnode of the given size (None if the table has none)
    fn view(&mut self, size: u64, output: bool) -> Option<View> {
        let exact: Vec<&View> = self.arch.views.iter().filter(|v| v.size == size && !v.sns).collect();
        let sns: Vec<&View> = self.arch.views.iter().filter(|v| v.size == size && v.sns).collect();
        let v = if !sns.is_empty() && (exact.is_empty() || self.rng.chance(1, 8)) {
            (*self.rng.pick(&sns)).clone()
        } else if !exact.is_empty() {
            // prefer the general purpose families over flags for 1-byte operands half of the time
            (*self.rng.pick(&exact)).clone()
        } else {
            return None;
        };
        self.note_view(&v, output);
        Some(v)
    }
    fn subviews(&self) -> Vec<&'a View> {
        let a: &'a Arch = self.arch;
        a.views.iter().filter(|v| v.size < v.base_size).collect()
    }
    fn new_temp(&mut self, size: u64) -> Value {
        self.ntemp += 1;
        let name = format!("$U{:x}", 0x2a00 + 0x80 * self.ntemp);
        self.temps.push((name.clone(), size));
        tmp(&name, size)
    }
    fn old_temp(&mut self, size: u64) -> Option<Value> {
        let c: Vec<&(String, u64)> = self.temps.iter().filter(|t| t.1 == size).collect();
        if c.is_empty() {
            None
        } else {
            let t = *self.rng.pick(&c);
            Some(tmp(&t.0, t.1))
        }
    }
    fn reg_in(&mut self, size: u64) -> Value {
        match self.view(size, false) {
            Some(v) => reg(&v.name, size),
            None => self.constant(size),
        }
    }
    /// an input operand; `pos` is the operand position (for the RAM feature tags)
    fn input(&mut self, size: u64, pos: usize) -> Value {
        match self.rng.below(20) {
            0..=2 => self.constant(size),
            3 | 4 => {
                self.feats.insert(["ram_in0", "ram_in1", "ram_in2"][pos]);
                self.ram(size)
            }
            5..=7 => match self.old_temp(size) {
                Some(t) => t,
                None => self.reg_in(size),
            },
            _ => self.reg_in(size),
        }
    }
    fn output(&mut self, size: u64) -> Value {
        match self.rng.below(20) {
            0 | 1 => {
                self.feats.insert("ram_out");
                self.ram(size)
            }
            2..=4 => self.new_temp(size),
            _ => match self.view(size, true) {
                Some(v) => reg(&v.name, size),
                None => self.new_temp(size),
            },
        }
    }
    fn pointer(&mut self) -> Value {
        let p = self.arch.ptr;
        match self.rng.below(10) {
            0 => {
                self.feats.insert("ram_pointer");
                self.ram(p)
            }
            1 | 2 => match self.old_temp(p) {
                Some(t) => t,
                None => self.reg_in(p),
            },
            _ => self.reg_in(p),
        }
    }
    fn space_id(&mut self) -> Value {
        konst(self.rng, 0x1b1, self.arch.ptr)
    }
    fn load(&mut self, dst: Value) -> Op {
        let s = self.space_id();
        let p = self.pointer();
        op(dst, "LOAD", s, p, Value::Null)
    }
    fn store(&mut self, val: Value) -> Op {
        let s = self.space_id();
        let p = self.pointer();
        op(Value::Null, "STORE", s, p, val)
    }

    /// one operation with the given output varnode size class; operand sizes consistent per mnemonic
    fn generic(&mut self) -> Vec<Op> {
        let s = self.size();
        match self.rng.below(16) {
            0 | 1 | 2 => {
                let m = self.arith();
                let (a, b) = (self.input(s, 0), self.input(s, 1));
                vec![bin(self.output(s), m, a, b)]
            }
            3 => {
                let m = *self.rng.pick(&SHIFT);
                let sa = *self.rng.pick(&[1u64, 4, 8, s]);
                let a = self.input(s, 0);
                let b = if self.rng.chance(1, 2) { let v = self.rng.below(8 * s + 4); konst(self.rng, v, sa) } else { self.input(sa, 1) };
                vec![bin(self.output(s), m, a, b)]
            }
            4 | 5 => {
                let m = *self.rng.pick(&COMPARE);
                let (a, b) = (self.input(s, 0), self.input(s, 1));
                vec![bin(self.output(1), m, a, b)]
            }
            6 => {
                let m = *self.rng.pick(&BOOLBIN);
                let (a, b) = (self.input(1, 0), self.input(1, 1));
                vec![bin(self.output(1), m, a, b)]
            }
            7 => {
                if self.rng.chance(1, 3) {
                    let a = self.input(1, 0);
                    vec![un(self.output(1), "BOOL_NEGATE", a)]
                } else {
                    let m = *self.rng.pick(&["INT_NEGATE", "INT_2COMP"]);
                    let a = self.input(s, 0);
                    vec![un(self.output(s), m, a)]
                }
            }
            8 => {
                let a = self.input(s, 0);
                vec![copy(self.output(s), a)]
            }
            9 => {
                // casts: the size lives in the output varnode
                let m = *self.rng.pick(&CASTS);
                self.feats.insert("cast");
                let (si, so) = if m == "POPCOUNT" || m == "LZCOUNT" {
                    (s, *self.rng.pick(&[1u64, 2, 4, 8]))
                } else {
                    *self.rng.pick(&[(1u64, 2u64), (1, 4), (1, 8), (2, 4), (2, 8), (4, 8), (3, 4), (4, 16), (8, 16), (2, 3)])
                };
                let a = self.input(si, 0);
                vec![un(self.output(so), m, a)]
            }
            10 => {
                self.feats.insert("piece");
                let (s1, s2) = *self.rng.pick(&[(1u64, 1u64), (2, 2), (4, 4), (8, 8), (1, 2), (2, 1), (3, 1), (1, 3), (2, 6), (4, 12)]);
                let (a, b) = (self.input(s1, 0), self.input(s2, 1));
                vec![bin(self.output(s1 + s2), "PIECE", a, b)]
            }
            11 | 12 => {
                self.feats.insert("subpiece");
                let (si, off, so) = *self.rng.pick(&[(8u64, 0u64, 4u64), (8, 4, 4), (8, 0, 1), (8, 1, 1), (8, 7, 1), (8, 2, 2), (8, 2, 4), (8, 0, 2), (4, 0, 2), (4, 2, 2),
                                                     (4, 1, 1), (4, 1, 2), (4, 3, 1), (2, 1, 1), (2, 0, 1), (16, 8, 8), (16, 0, 8), (16, 4, 4), (16, 12, 4), (16, 6, 2), (8, 1, 3), (4, 0, 3)]);
                let a = self.input(si, 0);
                let o = konst(self.rng, off, 4);
                vec![bin(self.output(so), "SUBPIECE", a, o)]
            }
            13 => {
                let d = self.output(s);
                if d["address"].is_string() {
                    // a LOAD writes a register or a temporary
                    let d = self.new_temp(s);
                    vec![self.load(d)]
                } else {
                    vec![self.load(d)]
                }
            }
            14 => {
                let v = self.input(s, 2);
                vec![self.store(v)]
            }
            _ => self.float_op(),
        }
    }

    fn float_op(&mut self) -> Vec<Op> {
        if !self.floats || !self.rng.chance(1, 3) {
            let s = self.size();
            let a = self.input(s, 0);
            return vec![copy(self.output(s), a)];
        }
        self.feats.insert("float");
        let s = *self.rng.pick(&[4u64, 8]);
        match self.rng.below(5) {
            0 => {
                let m = *self.rng.pick(&FLOATBIN);
                let (a, b) = (self.input(s, 0), self.input(s, 1));
                vec![bin(self.output(s), m, a, b)]
            }
            1 => {
                let m = *self.rng.pick(&FLOATCMP);
                let (a, b) = (self.input(s, 0), self.input(s, 1));
                vec![bin(self.output(1), m, a, b)]
            }
            2 => {
                let m = *self.rng.pick(&FLOATUN);
                let a = self.input(s, 0);
                vec![un(self.output(s), m, a)]
            }
            3 => {
                let a = self.input(s, 0);
                vec![un(self.output(1), "FLOAT_NAN", a)]
            }
            _ => {
                let m = *self.rng.pick(&FLOATCAST);
                let so = *self.rng.pick(&[4u64, 8]);
                let a = self.input(s, 0);
                vec![un(self.output(so), m, a)]
            }
        }
    }

    /// write to a sub-register, followed (or not) by the cast-to-base idiom or one of its near misses
    fn subreg_idiom(&mut self) -> Vec<Op> {
        let subs = self.subviews();
        let sub = (*self.rng.pick(&subs)).clone();
        self.note_view(&sub, true);
        let dst = reg(&sub.name, sub.size);
        let s = sub.size;
        let mut ops = Vec::new();
        match self.rng.below(6) {
            0 => {
                let a = self.input(s, 0);
                ops.push(copy(dst.clone(), a));
            }
            1 | 2 => {
                let m = self.arith();
                let (a, b) = (self.input(s, 0), self.input(s, 1));
                ops.push(bin(dst.clone(), m, a, b));
            }
            3 | 4 => {
                self.feats.insert("load_subreg");
                let l = self.load(dst.clone());
                ops.push(l);
            }
            _ => {
                if s > 1 {
                    let m = *self.rng.pick(&["INT_ZEXT", "INT_SEXT"]);
                    let a = self.input(1, 0);
                    ops.push(un(dst.clone(), m, a));
                } else {
                    let m = *self.rng.pick(&COMPARE);
                    let (a, b) = (self.input(4, 0), self.input(4, 1));
                    ops.push(bin(dst.clone(), m, a, b));
                }
            }
        }
        let cast = |g: &mut Self| -> &'static str {
            if g.floats && g.rng.chance(1, 12) {
                g.feats.insert("float");
                *g.rng.pick(&FLOATCAST)
            } else if s < sub.base_size {
                *g.rng.pick(&CASTS)
            } else {
                "POPCOUNT"
            }
        };
        let base = reg(&sub.base, sub.base_size);
        match self.rng.below(12) {
            0..=4 => {
                self.feats.insert("cast_to_base");
                let m = cast(self);
                ops.push(un(base, m, dst));
            }
            5 => {
                // the cast reads a different view of the same base register
                let others: Vec<&View> = self.arch.views.iter().filter(|v| v.base == sub.base && v.size < v.base_size && (v.name != sub.name || v.size != sub.size)).collect();
                if !others.is_empty() {
                    self.feats.insert("near_miss_cast");
                    let o = (*self.rng.pick(&others)).clone();
                    let m = cast(self);
                    ops.push(un(base, m, reg(&o.name, o.size)));
                }
            }
            6 => {
                // the cast writes a different base register
                let bases: Vec<&RegDef> = self.arch.base_regs().into_iter().filter(|r| r.size > s && r.name != sub.base).collect();
                if !bases.is_empty() {
                    self.feats.insert("near_miss_cast");
                    let b = (*self.rng.pick(&bases)).clone();
                    ops.push(un(reg(&b.name, b.size), *self.rng.pick(&["INT_ZEXT", "INT_SEXT"]), dst));
                }
            }
            7 => {
                // the cast writes a bigger sub-register (or a same-name smaller view) of the same base register
                let bigger: Vec<&View> = self.arch.views.iter().filter(|v| v.base == sub.base && v.lsb == sub.lsb && v.size > s && v.size < v.base_size).collect();
                if !bigger.is_empty() {
                    self.feats.insert("near_miss_cast");
                    let b = (*self.rng.pick(&bigger)).clone();
                    self.note_view(&b, true);
                    ops.push(un(reg(&b.name, b.size), *self.rng.pick(&["INT_ZEXT", "INT_SEXT"]), dst));
                }
            }
            8 => {
                // an unrelated operation between the write and the cast
                let mid = self.generic();
                ops.extend(mid);
                self.feats.insert("near_miss_cast");
                let m = cast(self);
                ops.push(un(base, m, dst));
            }
            9 => {
                // the base register is computed from the sub-register by something that is not a cast
                self.feats.insert("near_miss_cast");
                let z = self.new_temp(sub.base_size);
                if s < sub.base_size {
                    ops.push(un(z.clone(), "INT_ZEXT", dst));
                    let c = self.constant(sub.base_size);
                    ops.push(bin(base, "INT_ADD", z, c));
                }
            }
            _ => (),
        }
        ops
    }

    /// operations whose operands are RAM varnodes in every position the extractor can emit
    fn ram_op(&mut self) -> Vec<Op> {
        let s = self.size();
        match self.rng.below(8) {
            0 => {
                self.feats.insert("ram_in0");
                let a = self.ram(s);
                vec![copy(self.output(s), a)]
            }
            1 => {
                self.feats.insert("ram_in0");
                self.feats.insert("ram_in1");
                let m = self.arith();
                let (a, b) = (self.ram(s), self.ram(s));
                vec![bin(self.output(s), m, a, b)]
            }
            2 => {
                self.feats.insert("ram_in1");
                let m = self.arith();
                let (a, b) = (self.reg_in(s), self.ram(s));
                vec![bin(self.output(s), m, a, b)]
            }
            3 => {
                // read-modify-write of a memory operand
                self.feats.insert("ram_in0");
                self.feats.insert("ram_out");
                let m = self.arith();
                let a = self.ram(s);
                let b = self.input(s, 1);
                vec![bin(a.clone(), m, a, b)]
            }
            4 => {
                self.feats.insert("ram_in2");
                let v = self.ram(s);
                vec![self.store(v)]
            }
            5 => {
                self.feats.insert("ram_pointer");
                let p = self.ram(self.arch.ptr);
                let sid = self.space_id();
                let d = match self.view(s, true) {
                    Some(v) => reg(&v.name, s),
                    None => self.new_temp(s),
                };
                vec![op(d, "LOAD", sid, p, Value::Null)]
            }
            6 => {
                self.feats.insert("ram_pointer");
                let p = self.ram(self.arch.ptr);
                let sid = self.space_id();
                let v = self.input(s, 2);
                vec![op(Value::Null, "STORE", sid, p, v)]
            }
            _ => {
                // cast / subpiece with RAM input and RAM output
                self.feats.insert("ram_in0");
                self.feats.insert("ram_out");
                let (si, so) = *self.rng.pick(&[(1u64, 4u64), (2, 8), (4, 8), (1, 2)]);
                let a = self.ram(si);
                let d = self.ram(so);
                vec![un(d, *self.rng.pick(&CASTS), a)]
            }
        }
    }

    /// temporary defined and used by the following operation
    fn temp_chain(&mut self) -> Vec<Op> {
        let s = self.size();
        let m1 = self.arith();
        let m2 = self.arith();
        let (a, b) = (self.input(s, 0), self.input(s, 1));
        let c = self.input(s, 1);
        let t = self.new_temp(s); // created after the inputs are chosen: a temporary is never read before it is written
        let first = bin(t.clone(), m1, a, b);
        let second = if self.rng.chance(1, 2) { bin(self.output(s), m2, t, c) } else { bin(self.output(s), m2, c, t) };
        vec![first, second]
    }

    pub fn instr(&mut self) -> Vec<Op> {
        match self.rng.below(10) {
            0..=2 => self.subreg_idiom(),
            3 | 4 => self.ram_op(),
            5 => self.temp_chain(),
            _ => self.generic(),
        }
    }

    fn flag_operand(&mut self) -> Value {
        match self.rng.below(6) {
            0 | 1 => reg(*self.rng.pick(&self.arch.flags), 1),
            2 => match self.old_temp(1) {
                Some(t) => t,
                None => reg(*self.rng.pick(&self.arch.flags), 1),
            },
            _ => {
                self.feats.insert("cbranch_subreg");
                let subs: Vec<&View> = self.arch.views.iter().filter(|v| v.size == 1 && v.base_size > 1).collect();
                let v = (*self.rng.pick(&subs)).clone();
                self.note_view(&v, false);
                reg(&v.name, 1)
            }
        }
    }
    fn target_operand(&mut self) -> Value {
        let p = self.arch.ptr;
        match self.rng.below(8) {
            0 | 1 | 2 => {
                self.feats.insert("ind_ram");
                self.ram(p)
            }
            3 => match self.old_temp(p) {
                Some(t) => t,
                None => self.reg_in(p),
            },
            4 => {
                // a (sub-)register that is smaller than a pointer
                let s = if p == 8 { 4 } else { 2 };
                self.reg_in(s)
            }
            _ => self.reg_in(p),
        }
    }

    pub fn block(mut self, max_instrs: u64) -> PBlock {
        let n = 1 + self.rng.below(max_instrs);
        let mut instrs = Vec::new();
        for _ in 0..n {
            let i = self.instr();
            if !i.is_empty() {
                instrs.push(i);
            }
        }
        let term = match self.rng.below(12) {
            0 | 1 => PTerm::Goto,
            2..=4 => {
                // usually the flag is computed by the block
                if self.rng.chance(2, 3) {
                    let m = *self.rng.pick(&COMPARE);
                    let s = self.size();
                    let (a, b) = (self.input(s, 0), self.input(s, 1));
                    let f = match self.rng.below(3) {
                        0 => reg(*self.rng.pick(&self.arch.flags), 1),
                        1 => self.new_temp(1),
                        _ => self.flag_operand(),
                    };
                    instrs.push(vec![bin(f.clone(), m, a, b)]);
                    PTerm::Cond { flag: f }
                } else {
                    PTerm::Cond { flag: self.flag_operand() }
                }
            }
            5 | 6 => PTerm::IndJmp { target: self.target_operand(), hints: self.rng.below(3) as usize },
            7 => PTerm::Call { ret: self.rng.chance(4, 5) },
            8 | 9 => PTerm::CallInd { target: self.target_operand(), ret: self.rng.chance(4, 5) },
            10 => PTerm::CallOther,
            _ => {
                let t = if self.rng.chance(2, 3) { reg(self.arch.pc, self.arch.ptr) } else { let p = self.arch.ptr; self.reg_in(p) };
                PTerm::Return { target: t }
            }
        };
        PBlock { instrs, term, feats: self.feats }
    }
}

pub const BLOCK_ADDR: u64 = 0x0040_1000;

/// The extractor's JSON of a project that consists of one function with the one block.
pub fn block_project(arch: &Arch, b: &PBlock) -> Value {
    let mut defs = Vec::new();
    let mut a = BLOCK_ADDR;
    for ins in &b.instrs {
        for (n, o) in ins.iter().enumerate() {
            defs.push(json!({"tid": tid_n("instr", a, n), "term": {"lhs": o.lhs, "rhs": {"mnemonic": o.mnemonic, "input0": o.inputs[0], "input1": o.inputs[1], "input2": o.inputs[2]}}}));
        }
        a += 4;
    }
    let ja = a;
    let direct = |t: Value| json!({"Direct": t});
    let jmp = |n: usize, mnemonic: &str, goto: Value, call: Value, cond: Value, hints: Value| {
        json!({"tid": tid_n("instr", ja, n), "term": {"mnemonic": mnemonic, "goto": goto, "call": call, "condition": cond, "target_hints": hints}})
    };
    let far = tid("blk", BLOCK_ADDR + 0x100);
    let fall = tid("blk", ja + 4);
    let callee = tid("sub", 0x0040_2000);
    let ret = |r: bool| if r { direct(fall.clone()) } else { Value::Null };
    let jmps = match &b.term {
        PTerm::Goto => vec![jmp(0, "BRANCH", direct(far), Value::Null, Value::Null, Value::Null)],
        PTerm::Cond { flag } => vec![
            jmp(0, "CBRANCH", direct(far), Value::Null, flag.clone(), Value::Null),
            jmp(1, "BRANCH", direct(fall), Value::Null, Value::Null, Value::Null),
        ],
        PTerm::IndJmp { target, hints } => vec![jmp(0, "BRANCHIND", json!({"Indirect": target}), Value::Null, Value::Null,
            Value::Array((0..*hints).map(|h| json!(hex(BLOCK_ADDR + 0x100 + 0x10 * h as u64))).collect()))],
        PTerm::Call { ret: r } => vec![jmp(0, "CALL", Value::Null, json!({"target": direct(callee), "return": ret(*r), "call_string": null}), Value::Null, Value::Null)],
        PTerm::CallInd { target, ret: r } => vec![jmp(0, "CALLIND", Value::Null, json!({"target": {"Indirect": target}, "return": ret(*r), "call_string": null}), Value::Null, Value::Null)],
        PTerm::CallOther => vec![jmp(0, "CALLOTHER", Value::Null, json!({"target": null, "return": direct(fall), "call_string": "syscall"}), Value::Null, Value::Null)],
        PTerm::Return { target } => vec![jmp(0, "RETURN", json!({"Indirect": target}), Value::Null, Value::Null, Value::Null)],
    };
    let block = json!({"tid": tid("blk", BLOCK_ADDR), "term": {"defs": defs, "jmps": jmps}});
    let sub = json!({"tid": tid("sub", BLOCK_ADDR), "term": {"name": "f", "blocks": [block], "calling_convention": arch.cconv[0]["calling_convention"]}});
    json!({
        "program": {"tid": tid("prog", pcodegen::IMAGE_BASE), "term": {"subs": [sub], "extern_symbols": [],
                    "entry_points": [tid("sub", BLOCK_ADDR)], "image_base": format!("{:x}", pcodegen::IMAGE_BASE)}},
        "cpu_architecture": arch.cpu,
        "stack_pointer_register": reg(&arch.sp, arch.ptr),
        "register_properties": arch.register_properties(),
        "register_calling_convention": arch.cconv,
        "datatype_properties": arch.datatypes,
    })
}

/// Initial register files: a JSON object base register -> little-endian bytes, with a value for every
/// base register (flags hold 0 or 1).
pub fn inits(rng: &mut Rng, arch: &Arch, n: usize) -> Value {
    let mut all = Vec::new();
    for _ in 0..n {
        let mut file = serde_json::Map::new();
        for r in arch.base_regs() {
            let bytes: Vec<u8> = if r.size == 1 {
                vec![rng.below(2) as u8]
            } else {
                match rng.below(8) {
                    0 => vec![0; r.size as usize],
                    1 => vec![0xff; r.size as usize],
                    2 => {
                        // a pointer into the RAM window
                        let v = RAM_BASE + *rng.pick(&RAM_OFFS);
                        (0..r.size).map(|i| if i < 8 { (v >> (8 * i)) as u8 } else { 0 }).collect()
                    }
                    3 => (0..r.size).map(|i| if i + 1 == r.size { 0x80 } else { 0 }).collect(),
                    4 => (0..r.size).map(|i| if i == 0 { rng.below(256) as u8 } else { 0 }).collect(),
                    _ => (0..r.size).map(|_| rng.below(256) as u8).collect(),
                }
            };
            file.insert(r.name.clone(), json!(bytes));
        }
        all.push(Value::Object(file));
    }
    Value::Array(all)
}
