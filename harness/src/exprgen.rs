//! Seeded generator of small IR functions (C10, reused by C18 for the project skeleton).
//! It only produces INPUTS for the real normalisation passes; nothing here decides anything.
//!
//! Input class (DESIGN.md C10 / section 7, "modelled assumptions"):
//!  * well-sized expressions over all integer operations, no float / Unknown expressions;
//!  * temporaries are defined before use inside their block (so never live across calls);
//!  * 1-byte physical registers are flags and are only assigned boolean (0/1) expressions;
//!    BoolAnd/BoolOr/BoolXOr/BoolNegate are only applied to boolean expressions;
//!  * the only masks applied to the stack pointer are alignment masks `SP := SP & -2^k`, at most one
//!    per function, in a prologue that is executed exactly once with the entry SP (no jump targets the
//!    prologue blocks); the generated initial SP is aligned to 4096 >= every mask;
//!  * blocks have at most two jumps, a conditional jump is followed by an unconditional one.
#![allow(dead_code)]
use crate::enc::bv_i64;
use crate::irenc::mk_tid;
use crate::rng::Rng;
use cwe_checker_lib::intermediate_representation::*;
use std::collections::{BTreeMap, BTreeSet};

pub const GPRS: [&str; 7] = ["RAX", "RBX", "RCX", "RDX", "RSI", "RDI", "RBP"];
pub const FLAGS: [&str; 4] = ["ZF", "CF", "SF", "OF"];
pub const SP: &str = "RSP";

pub fn reg(name: &str, size: u64) -> Variable {
    Variable { name: name.to_string(), size: ByteSize::new(size), is_temp: false }
}
pub fn tmp(name: &str, size: u64) -> Variable {
    Variable { name: name.to_string(), size: ByteSize::new(size), is_temp: true }
}
pub fn var(v: &Variable) -> Expression {
    Expression::Var(v.clone())
}
pub fn cst(x: i64, size: u64) -> Expression {
    Expression::Const(bv_i64(x, size))
}
pub fn bin(op: BinOpType, l: Expression, r: Expression) -> Expression {
    Expression::BinOp { op, lhs: Box::new(l), rhs: Box::new(r) }
}
pub fn un(op: UnOpType, a: Expression) -> Expression {
    Expression::UnOp { op, arg: Box::new(a) }
}
pub fn cast(op: CastOpType, size: u64, a: Expression) -> Expression {
    Expression::Cast { op, size: ByteSize::new(size), arg: Box::new(a) }
}
pub fn subpiece(low: u64, size: u64, a: Expression) -> Expression {
    Expression::Subpiece { low_byte: ByteSize::new(low), size: ByteSize::new(size), arg: Box::new(a) }
}
pub fn sp_var() -> Variable {
    reg(SP, 8)
}

/// Project skeleton: x86_64-like register file (7 GPRs + RSP of 8 bytes, 4 one-byte flags), one calling
/// convention, empty memory image.
pub fn mk_project(subs: Vec<Term<Sub>>, externs: Vec<ExternSymbol>) -> Project {
    let mut register_set = BTreeSet::new();
    for r in GPRS {
        register_set.insert(reg(r, 8));
    }
    register_set.insert(sp_var());
    for f in FLAGS {
        register_set.insert(reg(f, 1));
    }
    let cconv = CallingConvention {
        name: "__stdcall".to_string(),
        integer_parameter_register: vec![reg("RDI", 8), reg("RSI", 8), reg("RDX", 8), reg("RCX", 8)],
        float_parameter_register: vec![],
        integer_return_register: vec![reg("RAX", 8)],
        float_return_register: vec![],
        callee_saved_register: vec![reg("RBX", 8), reg("RBP", 8)],
    };
    let program = Program {
        subs: subs.into_iter().map(|s| (s.tid.clone(), s)).collect(),
        extern_symbols: externs.into_iter().map(|e| (e.tid.clone(), e)).collect(),
        entry_points: BTreeSet::new(),
        address_base_offset: 0,
    };
    Project {
        program: Term { tid: Tid::new("prog_1000"), term: program },
        cpu_architecture: "x86_64".to_string(),
        stack_pointer_register: sp_var(),
        calling_conventions: BTreeMap::from([("__stdcall".to_string(), cconv)]),
        register_set,
        datatype_properties: DatatypeProperties {
            char_size: ByteSize::new(1),
            double_size: ByteSize::new(8),
            float_size: ByteSize::new(4),
            integer_size: ByteSize::new(4),
            long_double_size: ByteSize::new(8),
            long_long_size: ByteSize::new(8),
            long_size: ByteSize::new(8),
            pointer_size: ByteSize::new(8),
            short_size: ByteSize::new(2),
        },
        runtime_memory_image: RuntimeMemoryImage::empty(true),
    }
}

pub fn mk_extern(name: &str, addr: &str, params: Vec<Arg>, no_return: bool) -> ExternSymbol {
    ExternSymbol {
        tid: mk_tid(&format!("sub_{}", addr), addr),
        addresses: vec![addr.to_string()],
        name: name.to_string(),
        calling_convention: Some("__stdcall".to_string()),
        parameters: params,
        return_values: vec![Arg::from_var(reg("RAX", 8), None)],
        no_return,
        has_var_args: false,
    }
}

// ------------------------------------------------------------------------------------------------
// typed expression generator
// ------------------------------------------------------------------------------------------------
#[derive(Clone, Copy, PartialEq, Eq, Debug)]
pub enum Ty {
    Bool,
    Int(u64),
}
impl Ty {
    pub fn size(self) -> u64 {
        match self {
            Ty::Bool => 1,
            Ty::Int(s) => s,
        }
    }
}

/// Per-block generation context: the temporaries already defined in this block.
#[derive(Default, Clone)]
pub struct Ctx {
    pub temps: Vec<(Variable, Ty)>,
    pub next_temp: u64,
}
impl Ctx {
    pub fn fresh(&mut self, ty: Ty) -> Variable {
        self.next_temp += 1;
        let tag = if ty == Ty::Bool { "b".to_string() } else { ty.size().to_string() };
        let v = tmp(&format!("$U{}_{}", self.next_temp, tag), ty.size());
        v
    }
    pub fn define(&mut self, v: &Variable, ty: Ty) {
        self.temps.retain(|(x, _)| x != v);
        self.temps.push((v.clone(), ty));
    }
    fn temps_of(&self, ty: Ty) -> Vec<&Variable> {
        self.temps
            .iter()
            .filter(|(_, t)| *t == ty || (ty == Ty::Int(1) && *t == Ty::Bool))
            .map(|(v, _)| v)
            .collect()
    }
}

pub struct ExprGen<'a> {
    pub rng: &'a mut Rng,
    /// registers whose use is discouraged (e.g. SP in arithmetic) are still allowed at low probability
    pub sp_weight: u64,
}

const CMP_OPS: [BinOpType; 9] = [
    BinOpType::IntEqual,
    BinOpType::IntNotEqual,
    BinOpType::IntLess,
    BinOpType::IntSLess,
    BinOpType::IntLessEqual,
    BinOpType::IntSLessEqual,
    BinOpType::IntCarry,
    BinOpType::IntSCarry,
    BinOpType::IntSBorrow,
];
const ARITH_OPS: [BinOpType; 10] = [
    BinOpType::IntAdd,
    BinOpType::IntSub,
    BinOpType::IntAnd,
    BinOpType::IntOr,
    BinOpType::IntXOr,
    BinOpType::IntMult,
    BinOpType::IntDiv,
    BinOpType::IntRem,
    BinOpType::IntSDiv,
    BinOpType::IntSRem,
];
const SHIFT_OPS: [BinOpType; 3] = [BinOpType::IntLeft, BinOpType::IntRight, BinOpType::IntSRight];

impl<'a> ExprGen<'a> {
    pub fn boundary(&mut self, size: u64) -> i64 {
        let bits = (size * 8) as u32;
        let min = if bits == 64 { i64::MIN } else { -(1i64 << (bits - 1)) };
        let max = if bits == 64 { i64::MAX } else { (1i64 << (bits - 1)) - 1 };
        match self.rng.below(12) {
            0 => 0,
            1 => 1,
            2 => -1,
            3 => 2,
            4 => min,
            5 => max,
            6 => 8,
            7 => 16,
            8 => -8,
            9 => self.rng.range(-300, 300),
            10 => 0x7f,
            _ => self.rng.next() as i64,
        }
    }
    pub fn gpr(&mut self) -> Variable {
        if self.rng.below(100) < self.sp_weight {
            sp_var()
        } else {
            reg(*self.rng.pick(&GPRS), 8)
        }
    }
    pub fn leaf(&mut self, ty: Ty, ctx: &Ctx) -> Expression {
        let temps = ctx.temps_of(ty);
        match ty {
            Ty::Bool => {
                if !temps.is_empty() && self.rng.chance(1, 3) {
                    var(*self.rng.pick(&temps))
                } else if self.rng.chance(1, 12) {
                    cst(self.rng.below(2) as i64, 1)
                } else {
                    var(&reg(*self.rng.pick(&FLAGS), 1))
                }
            }
            Ty::Int(8) => {
                if !temps.is_empty() && self.rng.chance(1, 3) {
                    var(*self.rng.pick(&temps))
                } else if self.rng.chance(1, 4) {
                    let c = self.boundary(8);
                    cst(c, 8)
                } else {
                    var(&self.gpr())
                }
            }
            Ty::Int(s) => {
                if !temps.is_empty() && self.rng.chance(1, 2) {
                    var(*self.rng.pick(&temps))
                } else if self.rng.chance(1, 3) {
                    let c = self.boundary(s);
                    cst(c, s)
                } else if s == 1 && self.rng.chance(1, 4) {
                    var(&reg(*self.rng.pick(&FLAGS), 1))
                } else if s < 8 {
                    let low = if self.rng.chance(2, 3) { 0 } else { self.rng.below(8 - s + 1) };
                    subpiece(low, s, var(&self.gpr()))
                } else {
                    // 16 bytes
                    bin(BinOpType::Piece, var(&self.gpr()), var(&self.gpr()))
                }
            }
        }
    }
    fn int_size(&mut self) -> u64 {
        *self.rng.pick(&[8, 8, 8, 8, 4, 4, 2, 1])
    }
    /// the comparison idioms that `substitute_trivial_operations` rewrites
    fn bool_idiom(&mut self, depth: u32, ctx: &Ctx) -> Expression {
        use BinOpType::*;
        let s = self.int_size();
        let x = self.expr(Ty::Int(s), depth.saturating_sub(1).min(1), ctx);
        let y = self.expr(Ty::Int(s), depth.saturating_sub(1).min(1), ctx);
        match self.rng.below(8) {
            0 | 1 => {
                // (x - y) ==/!= c, c in {0,1,2}, both operand orders
                let c = cst(*self.rng.pick(&[0, 1, 1, 2]), s);
                let d = bin(IntSub, x, y);
                let op = if self.rng.chance(1, 2) { IntEqual } else { IntNotEqual };
                if self.rng.chance(1, 2) {
                    bin(op, d, c)
                } else {
                    bin(op, c, d)
                }
            }
            2 | 3 => {
                // (x < y) || (x == y)  ->  x <= y   (signed and unsigned, operands possibly swapped)
                let lt = if self.rng.chance(1, 2) { IntLess } else { IntSLess };
                let l = bin(lt, x.clone(), y.clone());
                let e = if self.rng.chance(1, 2) { bin(IntEqual, x, y) } else { bin(IntEqual, y, x) };
                if self.rng.chance(1, 2) {
                    bin(BoolOr, l, e)
                } else {
                    bin(BoolOr, e, l)
                }
            }
            4 | 5 => {
                // (x <= y) && (x != y)  ->  x < y
                let le = if self.rng.chance(1, 2) { IntLessEqual } else { IntSLessEqual };
                let l = bin(le, x.clone(), y.clone());
                let e = if self.rng.chance(1, 2) { bin(IntNotEqual, x, y) } else { bin(IntNotEqual, y, x) };
                if self.rng.chance(1, 2) {
                    bin(BoolAnd, l, e)
                } else {
                    bin(BoolAnd, e, l)
                }
            }
            _ => {
                // ((x - y) s< 0) !=/== (x sborrow y)
                let neg = bin(IntSLess, bin(IntSub, x.clone(), y.clone()), cst(0, s));
                let bor = bin(IntSBorrow, x, y);
                let op = if self.rng.chance(1, 2) { IntNotEqual } else { IntEqual };
                if self.rng.chance(1, 2) {
                    bin(op, neg, bor)
                } else {
                    bin(op, bor, neg)
                }
            }
        }
    }
    fn int_idiom(&mut self, s: u64, depth: u32, ctx: &Ctx) -> Expression {
        use BinOpType::*;
        let d = depth.saturating_sub(1).min(1);
        let x = self.expr(Ty::Int(s), d, ctx);
        match self.rng.below(12) {
            0 => {
                let op = *self.rng.pick(&[IntAnd, IntOr, IntXOr, IntSub, IntAdd]);
                bin(op, x.clone(), x)
            }
            1 => {
                // op with 0 / -1 / 1 constants on either side
                let c = cst(*self.rng.pick(&[0, -1, 1]), s);
                let op = *self.rng.pick(&[IntAnd, IntOr, IntXOr, IntAdd, IntSub, IntMult]);
                if self.rng.chance(1, 2) {
                    bin(op, x, c)
                } else {
                    bin(op, c, x)
                }
            }
            2 => {
                let (c1, c2) = (self.boundary(s), self.boundary(s));
                bin(IntAdd, bin(IntAdd, x, cst(c1, s)), cst(c2, s))
            }
            3 => {
                let (c1, c2) = (self.boundary(s), self.boundary(s));
                bin(IntSub, bin(IntSub, x, cst(c1, s)), cst(c2, s))
            }
            4 => {
                let (c1, c2) = (self.boundary(s), self.boundary(s));
                bin(IntAdd, bin(IntAdd, cst(c1, s), x), cst(c2, s))
            }
            5 => {
                let (c1, c2) = (self.boundary(s), self.boundary(s));
                let (o1, o2) = (*self.rng.pick(&[IntAdd, IntSub]), *self.rng.pick(&[IntAdd, IntSub]));
                bin(o2, bin(o1, x, cst(c1, s)), cst(c2, s))
            }
            6 if s <= 8 => {
                // subpiece(0, s, ext(x)) and subpiece of a wider extension
                let op = if self.rng.chance(1, 2) { CastOpType::IntZExt } else { CastOpType::IntSExt };
                let wide = if s < 8 { 8 } else { 16 };
                let low = if self.rng.chance(3, 4) { 0 } else { self.rng.below(wide - s + 1) };
                subpiece(low, s, cast(op, wide, x))
            }
            7 if s <= 8 => {
                // subpiece of piece: exactly the high part, exactly the low part, or something in between
                let y = self.expr(Ty::Int(s), d, ctx);
                let p = bin(Piece, x, y);
                let low = *self.rng.pick(&[0, s, s / 2]);
                subpiece(low, s, p)
            }
            8 if s < 8 => {
                // subpiece of subpiece
                let w = self.expr(Ty::Int(8), d, ctx);
                let mid = (s + 1).max(self.rng.range(s as i64, 7) as u64);
                let l1 = self.rng.below(8 - mid + 1);
                let l2 = self.rng.below(mid - s + 1);
                subpiece(l2, s, subpiece(l1, mid, w))
            }
            9 if s >= 4 => {
                // ext(ext(z))
                let op = if self.rng.chance(1, 2) { CastOpType::IntZExt } else { CastOpType::IntSExt };
                let op2 = if self.rng.chance(3, 4) { op } else if op == CastOpType::IntZExt { CastOpType::IntSExt } else { CastOpType::IntZExt };
                let z = self.expr(Ty::Int(1), d, ctx);
                cast(op2, s, cast(op, s / 2, z))
            }
            10 => {
                let op = if self.rng.chance(1, 2) { UnOpType::Int2Comp } else { UnOpType::IntNegate };
                let op2 = if self.rng.chance(3, 4) { op } else if op == UnOpType::Int2Comp { UnOpType::IntNegate } else { UnOpType::Int2Comp };
                un(op2, un(op, x))
            }
            _ => {
                // same-size "extension" (removed by the optimiser)
                bin(IntXOr, x.clone(), bin(IntXOr, x, cst(0, s)))
            }
        }
    }
    pub fn expr(&mut self, ty: Ty, depth: u32, ctx: &Ctx) -> Expression {
        use BinOpType::*;
        if depth == 0 || self.rng.chance(1, 5) {
            return self.leaf(ty, ctx);
        }
        let d = depth - 1;
        match ty {
            Ty::Bool => match self.rng.below(20) {
                0..=7 => {
                    let s = self.int_size();
                    let op = *self.rng.pick(&CMP_OPS);
                    let l = self.expr(Ty::Int(s), d, ctx);
                    let r = self.expr(Ty::Int(s), d, ctx);
                    bin(op, l, r)
                }
                8..=10 => {
                    let op = *self.rng.pick(&[BoolAnd, BoolOr, BoolXOr, IntAnd, IntOr, IntXOr]);
                    let l = self.expr(Ty::Bool, d, ctx);
                    let r = if self.rng.chance(1, 5) {
                        cst(self.rng.below(2) as i64, 1)
                    } else if self.rng.chance(1, 6) {
                        l.clone()
                    } else {
                        self.expr(Ty::Bool, d, ctx)
                    };
                    if self.rng.chance(1, 2) {
                        bin(op, l, r)
                    } else {
                        bin(op, r, l)
                    }
                }
                11..=13 => {
                    let a = self.expr(Ty::Bool, d, ctx);
                    if self.rng.chance(1, 4) {
                        un(UnOpType::BoolNegate, un(UnOpType::BoolNegate, a))
                    } else {
                        un(UnOpType::BoolNegate, a)
                    }
                }
                _ => self.bool_idiom(depth, ctx),
            },
            Ty::Int(s) => match self.rng.below(20) {
                0..=6 => {
                    // division is rare: it is irrelevant to the optimiser and expensive for the TLC oracle
                    let op = if self.rng.chance(1, 16) { *self.rng.pick(&ARITH_OPS[6..]) } else { *self.rng.pick(&ARITH_OPS[..6]) };
                    let l = self.expr(Ty::Int(s), d, ctx);
                    let r = self.expr(Ty::Int(s), d, ctx);
                    bin(op, l, r)
                }
                7 => {
                    let op = *self.rng.pick(&SHIFT_OPS);
                    let l = self.expr(Ty::Int(s), d, ctx);
                    let r = if self.rng.chance(2, 3) {
                        let amount = *self.rng.pick(&[0, 1, 3, 7, 8, 31, 63, 64, 65]);
                        cst(amount, *self.rng.pick(&[1, s.min(8)]))
                    } else {
                        let asz = *self.rng.pick(&[1, s.min(8)]);
                        self.expr(Ty::Int(asz), d, ctx)
                    };
                    bin(op, l, r)
                }
                8 => {
                    let op = if self.rng.chance(1, 2) { UnOpType::Int2Comp } else { UnOpType::IntNegate };
                    un(op, self.expr(Ty::Int(s), d, ctx))
                }
                9 | 10 if s >= 2 => {
                    let from = *self.rng.pick(&[1u64, 2, 4].iter().filter(|x| **x < s).cloned().collect::<Vec<_>>());
                    let op = if self.rng.chance(1, 2) { CastOpType::IntZExt } else { CastOpType::IntSExt };
                    let inner = if from == 1 && self.rng.chance(1, 2) { Ty::Bool } else { Ty::Int(from) };
                    cast(op, s, self.expr(inner, d, ctx))
                }
                11 => {
                    let from = self.int_size();
                    let op = if self.rng.chance(1, 2) { CastOpType::PopCount } else { CastOpType::LzCount };
                    cast(op, s, self.expr(Ty::Int(from), d, ctx))
                }
                12 if s >= 2 && s <= 8 => {
                    let hi = *self.rng.pick(&(1..s).collect::<Vec<_>>());
                    let l = self.expr(Ty::Int(hi), d, ctx);
                    let r = self.expr(Ty::Int(s - hi), d, ctx);
                    bin(Piece, l, r)
                }
                13 | 14 if s < 8 => {
                    let low = self.rng.below(8 - s + 1);
                    subpiece(low, s, self.expr(Ty::Int(8), d, ctx))
                }
                15 if s == 1 => self.expr(Ty::Bool, d, ctx),
                _ => self.int_idiom(s, depth, ctx),
            },
        }
    }
}
