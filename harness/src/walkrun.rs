//! Runs the REAL analyses / checkers of cwe_checker on a `Project` exactly as the pipeline does
//! (`pipeline/results.rs`: graph -> AnalysisResults -> function signatures -> pointer inference ->
//! `check_cwe`) and projects their results to JSON.  Decides nothing.
#![allow(dead_code)]
use crate::out::catch;
use cwe_checker_lib::abstract_domain::AbstractLocation;
use cwe_checker_lib::analysis::graph::get_program_cfg;
use cwe_checker_lib::intermediate_representation::*;
use cwe_checker_lib::pipeline::AnalysisResults;
use cwe_checker_lib::utils::log::CweWarning;
use serde_json::{json, Value};
use std::panic::AssertUnwindSafe;

/// Mechanical projection of a warning: the structured fields verbatim plus the description split at
/// white space (CWE332 carries its symbols only in the description).
pub fn warning(w: &CweWarning) -> Value {
    json!({"name": w.name, "addresses": w.addresses, "tids": w.tids, "symbols": w.symbols, "other": w.other,
           "words": w.description.split_whitespace().map(|s| s.trim_matches(|c: char| c == '\'' || c == '(' || c == ')' || c == '.' || c == ',')).collect::<Vec<_>>()})
}

/// Which analyses a checker needs before it runs (as `caller/src/main.rs` computes them).
#[derive(Clone, Copy, PartialEq)]
pub enum Needs {
    Nothing,
    PointerInference,
}

/// Run one checker module by name on the project.  Returns the warnings or the panic message.
pub fn run_checker(project: &Project, name: &str, config: &Value, needs: Needs) -> Result<Vec<CweWarning>, String> {
    run_checker_staged(project, name, config, needs).map_err(|(_, p)| p)
}

/// As [`run_checker`]; a panic is returned together with the pipeline stage it happened in
/// ("fnsig" = compute_function_signatures, "pi" = pointer inference, "check" = the checker itself).
pub fn run_checker_staged(project: &Project, name: &str, config: &Value, needs: Needs) -> Result<Vec<CweWarning>, (&'static str, String)> {
    let module = cwe_checker_lib::get_modules().into_iter().find(|m| m.name == name).expect("unknown checker module");
    let graph = catch(AssertUnwindSafe(|| get_program_cfg(&project.program))).map_err(|p| ("check", p))?;
    let binary: Vec<u8> = Vec::new();
    let results = AnalysisResults::new(&binary, &graph, project);
    if needs == Needs::Nothing {
        return catch(AssertUnwindSafe(|| (module.run)(&results, config).1)).map_err(|p| ("check", p));
    }
    let (fn_sigs, _logs) = catch(AssertUnwindSafe(|| results.compute_function_signatures())).map_err(|p| ("fnsig", p))?;
    let results = results.with_function_signatures(Some(&fn_sigs));
    let pi = catch(AssertUnwindSafe(|| {
        results.compute_pointer_inference(&json!({"allocation_symbols": ["malloc", "calloc", "realloc", "xmalloc", "strdup"]}), false)
    }))
    .map_err(|p| ("pi", p))?;
    let results = results.with_pointer_inference(Some(&pi));
    catch(AssertUnwindSafe(|| (module.run)(&results, config).1)).map_err(|p| ("check", p))
}

/// `compute_function_signatures`: per function (TID string) the names of the registers reported as
/// parameters (`AbstractLocation::Register` keys of `FunctionSignature::parameters`), sorted.
pub fn run_fn_sigs(project: &Project) -> Result<Vec<(String, Vec<String>)>, String> {
    catch(AssertUnwindSafe(|| {
        let graph = get_program_cfg(&project.program);
        let binary: Vec<u8> = Vec::new();
        let results = AnalysisResults::new(&binary, &graph, project);
        let (fn_sigs, _logs) = results.compute_function_signatures();
        fn_sigs
            .iter()
            .map(|(tid, sig)| {
                let mut regs: Vec<String> = sig
                    .parameters
                    .keys()
                    .filter_map(|loc| match loc {
                        AbstractLocation::Register(v) => Some(v.name.clone()),
                        _ => None,
                    })
                    .collect();
                regs.sort();
                (tid.to_string(), regs)
            })
            .collect()
    }))
}
