//! Mechanical projections of values of the code under test to the TLA-friendly JSON encoding
//! (DESIGN.md appendix A).  Every field has ONE JSON type, because TLC refuses to compare values of
//! different types: "unknown" is the empty array, a missing panic is the empty string.
use cwe_checker_lib::intermediate_representation::*;
use apint::Width;
use serde_json::{json, Value};

/// little-endian byte array
pub fn bv(b: &Bitvector) -> Value {
    let bytes = (b.width().to_usize() + 7) / 8;
    let mut v = Vec::with_capacity(bytes);
    let mut cur = b.clone();
    for _ in 0..bytes {
        let low = cur.clone().into_truncate(8).unwrap().try_to_u8().unwrap();
        v.push(json!(low));
        if cur.width().to_usize() > 8 {
            cur = cur.clone().into_checked_lshr(8).unwrap();
        }
    }
    Value::Array(v)
}

pub fn bv_from_bytes(bytes: &[u8]) -> Bitvector {
    let mut r = Bitvector::from_u8(bytes[bytes.len() - 1]);
    for b in bytes.iter().rev().skip(1) {
        let w = r.width().to_usize() + 8;
        r = r.into_zero_extend(w).unwrap().into_checked_shl(8).unwrap() | &Bitvector::from_u8(*b).into_zero_extend(w).unwrap();
    }
    r
}

pub fn bv_from_json(v: &Value) -> Bitvector {
    let bytes: Vec<u8> = v.as_array().unwrap().iter().map(|x| x.as_u64().unwrap() as u8).collect();
    bv_from_bytes(&bytes)
}

pub fn bv_u64(x: u64, size: u64) -> Bitvector {
    let b = Bitvector::from_u64(x);
    if size >= 8 {
        b.into_zero_extend((size * 8) as usize).unwrap()
    } else {
        b.into_truncate((size * 8) as usize).unwrap()
    }
}
pub fn bv_i64(x: i64, size: u64) -> Bitvector {
    let b = Bitvector::from_i64(x);
    if size >= 8 {
        b.into_sign_extend((size * 8) as usize).unwrap()
    } else {
        b.into_truncate((size * 8) as usize).unwrap()
    }
}

pub fn name<T: serde::Serialize>(x: &T) -> String {
    match serde_json::to_value(x).unwrap() {
        Value::String(s) => s,
        other => other.to_string(),
    }
}
